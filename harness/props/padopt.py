"""PADOPT - standalone entry of the PadOpt stage (harness/padopt.py), for development and for the mutation self-test:
`./check PADOPT [--tier quick|thorough]`.  The stage itself is called by the C07 and C08 checks with their clause names."""
import json

from .. import core, padopt

META = dict(
    level="model_checking",
    level_text=("Exhaustive TLC model checking of spec/PadOpt.tla (Field.pad along one axis for every configuration, mode / "
                "option record and width pair within the bounds of MC_PadOpt.tla; padding written constructively the way "
                "numpy.pad works and stated declaratively per cell, four invariants PadOpt_*), every TLC state replayed on "
                "the real Field.pad (scalar and three-component fields, float and integer dtype, a dyadic and a real-world "
                "embedding), plus seeded random executions on larger meshes (several axes per call) validated by TLC against "
                "spec/PadOptTrace.tla."),
    level_note=("Stage shared by C07 (padding follows the mode) and C08 (validity is padded like the data). Modes: constant "
                "(constant_values scalar / pair), maximum / minimum / mean / median (stat_length), edge, wrap, reflect, "
                "symmetric (reflect_type even), linear_ramp (end_values >= 0, float fields only). Out: reflect_type='odd', "
                "mode='empty', callables, per-side stat_length, linear_ramp on integer fields. See notes/PadOpt.md."),
    technique="TLA+ array model (Cells.tla, PadOpt.tla) + TLC exhaustive; spec states replayed into code; code traces validated by TLC",
    design_ref="notes/PadOpt.md",
)

RULE = ("states: all configurations within the cfg bounds x axis x mode/option record (one state holds the results for every "
        "width pair); a case is one Field.pad call compared with the specification (state x width pair x realisation, or one "
        "recorded trace event); non-trivial = at least one cell is added")


def run(ctx):
    df = core.import_library()
    info = padopt.run_stage(ctx, df, "PadOpt")
    return core.finish(ctx, rule=RULE, extra={"padopt": info, "embeddings": [e.name for e in padopt.EMBS]})


def replay(ctx, path):
    """re-run the public call of a channel-R witness and compare it with the specification's result again"""
    df = core.import_library()
    with open(path) as fh:
        rp = json.load(fh)
    w = rp["witness"]
    if "event" in w:
        e = w["event"]
        emb = {x.name: x for x in padopt.EMBS}[w["emb"]]
        m = padopt.geom(w["n"], lo=w["lo"], c=w["c"])
        f = padopt.make_field(df, m, emb, w["dims"], w["a"], w["valid"], w["int"])
        try:
            res = f.pad({w["dims"][d - 1]: (l, r) for d, l, r in e["st"]}, mode=e["o"]["mode"], **padopt.kwargs_of(e["o"]))
            print("trace witness re-executed: n =", list(res.mesh.n))
            print(" values  :", padopt.fld.flatten(res.array).tolist())
            print(" validity:", padopt.fld.flatten_mask(res.valid).astype(int).tolist())
        except Exception as ex:  # noqa: BLE001
            print("trace witness re-executed: raises", repr(ex))
        print("recorded :", json.dumps(e["r"])[:2000])
        print("(the verdict comes from spec/PadOptTrace.tla; re-run ./check with VERIF_SEED=%s)" % rp.get("seed"))
        return 1
    emb = {x.name: x for x in padopt.EMBS}[w["embedding"]]
    m = padopt.geom(w["n"])
    nv = w["nvdim"]
    cells = [[v, 2 * v + 1, -v][:nv] for v in w["vals"]]
    f = padopt.make_field(df, m, emb, w["dims"], cells, w["valid"], w["dtype"] == "int")
    opts = {k: (tuple(v) if isinstance(v, list) else v) for k, v in w["options"].items()}
    try:
        res = f.pad({w["dims"][w["axis"] - 1]: tuple(w["widths"])}, mode=w["mode"], **opts)
    except Exception as ex:  # noqa: BLE001
        print("replay: raises", repr(ex))
        return 1
    print("replay:", rp["key"])
    print(" n       :", [int(x) for x in res.mesh.n], "pmin", res.mesh.region.pmin, "pmax", res.mesh.region.pmax)
    print(" values  :", padopt.fld.flatten(res.array).tolist())
    print(" validity:", padopt.fld.flatten_mask(res.valid).astype(int).tolist())
    if "expected" not in w:
        print(" recorded:", json.dumps(w.get("detail", w.get("exc")))[:2000])
        return 1
    bad = padopt.compare(res, w["expected"], m, emb, nv, w["dtype"] == "int")
    print(" ->", f"{bad[0]}: {padopt.WHAT[bad[0]]} {core.jsonable(bad[1])}" if bad else "agrees with the specification's result")
    return 1 if bad else 0
