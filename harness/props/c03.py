"""C03 - field algebra is cell-wise NumPy algebra on one mesh; operands stay untouched.

M: TLC exhaustive on spec/C03.tla (register machine of spec/FieldAlg.tla, pool and bounds in MC_C03.tla).
R: every dumped state (initial registers, program, expected result) is rebuilt in the real library and
   executed through the public operators; result array / mesh / shape, rejection, operand snapshots,
   a*b vs b*a (labels, mapping, validity, values) and component re-stacking are compared with the state.
T: seeded random expression programs on random 1-4-D meshes are executed on the real library, every
   call logged (operands and result projected to exact Gaussian rationals) and validated by TLC against
   spec/C03Trace.tla, which evaluates the clauses C03_* on the observed values.
"""
import json
import random
import re

import numpy as np

from .. import core, embed, tlaval
from .. import c03_machine as mc
from ..core import Part

META = dict(
    level="model_checking",
    level_text=("Exhaustive TLC model checking of spec/C03.tla, an explicit register machine (spec/FieldAlg.tla) whose registers "
                "hold fields, numbers, constant vectors and per-cell arrays with exact Gaussian-rational values: every unary, "
                "binary (both operand orders, reflected operators), dot/cross/angle, stacking, component, complex-part and "
                "ufunc call over every unordered pair of pool registers, plus bounded-depth programs; ten clauses C03_*. Every "
                "TLC state is replayed on the real operators (array, mesh, shape, rejection, operand snapshots, a*b vs b*a incl. "
                "labels and mapping, re-stacking), and seeded random expression programs on 1-4-D meshes are validated by TLC "
                "against spec/C03Trace.tla."),
    level_note=("Bounds: meshes 2x2, 3x2x1 (thorough also 1-D n=3); pool of 23 registers per mesh (scalar / 2- / 3- / 4-vector "
                "fields, int/float/complex, default and custom labels with permuted mapping, numbers -2, 3, 2+1i, constant "
                "vectors, per-cell arrays, fields on a shifted mesh and on a mesh with other cell counts); depth 1 over all "
                "pairs, depth 2 (quick) / 3 (thorough) over selected triples; exponents -1..3; arithmetic guarded to 32 bit. "
                "Not decided by the spec: arccos values (compared through cos^2 and sign(dot); NaN accepted iff cos^2 = 1), "
                "irrational norms (compared through norm^2), phase, transcendental ufuncs (validity only, C08), labels of two "
                "equally long operands with different labels (only the observed a*b vs b*a are compared). Trusted: TLC, "
                "harness/tlaval.py, the projection of floats to small rationals (harness/c03_machine.py), IEEE exactness on "
                "small integers."),
    technique="TLA+ register machine (FieldAlg.tla, C03.tla) + TLC exhaustive; states replayed into code; code traces validated by TLC (C03Trace.tla)",
    design_ref="DESIGN.md section 7 C03",
)

RULE = ("states: every (initial register file, program) within the cfg bounds; a case is one (state, embedding) pair executed on "
        "the real library; non-trivial = the last instruction is accepted and combines two registers or changes the component "
        "count, or is rejected; distinct by (initial registers, program, embedding)")

_VAR = re.compile(r"^/\\ (\w+) = ", re.M)
_STATE_HDR = re.compile(r"^State \d+:\s*$", re.M)

ALGEBRA2 = ("add", "sub", "mul", "div", "pow", "dot", "cross", "angle", "lshift", "ufunc2")


def split_state(block, want):
    """{var: text} for the wanted variables of one dumped state (the others are not tokenised)."""
    out = {}
    ms = list(_VAR.finditer(block))
    for k, m in enumerate(ms):
        name = m.group(1)
        if name in want:
            end = ms[k + 1].start() if k + 1 < len(ms) else len(block)
            out[name] = block[m.end():end]
    return out


def parse_state(block):
    txt = split_state(block, ("init", "prog", "obs", "regs"))
    st = {"init": tlaval.parse_value(txt["init"]), "prog": tlaval.parse_value(txt["prog"]), "obs": tlaval.parse_value(txt["obs"])}
    if len(st["prog"]) != 1:
        st["regs"] = tlaval.parse_value(txt["regs"])
    return st


def read_blocks(path):
    with open(path) as fh:
        text = fh.read()
    return [b for b in _STATE_HDR.split(text) if b.strip()]


# ------------------------------------------------------------------ channel R
def field_parts_differ(f1, f2):
    """which parts of two library fields differ (for a*b vs b*a)"""
    out = []
    if mc.mesh_key(f1.mesh) != mc.mesh_key(f2.mesh):
        out.append("mesh")
    if f1.nvdim != f2.nvdim or f1.array.shape != f2.array.shape:
        out.append("shape")
    elif not np.allclose(f1.array, f2.array, rtol=1e-12, atol=0, equal_nan=True):
        out.append("values")
    if f1.valid.shape != f2.valid.shape or not np.array_equal(f1.valid, f2.valid):
        out.append("validity")
    if mc.vdims_seq(f1) != mc.vdims_seq(f2):
        out.append("labels")
    if dict(f1.vdim_mapping) != dict(f2.vdim_mapping):
        out.append("mapping")
    return out


def has_default_meta(f):
    """default labels and the default mapping the constructor would assign (the case in which re-stacking can reproduce both)"""
    vd = [] if f.vdims is None else list(f.vdims)
    if vd != mc.default_vdims(f.nvdim):
        return False
    dims = list(f.mesh.region.dims)
    want = dict(zip(vd, dims)) if f.nvdim == len(dims) and f.nvdim > 1 else {}
    return dict(f.vdim_mapping) == want


def compare_values(part, key, wit, F, E, mregs, ins):
    """C03_Cellwise on one produced field F against the expected register E"""
    n = tuple(E["m"]["n"])
    if F.array.shape != n + (E["nv"],) or F.nvdim != E["nv"]:
        part.violation(key("C03_Cellwise", "shape"), "result has the wrong shape / component count", wit(got_shape=F.array.shape, nvdim=F.nvdim))
        return
    obs = mc.flat_cells(F.array)
    if E["vx"]:
        exp = mc.expected_array(E["val"])
        if not mc.values_close(obs, exp, mc.magnitude(mregs, ins, exp)):
            part.violation(key("C03_Cellwise", "values"), "result array is not the expression evaluated cell by cell", wit(got=obs, want=exp))
    elif ins[0] == "norm" and E["aux"]:
        exp = np.array([[t[0] / t[2]] for t in E["aux"]], dtype=float)
        if not mc.values_close(obs.real.astype(float) ** 2, exp, mc.magnitude(mregs, ins, exp)) or np.any(obs.real < 0):
            part.violation(key("C03_Cellwise", "values"), "norm^2 is not the sum of squared components", wit(got=obs, want_sq=exp))
    elif ins[0] == "angle" and E["aux"]:
        for k, (sg, num, den) in enumerate(E["aux"]):
            th = float(np.real(obs[k][0]))
            if np.isnan(th):
                if num != den:  # N2: NaN only where the vectors are (anti)parallel and rounding pushes |cos| above 1
                    part.violation(key("C03_Cellwise", "values"), "angle is NaN where cos^2 < 1", wit(cell=k, cos2=(num, den)))
                    break
                continue
            c = np.cos(th)
            if not (0.0 <= th <= np.pi + 1e-12) or abs(c * c - num / den) > 1e-7 or (sg != 0 and abs(c) > 1e-6 and np.sign(c) != sg):
                part.violation(key("C03_Cellwise", "values"), "angle does not have the cosine dot/(|a||b|)", wit(cell=k, got=th, cos2=(num, den), sign=sg))
                break


def exec_state(df, st, pool, emb, part, scratch):
    init, prog, obs = st["init"], st["prog"], st["obs"]
    if not prog:
        return
    mregs = list(st["regs"]) if "regs" in st else list(pool[init[0]])
    ninit = len(init[0])
    M = mc.Machine(df, emb, scratch)
    M.load(pool[init[0]])
    ins = prog[-1]
    if "regs" in st and len(mregs) < ninit + len(prog) - (0 if obs["ok"] else 1):
        raise core._tlc.MachineryError(f"state has {len(mregs)} registers for program {prog}")
    # prefix: already checked in its own state; here it only has to run
    for p in prog[:-1]:
        try:
            M.push(M.execute(p, mregs))
        except mc.Rejected as ex:
            part.note("prefix_rejected")
            return
    opc = mc.op_class(ins, M.objs)
    key = lambda clause, cond: f"{clause}/{opc}/{cond}"
    wit = lambda **kw: dict(init=init, prog=prog, embedding=emb.name, expected_ok=obs["ok"], **kw)
    part.count()
    try:
        F = M.execute(ins, mregs)
        raised = None
    except mc.Rejected as ex:
        F, raised = None, ex.exc
    op, i, j, x = ins
    two_fields = j > 0 and mregs[i - 1]["k"] == "field" and mregs[j - 1]["k"] == "field"
    if not obs["ok"]:
        if raised is None:
            why = "different-mesh" if two_fields and mregs[i - 1]["m"] != mregs[j - 1]["m"] else "component-count"
            part.violation(key("C03_RejectMismatch", f"accepted-{why}"),
                           "fields on different meshes / with incompatible component counts were combined without an error", wit(got=repr(F)))
        part.nontriv(str(init), str(prog), emb.name)
    elif raised is not None:
        part.violation(key("C03_Cellwise", f"raises-{type(raised).__name__}"),
                       "a valid expression over fields on one mesh raised an error", wit(exc=repr(raised)))
    else:
        E = obs["reg"]
        if not isinstance(F, df.Field):
            part.violation(key("C03_Cellwise", "not-a-field"), "the expression did not yield a Field", wit(got=type(F).__name__))
            return
        if not mc.mesh_matches(F, E["m"], emb) or (op in ALGEBRA2 + ("neg", "pos", "abs") and F.mesh != M.objs[(i if mregs[i - 1]["k"] == "field" else j) - 1].mesh):
            part.violation(key("C03_Cellwise", "mesh"), "the result does not live on the operands' mesh", wit(got=repr(F.mesh)))
        compare_values(part, key, wit, F, E, mregs, ins)
        # labels / mapping where the property is silent: recorded, never a verdict
        if mc.vdims_seq(F) != tuple(E["vdims"]) or mc.mapping_seq(F) != tuple(E["map"]):
            part.note("metadata_differs_from_model:" + opc)
        if op == "restack":
            src = M.objs[i - 1]
            if not np.array_equal(F.array, src.array) or not np.array_equal(F.valid, src.valid) or F.mesh != src.mesh:
                part.violation(key("C03_StackComponents", "values"), "stacking the components does not reproduce the field", wit(got=F.array))
            elif has_default_meta(src) and (mc.vdims_seq(F) != mc.vdims_seq(src) or dict(F.vdim_mapping) != dict(src.vdim_mapping)):
                part.violation(key("C03_StackComponents", "labels"), "stacking the components of a default-labelled field changes labels / mapping",
                               wit(got=(F.vdims, F.vdim_mapping), want=(src.vdims, src.vdim_mapping)))
        if j > 0 or mregs[i - 1]["nv"] != E["nv"]:
            part.nontriv(str(init), str(prog), emb.name)
    # a*b == b*a including labels and mapping: both orders on the real operators
    if op in ("add", "mul") and j > 0 and obs["ok"] and raised is None and isinstance(F, df.Field):
        ks = "".join(sorted(mc.obj_letter(M.objs[i - 1]) + mc.obj_letter(M.objs[j - 1])))
        ckey = lambda cond: f"C03_Commutes/{op}.{ks}/{cond}"
        try:
            G = M.execute((op, j, i, x), mregs)
        except mc.Rejected as ex:
            part.violation(ckey("one-order-raises"), "a op b is accepted, b op a raises", wit(exc=repr(ex.exc)))
            G = None
        if G is not None:
            d = field_parts_differ(F, G)
            if d:
                part.violation(ckey("+".join(d)), "a op b and b op a differ", wit(differs=d, ab=(F.vdims, F.vdim_mapping), ba=(G.vdims, G.vdim_mapping)))
            part.count()
    # evaluation leaves every operand untouched
    ch = M.changed()
    if ch:
        parts = sorted({p for v in ch.values() for p in v})
        part.violation(key("C03_OperandsUnchanged", "+".join(parts)), "evaluating the expression modified an operand", wit(changed=ch))
    elif isinstance(F, df.Field) and raised is None and obs["ok"]:
        # the expression yields a field: what is done to that field afterwards (new labels, values written into its array)
        # must not reach an operand either - a result that IS an operand, or that shares a mutable part with one, has not
        # left the operand untouched (seeded changes C03-12: shared mapping dictionary renamed in place; C03-13: .real
        # returns the operand itself for real data)
        probes = []
        if F.nvdim > 1 and F.vdims:
            probes.append(("relabelling-the-result", lambda: setattr(F, "vdims", [f"r{c}" for c in range(F.nvdim)])))
        probes.append(("writing-into-the-result", lambda: F.array.__setitem__(Ellipsis, F.array * 2 + 1)))
        for name, act in probes:
            try:
                act()
            except Exception:  # noqa: BLE001  (a result that cannot be relabelled / written is not this clause's business)
                continue
            ch = M.changed()
            if ch:
                parts = sorted({p for v in ch.values() for p in v})
                part.violation(key("C03_OperandsUnchanged", f"after-{name}/" + "+".join(parts)),
                               f"{name} changed an operand: the result shares a mutable part with it (or is the operand itself)", wit(changed=ch))
                break


def run_replay(ctx, df, r, embs):
    blocks = read_blocks(r.dump)
    if len(blocks) != r.distinct:
        raise core._tlc.MachineryError(f"dump has {len(blocks)} states, TLC reports {r.distinct}")
    # initial states carry the pool: init -> initial registers
    pool = {}
    rest = []
    for b in blocks:
        if "/\\ prog = <<>>" in b:
            st = parse_state(b)
            pool[st["init"][0]] = st["regs"]
        else:
            rest.append(b)
    if not pool or not rest:
        raise core._tlc.MachineryError("dump without initial / successor states")
    scratch = ctx.scratch
    work = [(b, e) for b in rest for e in range(len(embs))]

    def chunk(items):
        part = Part()
        cache = {}
        for b, ei in items:
            st = cache.get(id(b))
            if st is None:
                st = cache[id(b)] = parse_state(b)
            exec_state(df, st, pool, embs[ei], part, scratch)
            if ei == 0:
                part.note("fired:" + str(st["prog"][-1][0]))
            part.trace()
        if items:
            st = parse_state(items[0][0])
            part.sample({"channel": "R", "init": st["init"], "prog": st["prog"], "expected_ok": st["obs"]["ok"], "embedding": embs[items[0][1]].name})
        return part

    ctx.pmap(chunk, work)


# ------------------------------------------------------------------ channel T
from .. import c03_trace  # noqa: E402  (driver lives in harness/c03_trace.py)


def run(ctx):
    df = core.import_library()
    embs = [embed.DYADIC[0], embed.REAL[1]] if ctx.tier == "quick" else [embed.DYADIC[0], embed.DYADIC[3], embed.REAL[1], embed.REAL[4]]
    # TLC's -coverage cannot be used on the FieldAlg models (its cost model expands every operator at every call site and
    # exhausts the heap before the first state); the per-action counts are taken from the dumped programs instead
    r = ctx.model("MC_C03", f"C03_{ctx.tier}.cfg", dump=True, coverage=False)
    if r.ok:
        run_replay(ctx, df, r, embs)
        fired = {k[6:]: v for k, v in ctx.notes.items() if k.startswith("fired:")}
        if not fired:
            raise core._tlc.MachineryError("no instruction of the model was replayed")
        ctx.coverage_actions.update({f"MC_C03.{a}": n for a, n in fired.items()})
    c03_trace.run_traces(ctx, df, 400 if ctx.tier == "quick" else 6000)
    ctx.assumptions += [
        "TLC explores the bounded program space of spec/C03.tla completely (pool and bounds in MC_C03.tla)",
        "values are exact Gaussian rationals in the model; float results are compared with tolerance 1e-9 x operand magnitude",
        "labels/mapping of results are compared only where the property states them (a*b vs b*a, re-stacking)",
    ]
    core.df_stage(ctx, df)   # mixed histories (spec/DF.tla): the clauses that come from this property's text
    return core.finish(ctx, rule=RULE, extra={"embeddings": [e.name for e in embs]})


def replay(ctx, path):
    df = core.import_library()
    with open(path) as fh:
        rp = json.load(fh)
    w = rp["witness"]
    print("witness:", json.dumps(w)[:3000])
    if "snippet" in w:
        print(w["snippet"])
    return 1
