"""C07 - sub-selection, padding and resampling keep every value at its physical position.

M: TLC exhaustive on spec/C07.tla (MC_C07 + C07_<tier>.cfg): every mesh of 1-4 dimensions in the bounds x
   subregion layout x every request (plane / range selection, extraction by name / by box, region2slices,
   pad, resample); invariants C07_*.
R: every dumped state is decomposed into *cases* (one public call each), executed on the real Field / Mesh
   API under the tier's float embeddings and compared with the specification's per-axis description
   (exact on dyadic embeddings; face ambiguity through the spec's `alt` sets elsewhere).  Fields carry
   pairwise distinct integers per cell/component and a seeded random validity mask.
T: seeded random larger meshes / arbitrary integer coordinates are executed on the real library; the
   observed result mesh, the observed cell->source-cell map (recovered from the distinct values) and the
   observed validity are logged and validated by TLC against spec/C07Trace.tla.
"""
import json
import random
import re
import zlib

import numpy as np

from .. import core, embed, fld, lat, tlaval
from ..core import Part

META = dict(
    level="model_checking",
    level_text=("Exhaustive TLC model checking of spec/C07.tla (every 1-4-D mesh within the bounds of MC_C07.tla x three "
                "subregion layouts x every plane/range selection on the quarter-cell lattice, extraction by name and by "
                "aligned/arbitrary boxes, region2slices, five pad modes x widths, resampling to 1..6(9) cells; fourteen "
                "invariants C07_*), every TLC state replayed call by call on the real Field/Mesh API under dyadic (exact) "
                "and real-world (tolerance, face ambiguity) embeddings with pairwise distinct cell values and random "
                "validity masks, plus seeded random executions on larger meshes validated by TLC (spec/C07Trace.tla) on "
                "the observed cell maps."),
    level_note=("Bounds: quick n<=4/3/3/2 (1-4-D), thorough n<=6/4/3/2; cell sizes 4/8/12 lattice units anisotropic; "
                "selection coordinates and box corners on the quarter-cell lattice (R) and on arbitrary integer lattice "
                "points of meshes up to 24 cells/axis (T). pad modes constant/edge/wrap/symmetric/reflect only (the "
                "index-map modes); resampling ties (target centre on a source face) are set-valued on every embedding. "
                "region2slices is constrained for whole-cell boxes only (the property is silent otherwise); bc and other "
                "metadata are not compared. Trusted: TLC, harness/tlaval.py, the embedding/projection adapter."
                " A second model, spec/PadOpt.tla (stage PadOpt, harness/padopt.py), covers the np.pad modes and options that are not index maps (constant_values, maximum/minimum/mean/median with stat_length, linear_ramp with end_values) for data and validity, with its own M/R/T channels (notes/PadOpt.md)."),
    technique="TLA+ lattice model (Lattice.tla, Cells.tla, C07.tla) + TLC exhaustive; spec states replayed into code; code traces validated by TLC (C07Trace.tla); Apalache on the unbounded 1-d core (C07Core.tla: selection, padding, refinement keep positions)",
    design_ref="DESIGN.md section 7 C07",
)

RULE = ("a case is one public call (one probe of one TLC state) under one embedding; non-trivial = the result differs "
        "from the whole source (a proper block, a dropped axis, added cells, another resolution) or is a rejection; "
        "distinct by (mesh, layout, call, arguments, embedding)")


# ------------------------------------------------------------------ helpers
def norm(v):
    """TLC value -> JSON-safe structure (tuples -> lists, sets -> sorted lists, dict keys kept if str)."""
    if isinstance(v, dict):
        return {k: norm(x) for k, x in v.items()}
    if isinstance(v, (tuple, list)):
        return [norm(x) for x in v]
    if isinstance(v, (set, frozenset)):
        return sorted((norm(_thaw(x)) for x in v), key=lambda z: json.dumps(z, sort_keys=True))
    return v


def _thaw(v):
    """tlaval freezes records inside sets into sorted tuples of (key, value) pairs: undo."""
    if isinstance(v, tuple) and v and all(isinstance(x, tuple) and len(x) == 2 and isinstance(x[0], str) for x in v):
        return {k: _thaw(x) for k, x in v}
    if isinstance(v, tuple):
        return tuple(_thaw(x) for x in v)
    return v


def as_dict(f):
    """TLC prints a function with domain 1..n as a tuple: give every table the dict shape"""
    if isinstance(f, tuple):
        return {i + 1: v for i, v in enumerate(f)}
    return f


def with_ax(base, d, a):
    if not a["ok"]:
        return {"ok": False}
    r = {"ok": True, "drop": base["drop"], "ax": list(base["ax"]), "alt": list(base["alt"])}
    r["ax"][d - 1] = a["s"]
    r["alt"][d - 1] = a["alt"]
    return r


def embclass(emb, coords=(), cmin=4):
    """embedding class used in violation keys: dyadic | real | real-big | real-tiny.

    real-big: coordinates so large that rounding noise in remainders approaches the library's absolute 1e-12
    alignment tolerance; real-tiny: cells so small that 1e-12 is more than 1% of a cell (both: D18 regime)."""
    if emb.dyadic:
        return "dyadic"
    if abs(emb.quantum) * cmin <= 1e-10:
        return "real-tiny"
    if max([abs(emb.origin)] + [abs(emb.x(c)) for c in coords]) >= 10.0:
        return "real-big"
    return "real"


def make_field(df, mesh, m, nv, mseed):
    ncell = int(np.prod(m["n"]))
    flat = np.arange(ncell)[:, None] * nv + np.arange(nv)[None, :] + 1  # value -> (cell, comp): pairwise distinct
    arr = np.stack([flat[:, c].reshape(tuple(m["n"]), order="F") for c in range(nv)], axis=-1).astype(float)
    rs = np.random.RandomState(mseed % (2**31))
    valid = rs.rand(*m["n"]) < 0.6
    return fld.lived(df.Field(mesh, nvdim=nv, value=arr, valid=valid), int(np.sum(mesh.n)) + nv + int(np.sum(valid))), arr, valid


def build(df, case, emb):
    m = case["mesh"]
    names = lat.names_for(m)
    flip = lat.flip_for(m)
    if emb.name == "unit" and case["mseed"] % 2 == 0:
        # integer-cornered variant (lattice coordinates are the coordinates): exercises the int64 corner paths
        nd = len(m["n"])
        hi = [m["lo"][d] + m["c"][d] * m["n"][d] for d in range(nd)]
        p1 = [int(hi[d] if flip[d] else m["lo"][d]) for d in range(nd)]
        p2 = [int(m["lo"][d] if flip[d] else hi[d]) for d in range(nd)]
        subs = {s["name"]: df.Region(p1=[int(v) for v in s["box"]["lo"]], p2=[int(v) for v in s["box"]["hi"]])
                for s in case.get("subs", [])}
        return df.Mesh(region=df.Region(p1=p1, p2=p2, dims=names), n=tuple(m["n"]), subregions=subs or None), names
    subs = {s["name"]: lat.box_region(df, s["box"], emb) for s in case.get("subs", [])}
    mesh = lat.mesh_of(df, m, emb, dims=names, flip=flip, subregions=subs or None)
    return mesh, names


def build_env(df, case, emb, part=None):
    """source mesh (with the layout's subregions), field, arrays; if the library refuses the (valid) subregions
    on this embedding (C14's business: D18) the case runs without them and the fact is noted"""
    m = case["mesh"]
    subs_used = True
    try:
        mesh, names = build(df, case, emb)
    except ValueError:
        if not case.get("subs"):
            raise
        mesh, names = build(df, dict(case, subs=[]), emb)
        subs_used = False
        if part is not None:
            part.note("subregions_refused_by_library")
    field, arr, valid = make_field(df, mesh, m, case["nv"], case["mseed"])
    return dict(mesh=mesh, names=names, field=field, arr=arr, valid=valid, subs_used=subs_used)


def coords_of(m):
    nd = len(m["n"])
    return [m["lo"][d] for d in range(nd)] + [m["lo"][d] + m["c"][d] * m["n"][d] for d in range(nd)]


def mesh_matches(emb, mesh, m, lo, n, c, cq, coords):
    """does library mesh `mesh` sit at lattice corner lo with counts n and cell sizes c?"""
    if tuple(int(v) for v in mesh.n) != tuple(n):
        return False
    pmin = np.asarray(mesh.region.pmin, dtype=float)
    cell = np.asarray(mesh.cell, dtype=float)
    for d in range(len(n)):
        if not emb.close(pmin[d], lo[d], cq, coords):
            return False
        if not emb.close_len(cell[d], c[d], cq, coords):
            return False
    return True


def pick_block(emb, mesh, m, exp, cq, coords):
    """find the admissible per-axis segments that describe the observed result mesh (None if none does)."""
    nd = len(m["n"])
    drop = exp["drop"]
    keep = [d for d in range(nd) if d + 1 != drop]
    if mesh is not None and len(mesh.n) != len(keep):
        return None
    chosen = []
    for d in range(nd):
        cands = [exp["ax"][d]] if emb.dyadic else exp["alt"][d]
        if d + 1 == drop:
            chosen.append(cands)  # decided by the values, not by the mesh
            continue
        j = keep.index(d)
        ok = [s for s in cands
              if int(mesh.n[j]) == s["t"] - s["f"]
              and emb.close(float(mesh.region.pmin[j]), s["lo"], cq, coords)
              and emb.close_len(float(mesh.cell[j]), m["c"][d], cq, coords)]
        if not ok:
            return None
        chosen.append(ok[:1])
    return chosen


def block_expected(arr, valid, chosen, drop):
    """candidate (array, valid) results for the chosen segments (several only for the dropped axis)."""
    outs = []
    nd = len(chosen)
    dropc = chosen[drop - 1] if drop else [None]
    for s in dropc:
        idx = []
        for d in range(nd):
            if d + 1 == drop:
                idx.append(s["f"])
            else:
                idx.append(slice(chosen[d][0]["f"], chosen[d][0]["t"]))
        outs.append((arr[tuple(idx)], valid[tuple(idx)]))
    return outs


def sliver_cond(case, exp):
    """does a face of the expected block coincide with a subregion face along the selected axis?"""
    d = case["d"] - 1
    faces = set()
    for s in exp["alt"][d]:
        faces.add(s["lo"])
        faces.add(s["lo"] + case["mesh"]["c"][d] * (s["t"] - s["f"]))
    for s in case.get("subs", []):
        if s["box"]["lo"][d] in faces or s["box"]["hi"][d] in faces:
            return True
    return False


# ------------------------------------------------------------------ one case = one public call
def check_case(df, case, emb, part, mesh_level=True, env=None):
    """execute one case on the real library and compare with its expectation"""
    m = case["mesh"]
    nd = len(m["n"])
    op = case["op"]
    cq = lat.cellq(m)
    coords = coords_of(m)
    ec = embclass(emb, coords, min(m["c"]))

    def key(clause, cond):
        return f"{clause}/{op}/{cond}/{ec}"

    def wit(**kw):
        return dict(case=case, embedding=emb.name, **kw)

    if env is None:
        try:
            env = build_env(df, case, emb, part)
        except Exception as ex:
            part.violation(key("construct", "raises"), f"building the source mesh/field raised {type(ex).__name__}", wit(exc=repr(ex)))
            return
    mesh, names, field, arr, valid = env["mesh"], env["names"], env["field"], env["arr"], env["valid"]
    part.count()
    exp = case["exp"]

    # ---------------------------------------------------------------- block operations
    if op in ("sel_centre", "sel_point", "sel_range", "getitem_name", "getitem_box"):
        if op == "sel_centre":
            call_f = lambda o: o.sel(names[case["d"] - 1])
        elif op == "sel_point":
            call_f = lambda o: o.sel(**{names[case["d"] - 1]: emb.x(case["x"])})
        elif op == "sel_range":
            rng = [emb.x(case["x1"]), emb.x(case["x2"])]
            rng = (tuple(rng), list(rng), np.array(rng))[case["mseed"] % 3]
            call_f = lambda o: o.sel(**{names[case["d"] - 1]: rng})
        elif op == "getitem_name":
            call_f = lambda o: o[case["name"]]
        else:
            call_f = lambda o: o[lat.box_region(df, case["box"], emb)]
        clause = {"sel_centre": "C07_PlaneRemovesAxisAtContainingCell", "sel_point": "C07_PlaneRemovesAxisAtContainingCell",
                  "sel_range": "C07_RangeKeepsFromTo", "getitem_name": "C07_NamedAndSlicesExact",
                  "getitem_box": "C07_SmallestCoveringBlock"}[op]
        targets = [("field", field)]
        if mesh_level and not (op in ("sel_centre", "sel_point") and nd == 1):
            targets.append(("mesh", mesh))
        for what, obj in targets:
            try:
                res = call_f(obj)
                ok, err = True, None
            except Exception as ex:
                ok, res, err = False, None, ex
            if op == "getitem_name" and not env["subs_used"]:
                continue  # the library refused the layout on this embedding (C14 reports that)
            if not exp["ok"]:
                if ok:
                    part.violation(key("C07_OutsideRejected", f"{what}-accepts-outside"),
                                   "a request outside the region is not rejected", wit(got=repr(res)))
                continue
            if not ok:
                cond = "raises"
                if op == "sel_range" and case.get("subs") and env["subs_used"]:
                    cond = "raises-bound-on-subregion-face" if sliver_cond(case, exp) else "raises-with-subregions"
                elif op == "getitem_box" and any(case["box"]["hi"][d] == coords[nd + d] for d in range(nd)):
                    cond = "raises-upper-corner-on-region-boundary"
                part.violation(key(clause, f"{what}-{cond}"),
                               f"a request inside the region raised {type(err).__name__}", wit(exc=repr(err)))
                continue
            if nd == 1 and exp["drop"]:
                # 1-D plane selection: the library returns the value(s) of the cell
                cands = [exp["ax"][0]] if emb.dyadic else exp["alt"][0]
                got = np.asarray(res)
                if not any(np.array_equal(got, arr[s["f"]]) for s in cands):
                    part.violation(key("C07_PointwiseAgreement", "field-1d-plane-value"),
                                   "1-D plane selection does not return the value of the cell containing the coordinate",
                                   wit(got=got, want=[arr[s["f"]] for s in cands]))
                continue
            rmesh = res.mesh if what == "field" else res
            chosen = pick_block(emb, rmesh, m, exp, cq, coords)
            keepnames = tuple(nm for d, nm in enumerate(names) if d + 1 != exp["drop"])
            if chosen is None or tuple(rmesh.region.dims) != keepnames:
                part.violation(key(clause, f"{what}-mesh"),
                               "the result mesh is not the block of whole source cells the specification describes",
                               wit(got=dict(pmin=rmesh.region.pmin, pmax=rmesh.region.pmax, n=rmesh.n, dims=rmesh.region.dims)))
                continue
            if what == "field":
                outs = block_expected(arr, valid, chosen, exp["drop"])
                if not any(res.array.shape == a.shape and np.array_equal(res.array, a) for a, _ in outs):
                    part.violation(key("C07_PointwiseAgreement", "field-values"),
                                   "values of the result are not the source's values at the same positions",
                                   wit(got=res.array, want=outs[0][0]))
                elif not any(res.valid.shape == v.shape and np.array_equal(res.array, a) and np.array_equal(res.valid, v) for a, v in outs):
                    part.violation(key("C07_PointwiseAgreement", "field-validity"),
                                   "validity of the result is not the source's validity at the same positions",
                                   wit(got=res.valid, want=outs[0][1]))
                elif res.valid.dtype != bool:
                    part.violation(key("C07_PointwiseAgreement", "field-validity-dtype"), "validity is not Boolean", wit(got=str(res.valid.dtype)))
        if exp["ok"]:
            full = all(s["f"] == 0 and s["t"] == m["n"][d] for d, s in enumerate(exp["ax"])) and not exp["drop"]
            if not full:
                part.nontriv(str(m), str(case.get("subs")), op, _args(case), emb.name)
        else:
            part.nontriv(str(m), op, _args(case), emb.name)
        return

    if op == "region2slices":
        try:
            sl = mesh.region2slices(lat.box_region(df, case["box"], emb))
            ok = True
        except Exception as ex:
            ok, sl = False, repr(ex)
        if not exp["ok"]:
            if ok:
                part.violation(key("C07_OutsideRejected", "accepts-outside"), "region2slices accepts a region outside the mesh", wit(got=repr(sl)))
            part.nontriv(str(m), op, _args(case), emb.name)
            return
        if not ok:
            part.violation(key("C07_NamedAndSlicesExact", "raises"), "region2slices raised for a whole-cell region inside the mesh", wit(exc=sl))
            return
        want = tuple(slice(s["f"], s["t"]) for s in exp["ax"])
        got = tuple(slice(int(s.start), int(s.stop)) if s.step in (None, 1) else s for s in sl)
        if got != want:
            part.violation(key("C07_NamedAndSlicesExact", "slices"), "region2slices does not return the cells of the whole-cell region",
                           wit(got=repr(got), want=repr(want)))
        elif not np.array_equal(field.array[sl], arr[want]) or not np.array_equal(field.valid[sl], valid[want]):
            part.violation(key("C07_PointwiseAgreement", "slices-values"), "array[region2slices(r)] is not the block", wit())
        if any(s["f"] != 0 or s["t"] != m["n"][d] for d, s in enumerate(exp["ax"])):
            part.nontriv(str(m), op, _args(case), emb.name)
        return

    # ---------------------------------------------------------------- map operations
    if op in ("pad", "resample"):
        axs = exp["ax"]  # per axis: lo, hi, n, src (list of lists of admissible source indices)
        if op == "pad":
            pw = {names[d]: tuple(case["w"][d]) for d in range(nd) if tuple(case["w"][d]) != (0, 0) or case["mseed"] % 2}
            call_f = lambda: field.pad(pw, mode=case["mode"])
            call_m = lambda: mesh.pad(pw)
            clause = "C07_PadAddsCells"
        else:
            tn = tuple(int(a["n"]) for a in axs)
            tn_arg = (tn, list(tn), np.array(tn))[case["mseed"] % 3]
            call_f = lambda: field.resample(tn_arg)
            call_m = None
            clause = "C07_ResampleKeepsRegion"
        try:
            res = call_f()
        except Exception as ex:
            part.violation(key(clause, "raises"), f"{op} raised {type(ex).__name__}", wit(exc=repr(ex)))
            return
        meshes = [("field", res.mesh)]
        if call_m is not None and mesh_level:
            try:
                meshes.append(("mesh", call_m()))
            except Exception as ex:
                part.violation(key(clause, "mesh-raises"), f"Mesh.{op} raised {type(ex).__name__}", wit(exc=repr(ex)))
        good = True
        for what, rm in meshes:
            okm = tuple(int(v) for v in rm.n) == tuple(a["n"] for a in axs) and tuple(rm.region.dims) == tuple(names)
            for d in range(nd):
                okm = okm and emb.close(float(rm.region.pmin[d]), axs[d]["lo"], cq, coords + [axs[d]["lo"], axs[d]["hi"]])
                okm = okm and emb.close(float(rm.region.pmax[d]), axs[d]["hi"], cq, coords + [axs[d]["lo"], axs[d]["hi"]])
            if not okm:
                good = False
                part.violation(key(clause, f"{what}-mesh"),
                               "the result mesh does not have the region / cell counts the specification describes",
                               wit(got=dict(pmin=rm.region.pmin, pmax=rm.region.pmax, n=rm.n)))
        if good:
            bad = compare_map(arr, valid, res, axs, nd)
            if bad:
                part.violation(key("C07_PointwiseAgreement", bad[0]), bad[1], wit(cell=bad[2], got=bad[3], admissible=bad[4]))
            elif res.valid.dtype != bool:
                part.violation(key("C07_PointwiseAgreement", "validity-dtype"), "validity is not Boolean", wit(got=str(res.valid.dtype)))
        if tuple(a["n"] for a in axs) != tuple(m["n"]):
            part.nontriv(str(m), op, _args(case), emb.name)
        return
    raise core._tlc.MachineryError(f"unknown case op {op}")


def compare_map(arr, valid, res, axs, nd):
    """compare a pad/resample result with the per-axis admissible source indices"""
    shape = tuple(a["n"] for a in axs)
    if res.array.shape[:-1] != shape or res.valid.shape != shape:
        return ("shape", "result arrays have the wrong shape", None, res.array.shape, shape)
    single = all(len(s) == 1 for a in axs for s in a["src"])
    if single:
        idx = [np.array([s[0] for s in a["src"]]) for a in axs]
        fill = np.zeros(shape, dtype=bool)
        for d in range(nd):
            sh = [1] * nd
            sh[d] = shape[d]
            fill |= (idx[d] < 0).reshape(sh)
        safe = [np.where(i < 0, 0, i) for i in idx]
        want = arr[np.ix_(*safe)].copy()
        wantv = valid[np.ix_(*safe)].copy()
        want[fill] = 0
        wantv[fill] = False
        if not np.array_equal(res.array, want):
            j = tuple(int(v) for v in np.argwhere(np.any(res.array != want, axis=-1))[0])
            return ("values", "values of the result are not the source's values the index map of the operation assigns",
                    j, res.array[j], want[j])
        if not np.array_equal(res.valid, wantv):
            j = tuple(int(v) for v in np.argwhere(res.valid != wantv)[0])
            return ("validity", "validity of the result is not the source's validity under the index map of the operation",
                    j, bool(res.valid[j]), bool(wantv[j]))
        return None
    for j in np.ndindex(*shape):
        cands = [()]
        for d in range(nd):
            cands = [c + (s,) for c in cands for s in axs[d]["src"][j[d]]]
        vals = [arr[c] if min(c) >= 0 else np.zeros(arr.shape[-1]) for c in cands]
        vv = [bool(valid[c]) if min(c) >= 0 else False for c in cands]
        hit = [k for k, v in enumerate(vals) if np.array_equal(res.array[j], v)]
        if not hit:
            return ("values", "value of a result cell is not the source's value at an admissible (nearest) cell", j, res.array[j], vals)
        if not any(bool(res.valid[j]) == vv[k] for k in range(len(cands))):
            return ("validity", "validity of a result cell is not the source's validity at an admissible (nearest) cell", j, bool(res.valid[j]), vv)
    return None


def _args(case):
    return json.dumps({k: v for k, v in case.items() if k not in ("mesh", "subs", "exp", "nv", "mseed", "op")}, sort_keys=True)


# ------------------------------------------------------------------ TLC state -> cases
def cases_of_state(st, salt, rnd_extra=3):
    m = norm(st["mesh"])
    subs = norm(st["subs"])
    act, obs = st["act"], st["obs"]
    kind = act[0]
    h = zlib.crc32(repr((m, subs, act)).encode()) ^ salt
    base = dict(mesh=m, subs=subs, nv=1 + h % 3, mseed=h)
    nd = len(m["n"])
    out = []
    if kind == "new":
        return out
    if kind == "sel_centre":
        out.append(dict(base, op="sel_centre", d=act[1], exp=norm(obs)))
    elif kind == "sel_point":
        b = norm(obs["base"])
        for x, a in sorted(as_dict(obs["tab"]).items()):
            out.append(dict(base, op="sel_point", d=act[1], x=x, exp=with_ax(b, act[1], norm(a))))
    elif kind == "sel_range":
        b = norm(obs["base"])
        for (x1, x2), a in sorted(as_dict(obs["tab"]).items()):
            out.append(dict(base, op="sel_range", d=act[1], x1=x1, x2=x2, exp=with_ax(b, act[1], norm(a))))
    elif kind == "getitem_name":
        out.append(dict(base, op="getitem_name", name=act[1], exp=norm(obs)))
    elif kind in ("getitem_box", "region2slices"):
        b = norm(obs["base"])
        box0 = norm(obs["box"])
        d = act[1]
        for (a1, a2), a in sorted(as_dict(obs["tab"]).items()):
            box = {"lo": list(box0["lo"]), "hi": list(box0["hi"])}
            box["lo"][d - 1], box["hi"][d - 1] = a1, a2
            out.append(dict(base, op=kind, d=d, box=box, exp=with_ax(b, d, norm(a))))
    elif kind == "getitem_diag":
        for p, e in sorted(as_dict(obs).items()):
            out.append(dict(base, op="getitem_box", d=0, diag=list(p), box=norm(e["box"]), exp=norm(e["r"])))
    elif kind in ("pad", "resample"):
        tabs = [norm_tab(as_dict(t)) for t in obs]  # per axis: {probe key: per-axis part}
        rnd = random.Random(h)
        keys = sorted(tabs[0].keys()) if kind == "pad" else None
        probes = []
        if kind == "pad":
            zero = (0, 0)
            for w in keys:
                probes.append([w] * nd)
                for e in range(nd):
                    if nd > 1:
                        probes.append([w if d == e else zero for d in range(nd)])
            for _ in range(rnd_extra if nd > 1 else 0):
                probes.append([rnd.choice(keys) for _ in range(nd)])
        else:
            common = sorted(set.intersection(*[set(t.keys()) for t in tabs]))
            for k in common:
                probes.append([k] * nd)
            for e in range(nd):
                if nd > 1:
                    for k in sorted(tabs[e].keys()):
                        probes.append([k if d == e else m["n"][d] for d in range(nd)])
            for _ in range(rnd_extra if nd > 1 else 0):
                probes.append([rnd.choice(sorted(tabs[d].keys())) for d in range(nd)])
        seen = set()
        for pr in probes:
            t = tuple(pr)
            if t in seen:
                continue
            seen.add(t)
            ax = [tabs[d][pr[d]] for d in range(nd)]
            c = dict(base, op=kind, exp={"ok": True, "ax": ax})
            if kind == "pad":
                c["mode"] = act[1]
                c["w"] = [list(w) for w in pr]
            else:
                c["t"] = list(pr)
            out.append(c)
    else:
        raise core._tlc.MachineryError(f"unknown action {act}")
    return out


def norm_tab(t):
    """per-axis table {key: [lo, hi, n, src]} with src as list of sorted lists"""
    out = {}
    for k, v in t.items():
        out[k] = {"lo": v["lo"], "hi": v["hi"], "n": v["n"], "src": [sorted(s) for s in v["src"]]}
    return out


_HDR = re.compile(r"^State \d+:\s*$", re.M)


def embs_for_case(kind, embs, k, tier):
    """all embeddings for the light actions; for the big tables a rotating subset
    (quick: 1 dyadic + 1 real, thorough: 2 dyadic + 3 real) so that every embedding is used across the cases"""
    if kind in ("sel_centre", "getitem_name", "getitem_diag"):
        return list(range(len(embs)))
    dy = [i for i, e in enumerate(embs) if e.dyadic]
    re_ = [i for i, e in enumerate(embs) if not e.dyadic]
    if tier == "quick":
        return [dy[k % len(dy)], re_[k % len(re_)]]
    return [dy[k % len(dy)], dy[(k + 1) % len(dy)], re_[k % len(re_)], re_[(k + 4) % len(re_)], re_[(k + 7) % len(re_)]]


# ------------------------------------------------------------------ channel T
def observe_map(res_arr, nv, ncell):
    """recover, from the pairwise distinct values, which source cell every result cell shows (-1: none / fill)"""
    a = np.asarray(res_arr)
    flat = a.reshape((-1, a.shape[-1]), order="F")
    out = []
    for row in flat:
        v0 = row[0]
        if not float(v0).is_integer() or v0 < 1 or v0 > ncell * nv:
            out.append(-1 if np.all(row == 0) else -2)
            continue
        k, c0 = divmod(int(v0) - 1, nv)
        if c0 != 0 or any(row[c] != k * nv + c + 1 for c in range(nv)):
            out.append(-2)  # components mixed up
        else:
            out.append(k)
    return out


def proj_mesh(emb, rmesh, cq, coords):
    lo, c, exact = [], [], True
    for d in range(len(rmesh.n)):
        a, oa = lat.proj_coord(emb, float(rmesh.region.pmin[d]), cq, coords)
        q = emb.len_q(float(rmesh.cell[d]))
        k = round(q)
        oc = abs(q - k) <= emb.tol_q(cq, coords)
        lo.append(a)
        c.append(int(k))
        exact = exact and oa and oc
    return {"lo": lo, "c": c, "n": [int(v) for v in rmesh.n]}, bool(exact)


def proj_region(emb, rmesh, cq, coords):
    lo, hi, exact = [], [], True
    for d in range(len(rmesh.n)):
        a, oa = lat.proj_coord(emb, float(rmesh.region.pmin[d]), cq, coords)
        b, ob = lat.proj_coord(emb, float(rmesh.region.pmax[d]), cq, coords)
        lo.append(a)
        hi.append(b)
        exact = exact and oa and ob
    return {"lo": lo, "hi": hi}, bool(exact)


NOMESH = {"lo": [], "c": [], "n": []}


def gen_trace(df, rnd, tid, embs):
    nd = rnd.choice([1, 1, 2, 2, 3, 3, 4])
    cap = {1: 24, 2: 9, 3: 5, 4: 3}[nd]
    m = {"lo": [rnd.randrange(-300, 300) for _ in range(nd)],
         "c": [4 * rnd.randrange(1, 9) for _ in range(nd)],
         "n": [rnd.randrange(1, cap + 1) for _ in range(nd)]}
    emb = rnd.choice(embs)
    hi = [m["lo"][d] + m["c"][d] * m["n"][d] for d in range(nd)]
    subs = []
    for k in range(rnd.choice([0, 0, 1, 2])):
        fr = [rnd.randrange(0, m["n"][d]) for d in range(nd)]
        to = [rnd.randrange(fr[d] + 1, m["n"][d] + 1) for d in range(nd)]
        subs.append({"name": f"s{k + 1}", "box": {"lo": [m["lo"][d] + m["c"][d] * fr[d] for d in range(nd)],
                                                 "hi": [m["lo"][d] + m["c"][d] * to[d] for d in range(nd)]}})
    nv = rnd.randrange(1, 4)
    case0 = dict(mesh=m, subs=subs, nv=nv, mseed=rnd.randrange(2**30))
    try:
        mesh, names = build(df, case0, emb)
    except Exception:
        # a subregion layout the library refuses on this embedding (see C14) - run without subregions
        subs = []
        case0["subs"] = subs
        mesh, names = build(df, case0, emb)
    field, arr, valid = make_field(df, mesh, m, nv, case0["mseed"])
    ncell = int(np.prod(m["n"]))
    cq = lat.cellq(m)
    coords = coords_of(m)

    def coord(d):
        r = rnd.random()
        if r < 0.25:
            return m["lo"][d] + m["c"][d] * rnd.randrange(0, m["n"][d] + 1)  # a face
        if r < 0.33:
            return rnd.choice([m["lo"][d] - rnd.randrange(1, m["c"][d]), hi[d] + rnd.randrange(1, m["c"][d])])
        return rnd.randrange(m["lo"][d], hi[d] + 1)

    def block_event(e, fn, drop=0):
        try:
            res = fn()
        except Exception as ex:
            e.update(ok=False, exc=type(ex).__name__, rm=NOMESH, exact=True, map=[], valid=[])
            return e
        if nd == 1 and drop:
            a = np.asarray(res).reshape(1, -1)
            e.update(ok=True, rm=NOMESH, exact=True, map=observe_map(a, nv, ncell), valid=[])
            return e
        rm, exact = proj_mesh(emb, res.mesh, cq, coords)
        e.update(ok=True, rm=rm, exact=exact, map=observe_map(res.array, nv, ncell),
                 valid=[bool(v) for v in res.valid.reshape(-1, order="F")])
        return e

    ev = []
    for _ in range(rnd.randrange(4, 9)):
        k = rnd.random()
        d = rnd.randrange(nd)
        if k < 0.08:
            ev.append(block_event({"k": "sel_centre", "d": d + 1}, lambda: field.sel(names[d]), drop=d + 1))
        elif k < 0.28:
            x = coord(d)
            ev.append(block_event({"k": "sel_point", "d": d + 1, "x": x}, lambda: field.sel(**{names[d]: emb.x(x)}), drop=d + 1))
        elif k < 0.5:
            x1, x2 = coord(d), coord(d)
            ev.append(block_event({"k": "sel_range", "d": d + 1, "x1": x1, "x2": x2},
                                  lambda: field.sel(**{names[d]: (emb.x(x1), emb.x(x2))})))
        elif k < 0.7:
            lo, hh = [], []
            for e_ in range(nd):
                a, b = coord(e_), coord(e_)
                if rnd.random() < 0.3:
                    b = hi[e_]
                if rnd.random() < 0.15:
                    a = m["lo"][e_]
                if a == b:
                    b = a + 1
                lo.append(min(a, b))
                hh.append(max(a, b))
            box = {"lo": lo, "hi": hh}
            ev.append(block_event({"k": "getitem_box", "box": box}, lambda: field[lat.box_region(df, box, emb)]))
        elif k < 0.76 and subs:
            s = rnd.choice(subs)
            ev.append(block_event({"k": "getitem_name", "name": s["name"], "box": s["box"]}, lambda: field[s["name"]]))
        elif k < 0.88:
            mode = rnd.choice(["constant", "edge", "wrap", "symmetric", "reflect"])
            w = [[rnd.choice([0, 0, 1, 2, 3, rnd.randrange(0, 2 * m["n"][e_] + 3)]) for _ in range(2)] for e_ in range(nd)]
            if int(np.prod([m["n"][e_] + w[e_][0] + w[e_][1] for e_ in range(nd)])) > 1500:
                w = [[0, 1]] * nd
            e = {"k": "pad", "mode": mode, "w": w}
            try:
                res = field.pad({names[e_]: tuple(w[e_]) for e_ in range(nd)}, mode=mode)
                reg, exact = proj_region(emb, res.mesh, cq, coords)
                e.update(ok=True, reg=reg, n=[int(v) for v in res.mesh.n], exact=exact,
                         map=observe_map(res.array, nv, ncell), valid=[bool(v) for v in res.valid.reshape(-1, order="F")])
            except Exception as ex:
                e.update(ok=False, exc=type(ex).__name__, reg={"lo": [], "hi": []}, n=[], exact=True, map=[], valid=[])
            ev.append(e)
        else:
            capn = {1: 30, 2: 10, 3: 6, 4: 3}[nd]
            t = [rnd.choice([m["n"][e_], rnd.randrange(1, capn + 1), 2 * m["n"][e_], max(1, m["n"][e_] // 2)]) for e_ in range(nd)]
            e = {"k": "resample", "t": t}
            try:
                res = field.resample(tuple(t))
                reg, exact = proj_region(emb, res.mesh, cq, coords)
                e.update(ok=True, reg=reg, n=[int(v) for v in res.mesh.n], exact=exact,
                         map=observe_map(res.array, nv, ncell), valid=[bool(v) for v in res.valid.reshape(-1, order="F")])
            except Exception as ex:
                e.update(ok=False, exc=type(ex).__name__, reg={"lo": [], "hi": []}, n=[], exact=True, map=[], valid=[])
            ev.append(e)
    return {"id": tid, "dy": emb.dyadic, "emb": emb.name, "cls": embclass(emb, coords, min(m["c"])), "mesh": m, "subs": subs, "nv": nv, "mseed": case0["mseed"],
            "valid": [bool(v) for v in valid.reshape(-1, order="F")], "ev": ev}


def t_key(clause, e, t):
    """violation key of a trace verdict: the spec names clause[:condition]; the harness adds operation and scale class"""
    cl, _, cond = clause.partition(":")
    return f"trace:{cl}/{e['k']}/{cond or 'any'}/{t['cls']}"


def run_traces(ctx, df, ntraces, embs):
    rnd = random.Random(ctx.seed * 7919 + 7)
    traces = [gen_trace(df, rnd, t + 1, embs) for t in range(ntraces)]
    r, verdicts, _ = ctx.trace_check("C07Trace", "C07Trace.cfg", traces)
    expect = sum(len(t["ev"]) + 1 for t in traces)
    if r.distinct != expect:
        raise core._tlc.MachineryError(f"C07Trace consumed {r.distinct} states, expected {expect}")
    byid = {t["id"]: t for t in traces}
    for v in verdicts:
        _, tid, l, clause = v
        t = byid[tid]
        e = t["ev"][l - 1]
        ctx.violation(t_key(clause, e, t), f"recorded execution rejected by C07Trace: clause {clause}",
                      {"trace": {k: t[k] for k in ("mesh", "subs", "nv", "mseed", "emb", "dy", "cls")}, "event": e})
    ctx.traces += len(traces)
    ctx.evaluations += sum(len(t["ev"]) for t in traces)
    for t in traces:
        for e in t["ev"]:
            ctx.nontriv("T", t["id"], json.dumps(e, sort_keys=True))
    ctx.notes["T_events"] = sum(len(t["ev"]) for t in traces)
    ctx.notes["T_rejected_requests"] = sum(1 for t in traces for e in t["ev"] if not e["ok"])
    ctx.sample({"channel": "T", "trace": traces[0]})


# ------------------------------------------------------------------ run / replay
def run(ctx):
    df = core.import_library()
    # the unbounded integer core (spec/C07Core.tla): Apalache discharges the clauses on the lattice of any size
    from .. import apalache
    apalache.run_stage(ctx, module="C07Core.tla", obligations=apalache.C07_OBLIGATIONS, claim=apalache.C07_CLAIM)
    embs = embed.for_tier(ctx.tier, ctx.seed)
    r = ctx.model("MC_C07", f"C07_{ctx.tier}.cfg", dump=True)
    if r.ok:
        with open(r.dump) as fh:
            blocks = [b for b in _HDR.split(fh.read()) if b.strip()]
        if len(blocks) != r.distinct:
            raise core._tlc.MachineryError(f"dump has {len(blocks)} states, TLC reports {r.distinct}")
        salt = ctx.seed & 0xFFFFFFFF
        tier = ctx.tier

        def chunk(items):
            part = Part()
            for k in items:
                st = tlaval.parse_state_text(blocks[k])
                cases = cases_of_state(st, salt)
                part.note("states_" + st["act"][0])
                envs = {}
                for ci, case in enumerate(cases):
                    eis = embs_for_case(st["act"][0], embs, k + ci, tier)
                    for n_, ei in enumerate(eis):
                        if ei not in envs:
                            try:
                                envs[ei] = build_env(df, case, embs[ei], part)
                            except Exception:
                                envs[ei] = None  # reported by check_case
                        check_case(df, case, embs[ei], part, mesh_level=(n_ == (k + ci) % len(eis)), env=envs[ei])
                        part.trace()
                    part.note("cases_" + case["op"], len(eis))
                if cases and k % 50 == 0:
                    part.sample({"channel": "R", "case": cases[0], "embedding": embs[0].name})
            return part

        order = list(range(len(blocks)))
        random.Random(ctx.seed).shuffle(order)  # spread heavy states over the workers
        ctx.pmap(chunk, order, chunk=max(1, len(order) // 128))
    run_traces(ctx, df, 500 if ctx.tier == "quick" else 6000, embs)
    ctx.assumptions += [
        "TLC explores the bounded configuration space of spec/C07.tla completely (bounds in MC_C07.tla)",
        "field values are pairwise distinct integers per cell and component, validity masks are seeded random (harness-level)",
        "on non-dyadic embeddings a coordinate on an inner cell face may be attributed to either adjacent cell (DESIGN 5.2); "
        "a resampling target centre on a source face may take either neighbour on every embedding",
        "region2slices is only constrained for whole-cell regions",
    ]
    # stage PadOpt (spec/PadOpt.tla): np.pad modes and options beyond the five index maps, for data AND validity
    from .. import padopt
    padopt.run_stage(ctx, df, "C07_PadFollowsMode")
    core.df_stage(ctx, df)   # mixed histories (spec/DF.tla): the clauses that come from this property's text
    return core.finish(ctx, rule=RULE, extra={"embeddings": [e.name for e in embs]})


def replay(ctx, path):
    df = core.import_library()
    with open(path) as fh:
        rp = json.load(fh)
    w = rp["witness"]
    if "/pad." in rp.get("key", "") and ("widths" in w or "event" in w):
        from . import padopt as padopt_entry
        return padopt_entry.replay(ctx, path)
    embs = {e.name: e for e in embed.DYADIC + embed.REAL + embed.seeded(rp.get("seed", ctx.seed), 2)}
    if "case" not in w:
        print("trace witness (re-run the check to reproduce):", json.dumps(w)[:3000])
        return 1
    part = Part()
    check_case(df, w["case"], embs[w["embedding"]], part)
    for k, what, _ in part["violations"]:
        print("still fails:", k, what)
    return 1 if part["violations"] else 0
