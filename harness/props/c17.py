"""C17 - xarray export/import is lossless and uses cell centres as coordinates.

M: TLC exhaustive on spec/C17.tla (MC_C17 + C17_<tier>.cfg): fields of 1-4 dimensions x ALL subsets of the
   removable attributes {cell, pmin, pmax, tolerance_factor, nvdim, coordinate units, vdims coordinate,
   vdims dimension} x coordinate perturbations; Field.from_xarray as a decision table.
R: every dumped state is executed on the real library under the tier's embeddings: Field.to_xarray() is
   compared with the spec's DataArray record, the real DataArray is stripped/perturbed exactly as the state
   says and handed to Field.from_xarray(); result or refusal compared with the table.
T: seeded random larger fields, random attribute subsets and coordinate perturbations; observed export and
   import are logged and validated by TLC against spec/C17Trace.tla.
"""
import json
import random

import numpy as np

from .. import core, embed, lat, fld as fldmod
from ..core import Part

META = dict(
    level="model_checking",
    level_text=("Exhaustive TLC model checking of spec/C17.tla: Field.to_xarray as an explicit DataArray record (dims, centre "
                "coordinates, coordinate units, component coordinate, attributes, data) and Field.from_xarray as a decision table "
                "over ALL subsets of the removable attributes {cell, pmin, pmax, tolerance_factor, nvdim, coordinate units, vdims "
                "coordinate, vdims dimension} and coordinate perturbations (uneven spacing, single-cell axes, units missing on one "
                "axis), for fields of 1-4 dimensions and 1-4 components; seven invariants C17_*. Every TLC state is replayed on the "
                "real library (export compared attribute by attribute; the real DataArray stripped as the state says and imported; "
                "accept/reject, rebuilt mesh, values, labels, dtype compared), and seeded random larger fields with random subsets "
                "are validated by TLC against spec/C17Trace.tla."),
    level_note=("Bounds: quick 7 field configurations (1-D..4-D, n<=4 per axis, single-cell axes first/middle/last, scalar with and "
                "without label, int/float/complex) x up to 256 subsets x perturbations; thorough 19 configurations. T: meshes to "
                "8x6x4x3. Scales/offsets through the embeddings (dyadic exact; real-world with tolerance). Corners taken from "
                "attributes must come back bitwise equal, rebuilt corners within the embedding tolerance. Where the property is "
                "silent (single-cell axis without 'cell', default units/labels/tolerance when the optional pieces are missing, the "
                "field unit, vdim_mapping) the table follows the library and deviations are reported as notes, not verdicts. "
                "Trusted: TLC, tlaval parser, xarray."),
    technique="TLA+ decision table for from_xarray over all attribute subsets (C17.tla) + TLC exhaustive; states replayed into the library; library traces validated by TLC (C17Trace.tla); Apalache on the unbounded 1-d core (C17Core.tla: centres as coordinates, reconstruction of region and cell)",
    design_ref="DESIGN.md section 7 C17",
)

RULE = ("a case is one (TLC state, embedding) pair executed on the library; non-trivial = an export or import state "
        "(everything except 'new'); distinct by (field, removed attribute set, perturbation, embedding); T events all count")

VSCALES = [1.0, 0.5, 1.0 / 3.0, 1e5 / 7.0, 3e-7]
GEOM = ("cell", "pmin", "pmax")
NP_DT = {"int": np.int64, "float": np.float64, "complex": np.complex128, "bool": np.bool_}


def _dy(emb):
    return "dyadic" if emb.dyadic else "real"


def dt_of(a):
    k = np.asarray(a).dtype.kind
    return {"i": "int", "u": "int", "f": "float", "c": "complex", "b": "bool"}.get(k, k)


def tol_id(x):
    for name in ("1e-12", "1e-9"):
        if x == float(name):
            return name
    return repr(x)


def value_array(f, vs):
    m = f["mesh"]
    a = fldmod.unflatten(f["vals"], m["n"], dtype=np.int64)
    if f["dt"] == "int":
        return a
    if f["dt"] == "bool":
        return a > 0
    if f["dt"] == "float":
        return a.astype(float) * vs
    return a.astype(float) * vs * (1 + 0.5j)


def build_field(df, f, emb, vs):
    m = f["mesh"]
    reg = lat.region_of(df, m, emb, dims=list(f["dims"]), units=list(f["units"]), tolerance_factor=float(f["tol"]))
    mesh = lat.arrive_in_place(df, df.Mesh(region=reg, n=tuple(int(v) for v in m["n"])), emb, sum(int(v) for v in m["n"]) * 5 + int(f["nv"]))
    arr = value_array(f, vs)
    return fldmod.lived(df.Field(mesh, nvdim=int(f["nv"]), value=arr, vdims=list(f["labels"]) or None,
                                 unit=f["unit"] or None, dtype=NP_DT[f["dt"]]), sum(int(v) for v in m["n"]) + 3 * int(f["nv"]) + len(f["labels"]))


def strip(xa, f, S, pert, emb, coords_q=None):
    """apply the removal set S / perturbation of a from_xarray state to the real DataArray"""
    x = xa.copy(deep=True)
    gd = [d for d in x.dims if d != "vdims"]
    for k in ("cell", "pmin", "pmax", "tolerance_factor", "nvdim"):
        if k in S:
            del x.attrs[k]
    for d in (coords_q or {}):        # perturbed axes only: {axis number: lattice coordinates}
        dim = gd[d]
        attrs = dict(x[dim].attrs)
        x = x.assign_coords({dim: np.asarray([emb.x(q) for q in coords_q[d]], dtype=float)})
        x[dim].attrs.update(attrs)
    if "cunits" in S:
        for dim in gd:
            del x[dim].attrs["units"]
    elif pert[0] == "cunits_first":
        del x[gd[0]].attrs["units"]
    if "vcoord" in S and "vdims" in x.coords:
        x = x.drop_vars("vdims")
    if "vdim" in S and "vdims" in x.dims:
        x = x.rename({"vdims": "comp"})
    return x


def geom_cond(S):
    g = "+".join(k for k in GEOM if k in S)
    return ("no-" + g) if g else "complete"


# ------------------------------------------------------------------ channel R
def exec_state(df, st, emb, vs, part):
    f, act, obs, X = st["fld"], st["act"], st["obs"], st["xa"]
    m = f["mesh"]
    nd = len(m["n"])
    kind = act[0]
    cq = lat.cellq(m)
    hi = [m["lo"][d] + m["c"][d] * m["n"][d] for d in range(nd)]
    coords = list(m["lo"]) + hi
    close = lambda x, q: emb.close(x, q, cq, coords)
    wit = lambda **kw: dict(fld=f, act=core.jsonable(act), embedding=emb.name, vscale=vs, **kw)
    part.count()
    if kind == "new":
        return
    try:
        field = build_field(df, f, emb, vs)
    except Exception as ex:
        part.note("construct-failed")      # building the field is the property's precondition (C01/C02), not its subject
        part.sample({"construct-failed": wit(exc=repr(ex))})
        return
    part.nontriv(json.dumps(core.jsonable(f), sort_keys=True), json.dumps(core.jsonable(act), sort_keys=True), emb.name)
    try:
        xa = field.to_xarray()
    except Exception as ex:
        part.violation(f"C17_CoordsAreCentres/raises/{_dy(emb)}", "to_xarray raised", wit(exc=repr(ex)))
        return
    gd = [d for d in xa.dims if d != "vdims"]
    if kind == "to_xarray":
        E = st["xa"]
        if tuple(gd) != tuple(E["gd"]) or ("vdims" in xa.dims) != E["vd"] or (E["vd"] and xa.dims[-1] != "vdims"):
            part.violation(f"C17_CoordsAreCentres/dims/{_dy(emb)}", "DataArray dims are not the region's dims (+ 'vdims' last)", wit(got=xa.dims))
            return
        for d, dim in enumerate(gd):
            vals = np.asarray(xa[dim].values, dtype=float)
            if len(vals) != len(E["coords"][d]) or not all(close(x, q) for x, q in zip(vals, E["coords"][d])):
                part.violation(f"C17_CoordsAreCentres/coords/{_dy(emb)}", "spatial coordinates are not the cell centres",
                               wit(axis=dim, got=vals, want=E["coords"][d]))
            if xa[dim].attrs.get("units") != E["cu"]["v"][d]:
                part.violation(f"C17_CoordsAreCentres/cunits/{_dy(emb)}", "coordinate units are not the region's units",
                               wit(axis=dim, got=xa[dim].attrs.get("units"), want=E["cu"]["v"][d]))
        if E["vc"]["has"]:
            got = [str(v) for v in xa["vdims"].values] if "vdims" in xa.coords else None
            if got != list(E["vc"]["v"]):
                if f["nv"] > 1:
                    part.violation(f"C17_CoordsAreCentres/vcoord/{_dy(emb)}", "component coordinate does not list the labels", wit(got=got))
                else:
                    part.note("silent:scalar-label-not-exported")
        A = xa.attrs
        reg = field.mesh.region
        checks = [
            ("cell", "cell" in A and len(A["cell"]) == nd and all(emb.close_len(A["cell"][d], m["c"][d], cq, coords) for d in range(nd))
             and np.array_equal(A["cell"], field.mesh.cell)),
            ("pmin", "pmin" in A and np.array_equal(A["pmin"], reg.pmin) and all(close(A["pmin"][d], m["lo"][d]) for d in range(nd))),
            ("pmax", "pmax" in A and np.array_equal(A["pmax"], reg.pmax) and all(close(A["pmax"][d], hi[d]) for d in range(nd))),
            ("nvdim", A.get("nvdim") == E["nvdim"]["v"]),
            ("tolerance_factor", "tolerance_factor" in A and tol_id(A["tolerance_factor"]) == E["tol"]["v"]),
            ("units", A.get("units", "missing") == (E["units"] or None)),
        ]
        for name, good in checks:
            if not good:
                part.violation(f"C17_ExportAttrs/{name}/{_dy(emb)}", f"attribute {name} does not carry the field's {name}", wit(got=repr(A.get(name))))
        want = field.array if f["nv"] > 1 else field.array[..., 0]
        if xa.values.shape != want.shape or not np.array_equal(xa.values, want) or dt_of(xa.values) != E["dt"]:
            part.violation(f"C17_ExportAttrs/data/{_dy(emb)}", "DataArray values are not the field's array", wit(got=xa.values, want=want))
        return

    if kind == "from_xarray":
        _, S, pert = act
        x2 = strip(xa, f, S, pert, emb, coords_q={pert[1] - 1: X["coords"][pert[1] - 1]} if pert[0] == "uneven" else None)
        try:
            back = df.Field.from_xarray(x2)
            ok = True
        except Exception as ex:
            ok, back = False, ex
        dem = obs["dem"]
        complete = not S and pert[0] == "none"
        if ok != obs["ok"]:
            if "outcome" not in dem:
                part.note("silent:outcome-differs")
                return
            if obs["ok"]:
                clause = "C17_Lossless" if complete else "C17_RebuildFromCoords"
                part.violation(f"{clause}/raises/{geom_cond(S)}", "from_xarray refuses a DataArray the property says is importable",
                               wit(exc=repr(back)))
            else:
                part.violation(f"C17_Rejects/{reject_reason(f, S, pert)}/{accepted_cond(x2, pert)}",
                               "from_xarray accepts a DataArray that must be rejected", wit(got=repr(back)))
            return
        if not ok:
            return
        compare_back(part, wit, field, back, obs, f, S, pert, emb, close, complete)
        return
    raise core._tlc.MachineryError(f"unknown action {act}")


def reject_reason(f, S, pert):
    if "nvdim" in S:
        return "nvdim"
    if "vdim" in S and f["nv"] > 1:
        return "vdim"
    return "uneven"


def accepted_cond(x2, pert):
    """condition class of a wrongly accepted array: for uneven spacing, whether every deviation of a spacing from
    the mean spacing is below 1e-8 in absolute coordinate units"""
    if pert[0] != "uneven":
        return "accepted"
    worst = 0.0
    for dim in x2.dims:
        if dim in x2.coords and x2[dim].values.dtype.kind == "f" and x2[dim].values.size > 1:
            dd = np.diff(x2[dim].values)
            worst = max(worst, float(np.max(np.abs(dd - dd.mean()))))
    return "accepted-spacing-deviation-below-1e-8" if worst <= 1e-8 else "accepted"


def compare_back(part, wit, field, back, obs, f, S, pert, emb, close, complete):
    V, dem = obs["v"], obs["dem"]
    nd = len(V["n"])
    clause_mesh = "C17_Lossless" if complete else "C17_RebuildFromCoords"
    gc = geom_cond(S)

    def report(aspect, clause, what, **kw):
        if aspect in dem:
            part.violation(f"{clause}/{aspect}/{gc}", what, wit(**kw))
        else:
            part.note(f"silent:{aspect}-differs")

    reg = back.mesh.region
    good = len(reg.pmin) == nd and tuple(int(v) for v in back.mesh.n) == tuple(V["n"])
    if good:
        for d in range(nd):
            good = good and close(reg.pmin[d], V["lo"][d]) and close(reg.pmax[d], V["hi"][d])
        if V["exactlo"]:
            good = good and np.array_equal(reg.pmin, field.mesh.region.pmin)
        if V["exacthi"]:
            good = good and np.array_equal(reg.pmax, field.mesh.region.pmax)
    if not good:
        report("mesh", clause_mesh, "imported mesh differs (corners from attributes bitwise, rebuilt corners half a cell beyond the outermost centres)",
               got=[reg.pmin, reg.pmax, back.mesh.n], want=[V["lo"], V["hi"], V["n"]])
    if tuple(reg.dims) != tuple(V["dims"]):
        report("dims", "C17_Lossless", "dimension names differ", got=reg.dims)
    if tuple(reg.units) != tuple(V["units"]):
        report("units", "C17_Lossless", "region units differ", got=reg.units, want=V["units"])
    if back.nvdim != V["nv"]:
        report("nv", "C17_Lossless", "component count differs", got=back.nvdim)
    elif back.array.shape != field.array.shape or not np.array_equal(back.array, field.array):
        report("values", "C17_Lossless", "values differ", got=back.array, want=field.array)
    got_labels = None if back.vdims is None else [str(v) for v in back.vdims]
    if got_labels != (list(V["labels"]) or None):
        if f["nv"] == 1 and f["labels"] and "labels" in dem:
            part.violation("C17_Lossless/labels/scalar-labelled", "label of a scalar field is lost", wit(got=got_labels, want=V["labels"]))
        else:
            report("labels", "C17_Lossless", "component labels differ", got=got_labels, want=V["labels"])
    if dt_of(back.array) != V["dt"]:
        report("dtype", "C17_Lossless", "dtype differs", got=str(back.array.dtype), want=V["dt"])
    if tol_id(reg.tolerance_factor) != V["tol"]:
        part.note("silent:tol-differs")
    if complete and "mesh" in dem and not (back == field):
        part.violation(f"C17_Lossless/equal/{gc}", "imported field is not == the exported one", wit())
    if (back.unit or "") != f["unit"]:
        part.note("silent:field-unit-not-imported")


# ------------------------------------------------------------------ channel T
DIM_POOL = [("x", "y", "z", "x3"), ("a", "b", "c", "d"), ("z", "y", "x", "w"), ("x0", "x1", "x2", "x3")]
FAR = embed.Embedding("far-1e6", 1e-3, 1000.0, False)
UNIT_POOL = ["m", "nm", "s", "um", "km", "rad", ""]   # "" = a dimensionless axis (legal for Region; seeded change C17-21 dropped empty units on export)
LABEL_POOL = {1: [[], [], ["s"]], 2: [["x", "y"], ["m_mag", "m_phase"]], 3: [["x", "y", "z"], ["mz", "mx", "my"]],
              4: [["v0", "v1", "v2", "v3"], ["d", "c", "b", "a"]]}
REMOVABLE = ["cell", "pmin", "pmax", "tolerance_factor", "nvdim", "cunits", "vcoord", "vdim"]


def gen_trace(df, rnd, tid, embs):
    nd = rnd.choice([1, 2, 2, 3, 3, 4])
    cap = [8, 6, 4, 3]
    n = [rnd.randrange(1, cap[d] + 1) for d in range(nd)]
    if rnd.random() < 0.2:
        n[rnd.randrange(nd)] = 1
    m = {"lo": [rnd.randrange(-200, 200) for _ in range(nd)], "c": [4 * rnd.randrange(1, 6) for _ in range(nd)], "n": n}
    N = int(np.prod(n))
    nv = rnd.choice([1, 1, 2, 3, 3, 4])
    f = {"mesh": m, "dims": list(rnd.choice(DIM_POOL)[:nd]), "units": [rnd.choice(UNIT_POOL) for _ in range(nd)],
         "nv": nv, "vals": [[rnd.randrange(-99, 100) for _ in range(nv)] for _ in range(N)],
         "labels": rnd.choice(LABEL_POOL[nv]), "dt": rnd.choice(["int", "float", "float", "complex", "bool"]),
         "unit": rnd.choice(["", "", "A/m", "T"]), "tol": rnd.choice(["1e-12", "1e-12", "1e-9"])}
    emb = rnd.choice(embs)
    vs = rnd.choice(VSCALES)
    cq = lat.cellq(m)
    hi = [m["lo"][d] + m["c"][d] * n[d] for d in range(nd)]
    coords = list(m["lo"]) + hi
    try:
        field = build_field(df, f, emb, vs)
    except Exception as exc:
        raise ConstructFailed(repr(exc))
    xa = field.to_xarray()
    gd = [d for d in xa.dims if d != "vdims"]
    ev = []
    prj = [[lat.proj_coord(emb, x, cq, coords) for x in np.asarray(xa[dim].values, dtype=float)] for dim in gd]
    A = xa.attrs
    pl = lambda arr: [lat.proj_coord(emb, x, cq, coords) for x in np.asarray(arr, dtype=float)]
    cellp = [(int(round(emb.len_q(x))), emb.close_len(x, round(emb.len_q(x)), cq, coords)) for x in np.asarray(A["cell"], dtype=float)]
    pmin, pmax = pl(A["pmin"]), pl(A["pmax"])
    want = field.array if nv > 1 else field.array[..., 0]
    exact = all(b for ax in prj for _, b in ax) and all(b for _, b in cellp + pmin + pmax)
    ev.append({"k": "export", "exact": bool(exact), "gd": gd, "vd": "vdims" in xa.dims,
               "coords": [[a for a, _ in ax] for ax in prj], "cu": [str(xa[dim].attrs.get("units", "-")) for dim in gd],
               "vchas": "vdims" in xa.coords, "vc": [str(v) for v in xa["vdims"].values] if "vdims" in xa.coords else [],
               "cell": [a for a, _ in cellp], "pmin": [a for a, _ in pmin], "pmax": [a for a, _ in pmax],
               "nvdim": int(A["nvdim"]), "tol": tol_id(A["tolerance_factor"]), "units": A["units"] or "",
               "dataexact": bool(xa.values.shape == want.shape and np.array_equal(xa.values, want)), "dt": dt_of(xa.values)})
    centres = [[m["lo"][d] + m["c"][d] * j + m["c"][d] // 2 for j in range(n[d])] for d in range(nd)]
    for _ in range(rnd.randrange(3, 8)):
        rem = [k for k in REMOVABLE if rnd.random() < 0.22 and (nv > 1 or k not in ("vcoord", "vdim"))]
        pert = "none"
        cs = [list(c) for c in centres]
        r = rnd.random()
        cand = [d for d in range(nd) if n[d] >= 3]
        if r < 0.2 and cand:
            d = rnd.choice(cand)
            j = rnd.randrange(n[d])
            cs[d][j] += rnd.choice([-1, 1]) * rnd.randrange(1, m["c"][d] // 2)
        elif r < 0.3 and "cunits" not in rem:
            pert = "cunits_first"
        x2 = strip(xa, f, set(rem), (pert,), emb, coords_q={d: cs[d] for d in range(nd) if cs[d] != centres[d]})
        try:
            back = df.Field.from_xarray(x2)
            ok = True
        except Exception as exn:
            ok, back = False, exn
        e = {"k": "import", "S": rem, "pert": pert, "coords": cs, "ok": ok, "back": {},
             "uneven": cs != centres, "acc": accepted_cond(x2, ("uneven",)) if cs != centres else "accepted"}
        if ok:
            reg = back.mesh.region
            plo, phi = pl(reg.pmin), pl(reg.pmax)
            e["back"] = {"exact": bool(all(b for _, b in plo + phi)), "lo": [a for a, _ in plo], "hi": [a for a, _ in phi],
                         "samelo": bool(np.array_equal(reg.pmin, field.mesh.region.pmin)),
                         "samehi": bool(np.array_equal(reg.pmax, field.mesh.region.pmax)),
                         "n": [int(v) for v in back.mesh.n], "dims": [str(v) for v in reg.dims], "units": [str(v) for v in reg.units],
                         "tol": tol_id(reg.tolerance_factor), "nv": int(back.nvdim),
                         "vexact": bool(back.array.shape == field.array.shape and np.array_equal(back.array, field.array)),
                         "labels": [] if back.vdims is None else [str(v) for v in back.vdims], "dt": dt_of(back.array)}
        else:
            e["exc"] = repr(back)[:160]
        ev.append(e)
    return {"id": tid, "dy": emb.dyadic, "emb": emb.name, "vsi": VSCALES.index(vs), "fld": f, "ev": ev}


def verdict_key(clause, t, e):
    S = set(e.get("S", []))
    if clause == "C17_Rejects-accepted":
        reason = reject_reason(t["fld"], S, ("uneven",) if e.get("uneven") else ("none",))
        return f"C17_Rejects/{reason}/{e.get('acc', 'accepted') if reason == 'uneven' else 'accepted'}"
    if clause == "C17_Lossless-labels" and t["fld"]["nv"] == 1 and t["fld"]["labels"]:
        return "C17_Lossless/labels/scalar-labelled"
    if "-" in clause:
        c, op = clause.split("-", 1)
        cond = geom_cond(S) if e["k"] == "import" else ("dyadic" if t["dy"] else "real")
        return f"{c}/{op}/{cond}"
    return f"{clause}/{e['k']}/{'dyadic' if t['dy'] else 'real'}"


class ConstructFailed(Exception):
    """the random driver could not even build its field (precondition of the property, C01/C02's subject)"""


def core_safe(ctx, fn, *args):
    """a library call that raises inside the random driver is a finding about the library, not a harness crash"""
    import traceback

    try:
        return fn(*args)
    except core._tlc.MachineryError:
        raise
    except ConstructFailed:
        ctx.notes["T:construct-failed"] = ctx.notes.get("T:construct-failed", 0) + 1
        return None
    except Exception as ex:
        ctx.violation(f"C17_LibraryRaises/T/{type(ex).__name__}", "the library raised inside the random driver",
                      {"channel": "T", "exc": repr(ex), "traceback": traceback.format_exc()[-1500:]})
        return None


def run_traces(ctx, df, ntraces, embs):
    rnd = random.Random(ctx.seed * 7919 + 17)
    traces = [tr for tr in (core_safe(ctx, gen_trace, df, rnd, t + 1, embs) for t in range(ntraces)) if tr is not None]
    r, verdicts, _ = ctx.trace_check("C17Trace", "C17Trace.cfg", traces)
    expect = sum(len(t["ev"]) + 1 for t in traces)
    if r.distinct != expect:
        raise core._tlc.MachineryError(f"C17Trace consumed {r.distinct} states, expected {expect}")
    byid = {t["id"]: t for t in traces}
    for v in verdicts:
        _, tid, l, clause = v
        t = byid[tid]
        e = t["ev"][l - 1]
        if clause.startswith("silent-"):
            ctx.notes["T:" + clause] = ctx.notes.get("T:" + clause, 0) + 1
            continue
        ctx.violation(verdict_key(clause, t, e), f"recorded execution rejected by C17Trace: clause {clause}",
                      {"channel": "T", "fld": t["fld"], "embedding": t["emb"], "vscale": VSCALES[t["vsi"]], "event": e})
    ctx.traces += len(traces)
    ctx.evaluations += sum(len(t["ev"]) for t in traces)
    for t in traces:
        for i, e in enumerate(t["ev"]):
            ctx.nontriv("T", t["id"], i)
    ctx.sample({"channel": "T", "trace": {k: (v if k != "ev" else v[:2]) for k, v in traces[0].items()}})


def run(ctx):
    df = core.import_library()
    # the integer core (spec/C17Core.tla): Apalache discharges the coordinate / reconstruction arithmetic for meshes of any size
    from .. import apalache
    apalache.run_stage(ctx, module="C17Core.tla", obligations=apalache.C17_OBLIGATIONS, claim=apalache.C17_CLAIM)
    # a mesh a million quanta (250 000 cells) away from the origin: "evenly spaced" is a statement about the spacings, not about
    # the size of the coordinates (seeded change C17-23 tested the spacing relative to the coordinate magnitude)
    embs = embed.for_tier(ctx.tier, ctx.seed) + [FAR]
    r = ctx.model("MC_C17", f"C17_{ctx.tier}.cfg", dump=True)
    if r.ok:
        states = ctx.dump_states(r)
        if len(states) != r.distinct:
            raise core._tlc.MachineryError(f"dump has {len(states)} states, TLC reports {r.distinct}")
        acts = {s["act"][0] for s in states}
        if not {"to_xarray", "from_xarray"} <= acts:
            raise core._tlc.MachineryError("an action never fired in the model")
        n_rej = sum(1 for s in states if s["act"][0] == "from_xarray" and not s["obs"]["ok"])
        n_acc = sum(1 for s in states if s["act"][0] == "from_xarray" and s["obs"]["ok"])
        if not n_rej or not n_acc:
            raise core._tlc.MachineryError("decision table degenerate: no accepted or no rejected import in the model")
        work = [(k, e) for k in range(len(states)) for e in range(len(embs))]

        def chunk(items):
            part = Part()
            for k, ei in items:
                exec_state(df, states[k], embs[ei], VSCALES[(k + ei) % len(VSCALES)], part)
                part.trace()
            if items:
                k, ei = items[0]
                part.sample({"channel": "R", "state": {"fld": states[k]["fld"], "act": states[k]["act"], "obs_ok": states[k]["obs"]["ok"]},
                             "embedding": embs[ei].name})
            return part

        ctx.pmap(chunk, work)
        if ctx.notes.get("construct-failed", 0) > 0.05 * len(work):
            raise core._tlc.MachineryError(f"{ctx.notes['construct-failed']} of {len(work)} cases could not even be constructed")
        ctx.notes["model_imports_accepted"] = n_acc
        ctx.notes["model_imports_rejected"] = n_rej
    run_traces(ctx, df, 500 if ctx.tier == "quick" else 6000, embs)
    ctx.assumptions += [
        "TLC explores the bounded configuration space of spec/C17.tla completely (configurations in MC_C17.tla)",
        "'rejected' means any exception; removal of the vdims dimension is realised by renaming it",
        "aspects on which the property is silent follow the library in the table and are reported as notes only",
    ]
    core.df_stage(ctx, df)   # mixed histories (spec/DF.tla): the clauses that come from this property's text
    return core.finish(ctx, rule=RULE, extra={"embeddings": [e.name for e in embs], "value_scales": VSCALES})


def replay(ctx, path):
    df = core.import_library()
    with open(path) as fh:
        rp = json.load(fh)
    w = rp["witness"]
    embs = {e.name: e for e in embed.DYADIC + embed.REAL + embed.seeded(rp.get("seed", ctx.seed), 2) + [FAR]}
    emb = embs[w["embedding"]]
    if w.get("channel") == "T":
        print("trace witness (re-run the check with the same VERIF_SEED to regenerate):", json.dumps(w)[:1500])
        return 1
    r = ctx.model("MC_C17", f"C17_{rp.get('tier', 'quick')}.cfg", dump=True)
    part = Part()
    want_f = json.dumps(core.jsonable(w["fld"]), sort_keys=True)
    for st in ctx.dump_states(r):
        if json.dumps(core.jsonable(st["fld"]), sort_keys=True) == want_f and core.jsonable(st["act"]) == w["act"]:
            exec_state(df, st, emb, w["vscale"], part)
    for k, what, wit in part["violations"]:
        print("still fails:", k, what)
    return 1 if part["violations"] else 0
