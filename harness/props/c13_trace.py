"""Channel T driver for C13 (and the rotation/subregion clauses C12, C14 along histories):
seeded random histories on real objects, logged as heaps with object identity, validated by C13Trace.tla."""
import random
from fractions import Fraction

import numpy as np

from .. import core, embed, geomheap as gh
from ..core import Part

MAXNUM, MAXDEN = 4000, 32


class TooBig(Exception):
    pass


class OffLattice(Exception):
    pass


def _rat(x, emb):
    q = emb.q_of(x)
    f = q.limit_denominator(MAXDEN)
    tol = Fraction(1, 10**8) * max(1, abs(f))
    if abs(q - f) > tol:
        raise OffLattice(f"{x!r} -> {float(q)!r}")
    if abs(f.numerator) > MAXNUM:
        raise TooBig()
    return [f.numerator, f.denominator]


class Recorder:
    """assigns persistent ids to real objects and projects the reachable object graph to the spec's heap format"""

    def __init__(self, df, emb):
        self.df, self.emb = df, emb
        self.ids = {}
        self.keep = []  # keep objects alive so python ids are not reused
        self.next = 1

    def oid(self, o):
        if id(o) not in self.ids:
            self.ids[id(o)] = self.next
            self.keep.append(o)
            self.next += 1
        return self.ids[id(o)]

    def heap(self, vars_):
        df = self.df
        out = []
        for o in gh.reachable(df, [vars_[x] for x in sorted(vars_)]):
            i = self.oid(o)
            if isinstance(o, df.Region):
                rec = {"k": "region", "lo": [_rat(v, self.emb) for v in o.pmin], "hi": [_rat(v, self.emb) for v in o.pmax],
                       "units": list(o.units)}
            elif isinstance(o, df.Mesh):
                rec = {"k": "mesh", "region": self.oid(o.region), "n": [int(v) for v in o.n],
                       "sub": [self.oid(s) for s in o.subregions.values()]}
            else:
                ob = gh.observe(df, o)
                arr = np.asarray(ob["arr"], dtype=float)
                r = np.rint(arr)
                if not np.all(np.abs(arr - r) <= 1e-9 * np.maximum(1, np.abs(r))):
                    raise OffLattice("field values")
                rec = {"k": "field", "mesh": self.oid(o.mesh), "nv": ob["nv"], "arr": r.astype(int).tolist(),
                       "valid": ob["valid"], "map": list(ob["map"]), "shape": list(ob["shape"])}
            out.append([i, rec])
        return out

    def roots(self, vars_):
        return [[x, self.oid(vars_[x])] for x in sorted(vars_)]


def _rq(rnd, lo, hi, dens=(1, 1, 2, 4)):
    d = rnd.choice(dens)
    return Fraction(rnd.randrange(lo * d, hi * d + 1), d)


def _pair(fr):
    return [fr.numerator, fr.denominator]


SCENARIOS = ["region2", "region3", "mesh1", "mesh2", "mesh3", "twomesh", "field2", "field3", "scalar2", "unmapped", "shared"]


def random_step(rnd, df, vars_, only_rot=False):
    x = rnd.choice(sorted(vars_))
    obj = vars_[x]
    isfield = isinstance(obj, df.Field)
    nd = obj.mesh.region.ndim if isfield else (obj.region.ndim if isinstance(obj, df.Mesh) else obj.ndim)
    ip = rnd.random() < 0.5
    r = rnd.random()
    ref = () if rnd.random() < 0.4 else tuple(_pair(_rq(rnd, -20, 20, (1, 2))) for _ in range(nd))
    if ref and rnd.random() < 0.15:
        ref = tuple(_pair(Fraction(0)) for _ in range(nd))   # the origin is the most natural reference point of all
    if r < 0.08:
        bads = ["same-axis", "unknown-axis", "float-k", "rot-ref-complex"] + ([] if isfield else ["vector-too-long", "vector-of-strings", "factor-too-long", "factor-string", "ref-too-long",
                                                                                   "vector-complex", "factor-complex", "ref-complex"])
        return {"x": x, "kind": "malformed", "args": {"bad": rnd.choice(bads)}, "inplace": ip}
    if nd < 2 and not isfield:
        r = max(r, 0.45)   # one dimension: no plane to turn in
        only_rot = False
    if isfield or only_rot or r < 0.45:
        a, b = rnd.sample(range(1, nd + 1), 2)
        return {"x": x, "kind": "rotate90", "args": {"a": a, "b": b, "k": rnd.choice([1, 1, 2, 3, -1, -2, -3, 0, 4, 5, -5, 7]), "ref": ref}, "inplace": ip}
    if r < 0.65:
        zero = rnd.random() < 0.15   # the zero vector is a vector like any other
        return {"x": x, "kind": "translate", "args": {"v": tuple(_pair(Fraction(0) if zero else _rq(rnd, -9, 9)) for _ in range(nd))}, "inplace": ip}
    if rnd.random() < 0.5:
        f = rnd.choice([Fraction(2), Fraction(3), Fraction(1, 2), Fraction(-1), Fraction(-2), Fraction(3, 2), Fraction(0), Fraction(-1, 2), Fraction(1)])
        s = tuple(_pair(f) for _ in range(nd))
    else:
        s = tuple(_pair(rnd.choice([Fraction(2), Fraction(1), Fraction(1, 2), Fraction(-1), Fraction(3), Fraction(0)])) for _ in range(nd))
    return {"x": x, "kind": "scale", "args": {"s": s, "ref": ref}, "inplace": ip}


def tup(v):
    if isinstance(v, list):
        return tuple(tup(x) for x in v)
    if isinstance(v, dict):
        return {k: tup(x) for k, x in v.items()}
    return v


def _alias_pattern(df, vars_, st, outcome):
    """does this step realise one of the known aliasing patterns P1 / P2 of spec/C13.tla (AliasGuard)?"""
    if outcome != "ok" or not st["inplace"] or st["kind"] == "malformed":
        return False
    obj = vars_[st["x"]]
    live = gh.reachable(df, list(vars_.values()))
    tmesh = obj if isinstance(obj, df.Mesh) else obj.mesh if isinstance(obj, df.Field) else None
    if isinstance(obj, df.Region):
        moved = [obj]
    else:
        moved = [tmesh.region] + list(tmesh.subregions.values())
    for o in live:
        if isinstance(o, df.Mesh) and o is not tmesh and len(o.subregions) and any(o.region is r for r in moved):
            return True  # P2
    if st["kind"] == "rotate90" and st["args"]["k"] % 2 == 1 and tmesh is not None:
        for o in live:
            if isinstance(o, df.Field) and o is not obj and o.mesh is tmesh:
                return True  # P1 (the driver also stops when the counts happen to be equal)
    return False


def gen_history(df, rnd, tid, inits, emb, maxlen, only_rot=False, avoid_alias=False):
    sc = rnd.choice(sorted(inits))
    init = inits[sc]
    w = gh.World(df, init["heap"], init["roots"], emb)
    vars_ = dict(w.vars)
    rec = Recorder(df, emb)
    t = {"id": tid, "sc": sc, "emb": emb.name, "heap0": rec.heap(vars_), "roots0": rec.roots(vars_), "ev": []}
    for _ in range(rnd.randrange(1, maxlen + 1)):
        st = random_step(rnd, df, vars_, only_rot)
        if avoid_alias and _alias_pattern(df, vars_, st, "ok"):
            continue
        pre, rpre = rec.heap(vars_), rec.roots(vars_)
        obj = vars_[st["x"]]
        try:
            ret = gh.call(df, emb, obj, tup(st))
            outcome = "ok"
        except Exception:
            ret, outcome = None, "reject"
        new_vars = dict(vars_)
        if outcome == "ok" and not st["inplace"]:
            new_vars[st["x"]] = ret
            if rnd.random() < 0.5 and len(new_vars) < 6:
                # the operand of a copying step stays in the user's hands under another name: later in-place steps on the
                # copy must not reach it (seeded change C12-12: the copy shared its cell-count array with the original)
                new_vars["k%d" % len(t["ev"])] = obj
        try:
            post, rpost = rec.heap(new_vars), rec.roots(new_vars)
        except TooBig:
            break
        alias = _alias_pattern(df, vars_, st, outcome)
        vars_ = new_vars
        t["ev"].append(dict(st, outcome=outcome, retself=bool(ret is obj), pre=pre, post=post, rpre=rpre, rpost=rpost))
        if alias:
            break  # known aliasing patterns P1/P2 (spec/C13.tla): the objects are inconsistent from here on
    return t


def run_traces(ctx, df, ntraces, module="MC_C13", cfg0="C13_d0.cfg", only_rot=False, prefix="C13", avoid_alias=False):
    """needs the initial heaps of the scenarios: taken from the specification (depth-0 states)"""
    from .. import tlaval
    r = ctx.model(module, cfg0, dump=True, coverage=False)
    inits = {}
    for st in ctx.dump_states(r):
        inits[st["hist"][0]["sc"]] = st
    rnd = random.Random(ctx.seed * 104729 + 13)
    embs = [embed.DYADIC[0], embed.DYADIC[1], embed.REAL[0]]
    traces = []
    for tnum in range(ntraces):
        try:
            traces.append(gen_history(df, rnd, tnum + 1, inits, rnd.choice(embs), 5 if ctx.tier == "quick" else 8, only_rot, avoid_alias))
        except OffLattice as ex:
            ctx.violation("trace:off-lattice", "a transformed coordinate or value is not the exact affine image (could not be projected)", {"detail": str(ex)})
        except TooBig:
            # gen_history ends a history whose coordinates grow beyond the logged range; only the projection of the freshly
            # built objects can arrive here: they do not have the small lattice coordinates of the scenario they were built from
            ctx.violation(f"trace:{prefix}_MeshNormal/construction/objects-off-scenario",
                          "the objects built for a scenario (Region, Mesh with subregions given as Region objects, Field) do not have the scenario's coordinates",
                          {"trace": tnum + 1})
    traces = [t for t in traces if t["ev"]]
    r, verdicts, _ = ctx.trace_check("C13Trace", "C13Trace.cfg", traces, heap="8g")
    expect = sum(len(t["ev"]) + 1 for t in traces)
    if r.distinct != expect:
        raise core._tlc.MachineryError(f"C13Trace consumed {r.distinct} states, expected {expect}")
    byid = {t["id"]: t for t in traces}
    for v in verdicts:
        _, tid, l, clause = v
        t = byid[tid]
        e = t["ev"][l - 1]
        kinds = {i: rec["k"] for i, rec in e["pre"]}
        okind = kinds[dict((a, b) for a, b in e["rpre"])[e["x"]]]
        form = "inplace" if e["inplace"] else "copy"
        cls = ""
        if e["kind"] == "scale":
            fs = [Fraction(a, b) for a, b in e["args"]["s"]]
            cls = "zero-factor" if any(f == 0 for f in fs) else "negative-factor" if any(f < 0 for f in fs) else "positive-factor"
        elif e["kind"] == "rotate90":
            cls = "odd-k" if e["args"]["k"] % 2 else "even-k"
        elif e["kind"] == "malformed":
            cls = e["args"]["bad"]
        hist = [{k: ev[k] for k in ("x", "kind", "args", "inplace", "outcome")} for ev in t["ev"][:l]]
        if prefix != "C13":
            clause = clause.replace("C13_", prefix + "_")
        ctx.violation(f"trace:{clause}/{okind}.{e['kind']}/{form}/{cls}",
                      f"recorded history rejected by C13Trace at step {l}: clause {clause}",
                      {"scenario": t["sc"], "embedding": t["emb"], "history": hist})
    ctx.traces += len(traces)
    ctx.evaluations += sum(len(t["ev"]) for t in traces)
    for t in traces:
        ctx.nontriv("T", t["sc"], repr([(e["x"], e["kind"], repr(e["args"]), e["inplace"]) for e in t["ev"]]))
    if traces:
        t0 = traces[0]
        ctx.sample({"channel": "T", "scenario": t0["sc"], "history": [{k: e[k] for k in ("x", "kind", "args", "inplace", "outcome")} for e in t0["ev"]]})
