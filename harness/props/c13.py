"""C13 - geometric invariants and in-place == copy hold after any transformation sequence.

M : TLC on spec/C13.tla (object heap with references, Geom.tla): exhaustive histories of depth 1 with the
    full alphabet and of depth 2 (3 in thorough via VIEW-less reduced alphabets) over ten sharing scenarios;
    invariants C13_RegionNormal / MeshNormal / FieldShapes, action properties AffineExact, CountsAndUnits,
    InplaceEqualsCopy, InplaceReturnsSelf, CopyLeavesOriginal, RejectUnchanged.
R : every dumped state's history is replayed on real Region/Mesh/Field objects (same sharing), each step is
    checked (outcome, return identity, untouched originals, in-place == copy on a deep clone) and the final
    object graph is compared with the spec heap.
T : seeded random histories (length <= 10, arbitrary rational arguments) on the real library, logged step by
    step and validated by spec/C13Trace.tla with the same Geom operators.
W : the known aliasing pattern (D6) is replayed from the faithful (AllowAlias = "all") model as a witness.
"""
import json
import random
from fractions import Fraction

import numpy as np

from .. import core, embed, geomheap as gh, tlaval
from ..core import Part

META = dict(
    level="model_checking",
    level_text=("TLC explores every history of public transformation calls (translate / scale / rotate90, in place or copying, "
                "well-formed or malformed) up to the stated depth over ten initial object graphs with shared regions and meshes; "
                "three state invariants and six action properties express C13. Every reached state is replayed on the real objects "
                "step by step (R) and random deeper histories of the real objects are validated by TLC (T). Histories and aliasing "
                "are what the per-method unit tests never reach."),
    level_note=("Bounds: depth 1 full alphabet (8 k values, 7 factor tuples incl. negative and zero, 3 reference points, 8 malformed kinds), "
                "depth 2 reduced alphabet in quick / wider in thorough, TLC simulation to depth 8, random real histories to length 10. 2-D and "
                "3-D objects, 6 cells. The aliasing pattern P1 (in-place odd quarter turn of a mesh another field uses) is excluded from "
                "the exhaustive model by a guard and replayed separately as a known finding. Trusted: TLC, tlaval parser, harness/geomheap.py "
                "projection (tolerance 1e-9 relative because cos(k pi/2) is inexact). Two further stages: C13X (spec/C13X.tla, "
                "harness/c13x.py) - the two-form contract of one step at the edge of floating point (far vectors / reference points, "
                "extreme factors, meshes of size 1e-200..1e150), every experiment validated by TLC; and spec/C13Core.tla - Apalache "
                "discharges the inductive invariant lo < hi, n >= 1, cell*n = hi - lo of the 1-d integer core for unbounded arguments and "
                "histories (2 obligations, reported in the evidence, not relied on). 1-d / 2-d / 3-d objects; plain-number arguments in 1-d; "
                "identity steps (zero vector, factor one, k = 0, 4); results of copying steps must consist of new objects."),
    technique="TLA+ heap-with-references model (Geom.tla, C13.tla), TLC exhaustive + simulation; histories replayed into code; random code histories validated by TLC (C13Trace.tla, C13X.tla); Apalache inductive invariant of the unbounded 1-d core (C13Core.tla), the same as a TLAPS proof (C13CoreProof.tla)",
    design_ref="DESIGN.md section 7 C13, Appendix A.3/A.5",
)

RULE = ("a case is one (state = history of calls, embedding); every step of the history is executed and checked; non-trivial = "
        "history with at least one accepted step; distinct by (history, embedding)")

EMBS_QUICK = [embed.DYADIC[0], embed.REAL[0]]
EMBS_THOROUGH = [embed.DYADIC[0], embed.DYADIC[1], embed.REAL[0], embed.REAL[1]]


def _key(clause, st, obj_kind, extra=""):
    form = "inplace" if st["inplace"] else "copy"
    k = f"{clause}/{obj_kind}.{st['kind']}/{form}"
    return k + ("/" + extra if extra else "")


def _kind_of(df, o):
    return "region" if isinstance(o, df.Region) else "mesh" if isinstance(o, df.Mesh) else "field"


def _classify(st):
    """coarse condition class of a step's arguments (part of violation keys)"""
    a = st["args"]
    if st["kind"] == "scale":
        s = [gh.frac(c) for c in a["s"]]
        if any(c == 0 for c in s):
            return "zero-factor"
        if any(c < 0 for c in s):
            return "negative-factor"
        return "positive-factor"
    if st["kind"] == "rotate90":
        return "odd-k" if a["k"] % 2 == 1 else "even-k"
    if st["kind"] == "malformed":
        return a["bad"]
    return ""


def replay_history(df, init, state, emb, part, check_final=True):
    """execute state's history on real objects; report disagreements with the spec"""
    w = gh.World(df, init["heap"], init["roots"], emb)
    vars_ = w.vars
    hist = state["hist"]
    accepted = 0
    for si, st in enumerate(hist[1:], start=1):
        x = st["x"]
        obj = vars_[x]
        okind = _kind_of(df, obj)
        live = gh.reachable(df, list(vars_.values()))
        before = gh.snapshot(df, live)
        cls = _classify(st)
        wit = lambda **kw: dict(scenario=hist[0]["sc"], history=list(hist[1:si + 1]), embedding=emb.name, step=si,
                                replay={"init": init, "state": state}, **kw)
        # in-place == copy, observed on a deep clone (independent of the specification)
        twin = None
        if st["kind"] != "malformed" and st["inplace"]:
            try:
                clone = gh.clone_world(vars_)
                twin = gh.call(df, emb, clone[x], dict(st, inplace=False))
            except Exception:
                twin = None
        try:
            ret = gh.call(df, emb, obj, st)
            raised = None
        except gh.NotApplicable:
            continue
        except Exception as ex:
            ret, raised = None, ex
        part.count()
        if st["outcome"] == "reject":
            if raised is None:
                part.violation(_key("C13_RejectBothForms", st, okind, cls),
                               "a step the property requires to be rejected (degenerate result or malformed arguments) was accepted",
                               wit(returned=repr(ret)[:200]))
                if not st["inplace"]:
                    continue  # the copy is discarded; the original must still be untouched (checked below)
            changed = [o for o in live if not gh.same_obs(before[id(o)], gh.observe(df, o))]
            if changed:
                part.violation(_key("C13_RejectUnchanged", st, okind, cls),
                               "a rejected step modified an object",
                               wit(exc=repr(raised)[:200], changed=[_kind_of(df, o) for o in changed]))
                return  # the real objects no longer correspond to the specification's heap
            if raised is None and st["inplace"]:
                return
            continue
        if raised is not None:
            part.violation(_key("accepts", st, okind, cls), "a well-formed step was rejected", wit(exc=repr(raised)[:300]))
            return
        accepted += 1
        if st["inplace"]:
            if ret is not obj:
                part.violation(_key("C13_InplaceReturnsSelf", st, okind), "the in-place form did not return the object itself", wit())
            if twin is not None:
                d = [m for m in _diff_obs(gh.observe(df, twin), gh.observe(df, obj))]
                if d:
                    part.violation(_key("C13_InplaceEqualsCopy", st, okind, cls),
                                   "after the in-place form the object differs from what the copying form returns", wit(differences=d[:4]))
        else:
            if ret is obj:
                part.violation(_key("C13_CopyReturnsNew", st, okind), "the copying form returned the object itself", wit())
            else:
                shared = [o for o in gh.reachable(df, [ret]) if any(o is q for q in live)]
                if shared:
                    # with the in-place steps of the API a shared region / mesh is a modification of the original waiting to
                    # happen (seeded change C14-12: translate by the zero vector returned the region itself)
                    part.violation(_key("C13_CopyLeavesOriginal", st, okind, "result-shares-objects-with-the-original"),
                                   "the result of the copying form refers to objects of the original (its region, subregions or mesh)",
                                   wit(shared=[_kind_of(df, o) for o in shared]))
            changed = [o for o in live if not gh.same_obs(before[id(o)], gh.observe(df, o))]
            if changed:
                part.violation(_key("C13_CopyLeavesOriginal", st, okind, cls), "the copying form modified an existing object",
                               wit(changed=[_kind_of(df, o) for o in changed]))
            vars_[x] = ret
    if not check_final:
        return
    # final object graph against the specification's heap
    heap, roots = state["heap"], state["roots"]
    last = hist[-1]
    for x in sorted(roots):
        diffs = gh.compare(emb, gh.deep(heap, roots[x]), gh.observe(df, vars_[x]), path=x)
        if diffs:
            st = last if len(hist) > 1 else {"kind": "init", "inplace": False}
            okind = _kind_of(df, vars_[x])
            clause = "C13_AffineExact"
            p0 = diffs[0][0]
            if p0.endswith(".units") or p0.endswith(".n"):
                clause = "C13_CountsAndUnits"
            elif p0.endswith(".order"):
                clause = "C13_RegionNormal"
            elif ".shape" in p0 or ".valid" in p0:
                clause = "C13_FieldShapes"
            elif p0.endswith(".arr") or p0.endswith(".validmask") or p0.endswith(".map"):
                clause = "C12_Law"
            tgt = "" if len(hist) == 1 else ("target" if x == last.get("x") else "other-variable")
            part.violation(_key(clause, st, okind, (_classify(st) + "/" + tgt).strip("/")) if len(hist) > 1 else f"{clause}/init",
                           f"object graph differs from the specification after the history: {diffs[0][1]}",
                           dict(scenario=hist[0]["sc"], history=list(hist[1:]), embedding=emb.name, variable=x,
                                differences=[f"{p}: {m}" for p, m in diffs[:5]], replay={"init": init, "state": state}))
            return
    if gh.sharing_signature(df, vars_) != gh.spec_sharing_signature(heap, roots):
        part.violation("sharing/" + (last.get("kind", "init")), "the objects share references differently from the specification's heap",
                       dict(scenario=hist[0]["sc"], history=list(hist[1:]), embedding=emb.name))
    if accepted:
        part.nontriv(repr(hist), emb.name)


def _floats(v):
    if isinstance(v, dict):
        for x in v.values():
            yield from _floats(x)
    elif isinstance(v, (list, tuple)):
        for x in v:
            yield from _floats(x)
    elif isinstance(v, float):
        yield abs(v)


def _diff_obs(a, b, path="", scale=None):
    """differences between two observations of real objects (floats compared to 1e-9 of the largest magnitude)"""
    if scale is None:
        scale = max(list(_floats(a)) + [1e-300])
    if isinstance(a, dict):
        for k in a:
            yield from _diff_obs(a[k], b.get(k) if isinstance(b, dict) else None, path + "." + str(k), scale)
    elif isinstance(a, (list, tuple)):
        if not isinstance(b, (list, tuple)) or len(a) != len(b):
            yield f"{path}: {b!r} vs {a!r}"
        else:
            for i, (x, y) in enumerate(zip(a, b)):
                yield from _diff_obs(x, y, f"{path}[{i}]", scale)
    elif isinstance(a, float) and isinstance(b, (int, float)):
        if not abs(a - b) <= 1e-9 * scale:
            yield f"{path}: copy {a!r} vs in-place {b!r}"
    elif a != b:
        yield f"{path}: copy {a!r} vs in-place {b!r}"


# ------------------------------------------------------------------------------------
def _inits(blocks):
    inits = {}
    for b in blocks:
        if "inplace |->" not in b:
            st = tlaval.parse_state_text(b)
            inits[st["hist"][0]["sc"]] = st
    return inits


def _replay_dump(ctx, df, r, embs, label):
    blocks = ctx.dump_blocks(r)
    inits = _inits(blocks)

    def chunk(items):
        part = Part()
        for b in items:
            st = tlaval.parse_state_text(b)
            init = inits[st["hist"][0]["sc"]]
            for emb in embs:
                replay_history(df, init, st, emb, part)
                part.trace()
        if items:
            st = tlaval.parse_state_text(items[0])
            part.sample({"channel": "R", "source": label, "history": st["hist"], "roots": st["roots"]})
        return part

    ctx.pmap(chunk, blocks)
    return inits


def run(ctx):
    df = core.import_library()
    embs = EMBS_QUICK if ctx.tier == "quick" else EMBS_THOROUGH
    inits = {}
    for cfg in (["C13_d1.cfg", "C13_quick.cfg"] if ctx.tier == "quick" else ["C13_d1.cfg", "C13_thorough.cfg"]):
        r = ctx.model("MC_C13", cfg, dump=True, coverage=False)
        if r.ok:
            inits.update(_replay_dump(ctx, df, r, embs, cfg))
    # deeper random histories from the specification (TLC simulation), replayed on the code
    nsim = 64 if ctx.tier == "quick" else 1200
    rs, files = ctx.simulate("MC_C13", "C13_sim.cfg", num=nsim, depth=7)
    ctx.exhaustive = False

    def simchunk(items):
        part = Part()
        for f in items:
            beh = tlaval.parse_behaviour(f)
            if not beh:
                continue
            st = beh[-1][1]
            init = beh[0][1]
            for emb in embs[:1]:
                replay_history(df, init, st, emb, part)
                part.trace()
        return part

    ctx.pmap(simchunk, files)
    # the known aliasing pattern, taken from the faithful model
    _alias_witness(ctx, df, embs[0])
    _alias_p2_witness(ctx, df, embs[0])
    from . import c13_trace
    c13_trace.run_traces(ctx, df, 400 if ctx.tier == "quick" else 6000)
    ctx.assumptions += [
        "object identity in the model = `is` on the real objects; user variables are rebound by copying steps",
        "coordinates are compared to 1e-9 relative (the library computes cos(k*pi/2) in floating point)",
        "aliasing pattern P1 is excluded from the exhaustive model by AliasGuard and checked by the witness run",
    ]
    # the unbounded integer core (spec/C13Core.tla): Apalache discharges the inductive invariant
    from .. import apalache
    apalache.run_stage(ctx)
    apalache.tlaps_stage(ctx, "C13CoreProof.tla", needs=("C13Core.tla",))   # the same two facts as a checked proof (77 obligations)
    # the two-form contract at the edge of floating point (spec/C13X.tla): degenerate results, far points, extreme factors
    from .. import c13x
    c13x.run_stage(ctx, df, 400 if ctx.tier == "quick" else 6000)
    core.df_stage(ctx, df)   # mixed histories (spec/DF.tla): the clauses that come from this property's text
    return core.finish(ctx, rule=RULE, extra={"embeddings": [e.name for e in embs]})


def _alias_witness(ctx, df, emb):
    """AllowAlias = "all": TLC must find C13_FieldShapes violated (the model-level finding); the counterexample's
    pattern is replayed on the real library."""
    from .. import tlc as _tlc
    r = _tlc.run("MC_C13", "C13_alias.cfg", ctx.scratch, workers=4, timeout=600, tag="alias")
    ctx.tlc_runs.append({"cmd": r.cmd.replace(ctx.scratch, "$SCRATCH"), "generated": r.generated, "distinct": r.distinct,
                         "violated": r.violated, "purpose": "witness for the known aliasing finding"})
    if "C13_FieldShapes" not in r.violated:
        ctx.notes["alias_model_no_longer_violates"] = 1
    # replay the canonical pattern: two fields share a mesh, one is rotated in place by an odd quarter turn
    region = df.Region(p1=(emb.x(0), emb.x(-4)), p2=(emb.x(12), emb.x(4)))
    mesh = df.Mesh(region=region, n=(3, 2))
    f = df.Field(mesh, nvdim=2, value=(1.0, 2.0))
    g = df.Field(mesh, nvdim=1, value=3.0)
    f.rotate90("x", "y", k=1, inplace=True)
    ctx.count()
    if tuple(g.array.shape[:-1]) != tuple(int(v) for v in g.mesh.n):
        ctx.violation("C13_FieldShapes/alias-P1/field.rotate90/inplace/odd-k/shared-mesh",
                      "in-place odd quarter turn of a field leaves another field on the same mesh with array shape != mesh.n",
                      {"repro": "m=Mesh(p1=(0,-4),p2=(12,4),n=(3,2)); f=Field(m,2,(1,2)); g=Field(m,1,3); f.rotate90('x','y',inplace=True); g.array.shape[:-1] != tuple(g.mesh.n)",
                       "g.array.shape": g.array.shape, "g.mesh.n": g.mesh.n})
    m2 = df.Mesh(region=df.Region(p1=(emb.x(0), emb.x(-4)), p2=(emb.x(12), emb.x(4))), n=(3, 2))
    h = df.Field(m2, nvdim=1, value=3.0)
    m2.rotate90("x", "y", k=1, inplace=True)
    ctx.count()
    if tuple(h.array.shape[:-1]) != tuple(int(v) for v in h.mesh.n):
        ctx.violation("C13_FieldShapes/alias-P1/mesh.rotate90/inplace/odd-k/mesh-of-a-field",
                      "in-place odd quarter turn of a mesh leaves a field defined on it with array shape != mesh.n",
                      {"repro": "m=Mesh(p1=(0,-4),p2=(12,4),n=(3,2)); h=Field(m,1,3); m.rotate90('x','y',inplace=True); h.array.shape[:-1] != tuple(h.mesh.n)"})


def _alias_p2_witness(ctx, df, emb):
    r = df.Region(p1=(emb.x(0), emb.x(-4)), p2=(emb.x(12), emb.x(4)))
    sub = df.Region(p1=(emb.x(0), emb.x(-4)), p2=(emb.x(8), emb.x(0)))
    m = df.Mesh(region=r, n=(3, 2), subregions={"s1": sub})
    r.translate((emb.length(Fraction(-1, 2)), 0.0), inplace=True)
    ctx.count()
    try:
        m.translate((emb.length(1), 0.0))
    except Exception as ex:
        ctx.violation("accepts/alias-P2/region.translate/inplace/shared-with-mesh-with-subregions",
                      "after an in-place transformation of a region that a mesh with subregions shares, the subregions are left "
                      "behind and copying transformations of that mesh are refused",
                      {"repro": "r=Region(p1=(0,-4),p2=(12,4)); m=Mesh(region=r,n=(3,2),subregions={'s1':Region(p1=(0,-4),p2=(8,0))}); "
                                "r.translate((-0.5,0),inplace=True); m.translate((1,0))  # ValueError", "exc": repr(ex)})


def _detuple(v):
    """JSON -> the shapes tlaval produces (tuples for sequences)"""
    if isinstance(v, list):
        return tuple(_detuple(x) for x in v)
    if isinstance(v, dict):
        out = {}
        for k, x in v.items():
            out[int(k) if k.lstrip("-").isdigit() else k] = _detuple(x)
        return out
    return v


def replay(ctx, path):
    """re-execute the recorded history on the current tree"""
    df = core.import_library()
    with open(path) as fh:
        rp = json.load(fh)
    w = rp["witness"] or {}
    print("key:", rp["key"])
    print("what:", rp["what"])
    print("history:", json.dumps(w.get("history"))[:3000])
    if "/float-edge/" in rp["key"] and "experiment" in w:
        from .. import c13x
        return c13x.replay(ctx, df, w)
    if "replay" not in w:
        print("(witness without a replayable state: trace / witness-run finding)")
        return 1
    embs = {e.name: e for e in embed.DYADIC + embed.REAL}
    part = Part()
    replay_history(df, _detuple(w["replay"]["init"]), _detuple(w["replay"]["state"]), embs[w["embedding"]], part)
    for k, what, _ in part["violations"]:
        print("still fails:", k, "-", what)
    return 1 if part["violations"] else 0


def selftest(ctx):
    import copy
    from . import c13_trace
    df = core.import_library()
    r = ctx.model("MC_C13", "C13_d0.cfg", dump=True, coverage=False)
    inits = {st["hist"][0]["sc"]: st for st in ctx.dump_states(r)}
    rnd = random.Random(7)
    traces = []
    while len(traces) < 30:
        t = c13_trace.gen_history(df, rnd, len(traces) + 1, inits, embed.DYADIC[0], 4, avoid_alias=True)
        if t["ev"]:
            traces.append(t)
    _, v0, _ = ctx.trace_check("C13Trace", "C13Trace.cfg", traces)
    bad = copy.deepcopy(traces)
    hit = None
    for t in bad:
        for e in t["ev"]:
            if e["outcome"] == "ok":
                for oid, rec in e["post"]:
                    if rec["k"] == "region":
                        rec["lo"][0] = [rec["lo"][0][0] + rec["lo"][0][1], rec["lo"][0][1]]  # +1
                        hit = t["id"]
                        break
            if hit:
                break
        if hit:
            break
    _, v1, _ = ctx.trace_check("C13Trace", "C13Trace.cfg", bad)
    res = [("clean histories accepted by C13Trace", len(v0) == 0),
           ("history with one altered corner rejected by C13Trace", any(v[1] == hit for v in v1))]
    # spec -> code: alter the expected heap of one depth-1 state
    r1 = ctx.model("MC_C13", "C13_d1.cfg", dump=True, coverage=False)
    sts = [s for s in ctx.dump_states(r1) if len(s["hist"]) == 2 and s["hist"][1]["kind"] == "translate" and s["hist"][1]["outcome"] == "ok"]
    st = sts[0]
    part = Part()
    replay_history(df, inits[st["hist"][0]["sc"]], st, embed.DYADIC[0], part)
    st2 = copy.deepcopy(st)
    heap = gh.heap_dict(st2["heap"])
    oid = next(o for o, rec in heap.items() if rec["k"] == "region")
    rec = dict(heap[oid])
    rec["lo"] = ((rec["lo"][0][0] + rec["lo"][0][1], rec["lo"][0][1]),) + tuple(rec["lo"][1:])
    heap[oid] = rec
    st2["heap"] = heap
    part2 = Part()
    replay_history(df, inits[st["hist"][0]["sc"]], st2, embed.DYADIC[0], part2)
    res += [("dumped history accepted by the replay", not part["violations"]),
            ("dumped history with one altered expected corner rejected", bool(part2["violations"]))]
    return res
