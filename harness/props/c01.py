"""C01 - mesh cells tile the region; index <-> coordinate maps are mutually inverse.

M: TLC exhaustive on spec/C01.tla (MC_C01 + C01_<tier>.cfg), all invariants C01_*.
R: every dumped (mesh, query, expected) state is executed on the real library under the tier's
   embeddings and compared (exact on dyadic embeddings, tolerance + face ambiguity otherwise).
T: seeded random large meshes / probe points executed on the real library, logged, and
   validated by TLC against spec/C01Trace.tla.
"""
import json
import random

import numpy as np

from .. import core, embed, lat
from ..core import Part

META = dict(
    level="model_checking",
    level_text=("Exhaustive TLC model checking of spec/C01.tla (every mesh of 1-4 dimensions within the bounds of "
                "MC_C01.tla x every query action; ten invariants C01_*), every TLC state replayed on the real Mesh/Region "
                "API under dyadic (exact comparison) and real-world (tolerance, face ambiguity) float embeddings, plus "
                "seeded random large-mesh executions validated by TLC against spec/C01Trace.tla. Universality over cells, "
                "faces and off-lattice points is what the unit tests sample and this enumerates."),
    level_note=("Bounds: quick n<=6/4/3/2 (1-4-D), thorough n<=8/5/4/2; cell sizes 1-3 quarter-units anisotropic; probes on the "
                "quarter-cell lattice (R) and arbitrary integer lattice points on meshes up to 40 cells/axis (T). Trusted: TLC, "
                "harness/tlaval.py parser, embedding/projection adapter (exact Fractions), IEEE exactness on dyadic data. "
                "Length scales 1e-12..1e6 are covered through the embeddings, not through the model. Beyond the bounds: spec/C01Core.tla - "
                "Apalache proves the inverse-map, own-cell, tile-once and outside clauses for the 1-d integer lattice with unbounded "
                "corner, cell size and cell count (5 obligations, about 4 s each; reported in the evidence, a counterexample would be "
                "a violation of the specification itself)."),
    technique="TLA+ lattice model (Lattice.tla, C01.tla) + TLC exhaustive; spec states replayed into code; code traces validated by TLC (C01Trace.tla); Apalache on the unbounded 1-d core (C01Core.tla)",
    design_ref="DESIGN.md section 7 C01",
)

RULE = ("states: all meshes within the cfg bounds x every query action; a case is one (state, embedding) "
        "pair; non-trivial = the query touches a face, a boundary, an out-of-range value or a cell other "
        "than the first; distinct by (mesh, action, embedding)")


def _ctx_embs(tier, seed):
    return embed.for_tier(tier, seed)


MOVE_VEC = (8, -12, 20, -4)


def _warm(mesh):
    """read every derived datum once (a stale cache would be filled here)"""
    list(mesh.indices)
    list(mesh)
    mesh.cells
    mesh.vertices
    mesh.coordinate_field()
    len(mesh)
    mesh.cell
    mesh.dV


def _apply_move(mesh, mv, old, emb, names):
    nd = len(old["n"])
    if mv == "translate":
        mesh.translate([emb.length(MOVE_VEC[d]) for d in range(nd)], inplace=True)
    elif mv == "scale2_about_pmin":
        mesh.scale(2, reference_point=tuple(float(v) for v in mesh.region.pmin), inplace=True)
    elif mv == "scale2_about_origin":
        mesh.scale(2.0, reference_point=tuple(emb.x(0) for _ in range(nd)), inplace=True)
    elif mv == "rot90_about_pmin":
        mesh.rotate90(names[0], names[1], k=1, reference_point=tuple(float(v) for v in mesh.region.pmin), inplace=True)
    else:
        raise core._tlc.MachineryError(f"unknown move {mv}")


def exec_state(df, st, emb, part):
    m, act, obs = st["mesh"], st["act"], st["obs"]
    moved = st.get("moved", ())
    nd = len(m["n"])
    cq = lat.cellq(m)
    src = moved[1] if moved else m
    names = lat.names_for(src)
    flip = lat.flip_for(src)
    mvtag = ("after-" + moved[0]) if moved else "fresh"
    key = lambda clause: f"{clause}/{act[0]}/{'dyadic' if emb.dyadic else 'real'}/{mvtag}"
    wit = lambda **kw: dict(mesh=m, moved=moved, act=act, expected=obs, embedding=emb.name, dims=names, flip=flip, **kw)
    try:
        mesh = lat.mesh_of(df, src, emb, dims=names, flip=flip)
    except Exception as ex:  # a valid mesh must be constructible
        part.violation(key("construct"), f"Mesh(region, n) raised {type(ex).__name__}", wit(exc=repr(ex)))
        return
    if moved:
        _warm(mesh)
        try:
            _apply_move(mesh, moved[0], src, emb, names)
        except Exception as ex:
            part.violation(key("move"), f"in-place {moved[0]} raised {type(ex).__name__}", wit(exc=repr(ex)))
            return
        if moved[0].startswith("rot90") and emb.dyadic:
            # cos(k*pi/2) is inexact in floating point: tolerance and face ambiguity apply from here on
            emb = embed.Embedding(emb.name, emb.quantum, emb.origin, False)
    coords = [m["lo"][d] for d in range(nd)] + [m["lo"][d] + m["c"][d] * m["n"][d] for d in range(nd)]
    close = lambda x, q: emb.close(x, q, cq, coords)
    kind = act[0]
    part.count()
    if kind == "new":
        if tuple(int(v) for v in mesh.n) != tuple(m["n"]) or len(mesh) != obs["len"]:
            part.violation(key("len"), "n / len(mesh) differ from the specification", wit(n=mesh.n, len=len(mesh)))
        cell = mesh.cell
        if not all(emb.close_len(cell[d], m["c"][d], cq, coords) for d in range(nd)):
            part.violation(key("cell"), "cell size is not edges/n", wit(cell=cell))
        if tuple(mesh.region.dims) != tuple(names):
            part.violation(key("dims"), "dimension names not kept", wit(got=mesh.region.dims))
        # region corners: normalised whatever the corner order was
        for d in range(nd):
            if not (close(mesh.region.pmin[d], m["lo"][d]) and close(mesh.region.pmax[d], coords[nd + d])):
                part.violation(key("corners"), "pmin/pmax are not the (transformed) normalised corners", wit(pmin=mesh.region.pmin, pmax=mesh.region.pmax))
        if len(mesh) > 1:
            part.nontriv(str(m), mvtag, kind, emb.name)
    elif kind == "iterate":
        got = [tuple(int(v) for v in i) for i in mesh.indices]
        if got != [tuple(i) for i in obs]:
            part.violation(key("C01_Order"), "mesh.indices is not first-dimension-fastest order", wit(got=got[:8]))
        pts = list(mesh)
        if len(pts) != len(obs):
            part.violation(key("C01_Order"), "iteration length differs from the cell count", wit(got=len(pts)))
        else:
            for i, p in zip(obs, pts):
                if not all(close(p[d], m["lo"][d] + m["c"][d] * i[d] + m["c"][d] // 2) for d in range(nd)):
                    part.violation(key("C01_Order"), "iteration yields a point that is not the centre of the cell in order", wit(index=i, point=p))
                    break
        if len(obs) > 1:
            part.nontriv(str(m), mvtag, kind, emb.name)
    elif kind == "index2point":
        for i, r in obs.items():
            try:
                p = mesh.index2point(tuple(i))
                ok = True
            except Exception as ex:
                ok, p = False, repr(ex)
            if ok != r["ok"]:
                part.violation(key("C01_OutsideIndexRejected" if not r["ok"] else "i2p-accept"),
                               "index2point accepts/rejects differently from the specification", wit(index=i, got=p))
            elif ok:
                if not all(close(p[d], r["v"][d]) for d in range(nd)):
                    part.violation(key("i2p-centre"), "index2point is not pmin+(i+1/2)*cell", wit(index=i, got=p))
                try:
                    back = mesh.point2index(p)
                except Exception as ex:  # the centre of a cell is a point of the region
                    back = repr(ex)
                if not isinstance(back, tuple) or tuple(back) != tuple(i):
                    part.violation(key("C01_Inverse"), "point2index(index2point(i)) != i", wit(index=i, got=back))
            part.count()
        part.nontriv(str(m), mvtag, kind, emb.name)
    elif kind in ("point2index_line", "point2index_diag"):
        if kind == "point2index_line":
            if isinstance(obs, tuple):  # TLC prints a function with domain 1..n as a tuple
                obs = {j + 1: v for j, v in enumerate(obs)}
            d0 = act[1] - 1
            base = [m["lo"][d] + m["c"][d] // 4 for d in range(nd)]
            probes = []
            for x, r in sorted(obs.items()):
                p = list(base)
                p[d0] = x
                probes.append((p, r))
        else:
            probes = [(list(v["p"]), v["r"]) for _, v in sorted(obs.items())]
        for p, r in probes:
            pt = emb.point(p)
            try:
                got = mesh.point2index(pt)
                ok = True
            except Exception as ex:
                ok, got = False, repr(ex)
            inreg = pt in mesh.region
            # a probe exactly on the region boundary may fall outside after an inexact (rotated) move
            onbound = any(p[d] in (m["lo"][d], coords[nd + d]) for d in range(nd))
            lenient = onbound and moved and moved[0].startswith("rot90")
            if inreg != r["ok"] and not lenient:
                part.violation(key("contains"), "Region.__contains__ differs from the specification", wit(point=p, got=inreg))
            if ok != r["ok"] and not lenient:
                part.violation(key("p2i-accept"), "point2index accepts/rejects differently from the specification (inside <=> accepted)", wit(point=p, got=got))
            elif ok and r["ok"]:
                good = tuple(got) == tuple(r["idx"]) if emb.dyadic else all(got[d] in r["alt"][d] for d in range(nd))
                if not good:
                    part.violation(key("C01_Contains"), "point2index does not return the cell containing the point", wit(point=p, got=got, want=r))
            part.count()
        part.nontriv(str(m), mvtag, str(act), emb.name)
    elif kind in ("cells", "vertices"):
        d0 = act[1] - 1
        arr = getattr(mesh, kind)[d0]
        named = getattr(getattr(mesh, kind), names[d0])
        if len(arr) != len(obs) or not all(close(a, q) for a, q in zip(arr, obs)) or not np.array_equal(arr, named):
            part.violation(key("C01_AxesAgree"), f"mesh.{kind} does not list the lattice along the axis", wit(got=arr))
        if len(obs) > 1:
            part.nontriv(str(m), mvtag, str(act), emb.name)
    elif kind == "coordinate_field":
        f = mesh.coordinate_field()
        arr = f.array
        if arr.shape != tuple(m["n"]) + (nd,):
            part.violation(key("C01_AxesAgree"), "coordinate field has the wrong shape", wit(got=arr.shape))
        else:
            for i, c in obs.items():
                if not all(close(arr[tuple(i)][d], c[d]) for d in range(nd)):
                    part.violation(key("C01_AxesAgree"), "coordinate field value is not the cell centre", wit(index=i, got=arr[tuple(i)]))
                    break
        if len(obs) > 1:
            part.nontriv(str(m), mvtag, kind, emb.name)
    elif kind == "by_cell":
        for cr, r in obs.items():
            cell = [emb.length(v) for v in cr]
            try:
                m2 = df.Mesh(region=mesh.region, cell=cell)
                ok, got = True, tuple(int(v) for v in m2.n)
            except Exception as ex:
                ok, got = False, repr(ex)
            if ok != r["ok"] or (ok and got != tuple(r["v"])):
                part.violation(key("C01_CellRequest"), "mesh by cell size exists iff the edges are a whole number of cells, with n = edges/cell", wit(request=cr, got=got))
            part.count()
        part.nontriv(str(m), mvtag, kind, emb.name)
    else:
        raise core._tlc.MachineryError(f"unknown action {act}")


# ------------------------------------------------------------------ channel T driver
def gen_trace(df, rnd, tid, embs):
    nd = rnd.choice([1, 1, 2, 2, 3, 3, 4])
    cap = {1: 40, 2: 16, 3: 9, 4: 5}[nd]
    m = {"lo": [rnd.randrange(-400, 400) for _ in range(nd)],
         "c": [4 * rnd.randrange(1, 11) for _ in range(nd)],
         "n": [rnd.randrange(1, cap + 1) for _ in range(nd)]}
    emb = rnd.choice(embs)
    names = lat.names_for(m)
    flip = [rnd.random() < 0.3 for _ in range(nd)]
    mesh = lat.mesh_of(df, m, emb, dims=names, flip=flip)
    cq = lat.cellq(m)
    coords = m["lo"] + [m["lo"][d] + m["c"][d] * m["n"][d] for d in range(nd)]
    ev = []
    hi = [m["lo"][d] + m["c"][d] * m["n"][d] for d in range(nd)]
    for _ in range(rnd.randrange(6, 14)):
        k = rnd.random()
        if k < 0.5:
            # probe: any integer lattice coordinate from one cell outside to one cell outside
            p = []
            for d in range(nd):
                r = rnd.random()
                if r < 0.12:
                    p.append(m["lo"][d] + m["c"][d] * rnd.randrange(0, m["n"][d] + 1))  # a face
                elif r < 0.2:
                    p.append(rnd.choice([m["lo"][d] - rnd.randrange(1, m["c"][d]), hi[d] + rnd.randrange(1, m["c"][d])]))
                else:
                    p.append(rnd.randrange(m["lo"][d], hi[d] + 1))
            try:
                got = [int(v) for v in mesh.point2index(emb.point(p))]
                ok = True
            except Exception:
                ok, got = False, []
            ev.append({"k": "p2i", "p": p, "ok": ok, "r": got})
        elif k < 0.8:
            i = [rnd.randrange(-1, m["n"][d] + 1) if rnd.random() < 0.1 else rnd.randrange(0, m["n"][d]) for d in range(nd)]
            try:
                pt = mesh.index2point(tuple(i))
                ok = True
            except Exception:
                ok = False
            if ok:
                pr = [lat.proj_coord(emb, pt[d], cq, coords) for d in range(nd)]
                try:
                    back = [int(v) for v in mesh.point2index(pt)]
                except Exception:  # the centre of a cell is a point of the region: logged as "no index", judged by C01Trace
                    back = [-1] * nd
                ev.append({"k": "i2p", "i": i, "ok": True, "r": [a for a, _ in pr], "exact": all(b for _, b in pr), "back": back})
            else:
                ev.append({"k": "i2p", "i": i, "ok": False, "r": [], "exact": True, "back": []})
        elif k < 0.9:
            d = rnd.randrange(nd)
            kind = rnd.choice(["cells", "vertices"])
            arr = getattr(mesh, kind)[d]
            pr = [lat.proj_coord(emb, x, cq, coords) for x in arr]
            ev.append({"k": kind, "d": d + 1, "r": [a for a, _ in pr], "exact": all(b for _, b in pr)})
        elif k < 0.88 and int(np.prod(m["n"])) <= 400:
            ev.append({"k": "iterate", "r": [[int(v) for v in i] for i in mesh.indices]})
        else:
            # (fine requests on long edges matter: a tolerance that grows with the number of cells along the edge - seeded
            # changes C01-1, C01-21 - only lets wrong cell sizes through from a few hundred cells per axis on)
            cr = [rnd.choice([m["c"][d], m["c"][d] * rnd.randrange(1, 4), 4 * rnd.randrange(1, 8), rnd.randrange(3, 30), rnd.randrange(1, 4)]) for d in range(nd)]
            try:
                m2 = df.Mesh(region=lat.region_of(df, m, emb, dims=names), cell=[emb.length(v) for v in cr])
                ev.append({"k": "by_cell", "cr": cr, "ok": True, "r": [int(v) for v in m2.n]})
            except Exception:
                ev.append({"k": "by_cell", "cr": cr, "ok": False, "r": []})
    # one deliberate fine request per mesh with a long edge: several hundred cells along that edge, once commensurate and once not
    long = [d for d in range(nd) if m["c"][d] * m["n"][d] >= 400]
    if long:
        d = rnd.choice(long)
        edge = m["c"][d] * m["n"][d]
        for want_ok in (True, False):
            cands = [k for k in (1, 2, 3, 5, 7, 9, 11) if (edge % k == 0) == want_ok and edge // k >= 100]
            if not cands:
                continue
            cr = list(m["c"])
            cr[d] = rnd.choice(cands)
            try:
                m2 = df.Mesh(region=lat.region_of(df, m, emb, dims=names), cell=[emb.length(v) for v in cr])
                ev.append({"k": "by_cell", "cr": cr, "ok": True, "r": [int(v) for v in m2.n]})
            except Exception:
                ev.append({"k": "by_cell", "cr": cr, "ok": False, "r": []})
    return {"id": tid, "dy": emb.dyadic, "emb": emb.name, "mesh": m, "n": [int(v) for v in mesh.n],
            "len": len(mesh), "flip": flip, "ev": ev}


def run_traces(ctx, df, ntraces, embs):
    rnd = random.Random(ctx.seed * 7919 + 1)
    traces = [gen_trace(df, rnd, t + 1, embs) for t in range(ntraces)]
    r, verdicts, _ = ctx.trace_check("C01Trace", "C01Trace.cfg", traces)
    expect = sum(len(t["ev"]) + 1 for t in traces)
    if r.distinct != expect:
        raise core._tlc.MachineryError(f"C01Trace consumed {r.distinct} states, expected {expect}")
    byid = {t["id"]: t for t in traces}
    for v in verdicts:
        _, tid, l, clause = v
        t = byid[tid]
        e = t["ev"][l - 1]
        ctx.violation(f"trace:{clause}/{e['k']}/{'dyadic' if t['dy'] else 'real'}",
                      f"recorded execution rejected by C01Trace: clause {clause}",
                      {"mesh": t["mesh"], "embedding": t["emb"], "flip": t["flip"], "event": e})
    ctx.traces += len(traces)
    ctx.evaluations += sum(len(t["ev"]) for t in traces)
    for t in traces:
        for e in t["ev"]:
            ctx.nontriv("T", t["id"], json.dumps(e, sort_keys=True))
    ctx.sample({"channel": "T", "trace": traces[0]})


def run(ctx):
    df = core.import_library()
    embs = _ctx_embs(ctx.tier, ctx.seed)
    # the unbounded integer core (spec/C01Core.tla): Apalache discharges the clauses about the index <-> point maps
    from .. import apalache
    apalache.run_stage(ctx, module="C01Core.tla", obligations=apalache.C01_OBLIGATIONS, claim=apalache.C01_CLAIM)
    r = ctx.model("MC_C01", f"C01_{ctx.tier}.cfg", dump=True)
    if r.ok:
        states = ctx.dump_states(r)
        if len(states) != r.distinct:
            raise core._tlc.MachineryError(f"dump has {len(states)} states, TLC reports {r.distinct}")
        work = [(s, e) for s in states for e in range(len(embs))]

        def chunk(items):
            part = Part()
            for st, ei in items:
                exec_state(df, st, embs[ei], part)
                part.trace()
            if items:
                part.sample({"channel": "R", "state": items[0][0], "embedding": embs[items[0][1]].name})
            return part

        ctx.pmap(chunk, work)
    run_traces(ctx, df, 1500 if ctx.tier == "quick" else 20000, embs)
    ctx.assumptions += [
        "TLC explores the bounded configuration space of spec/C01.tla completely (bounds in MC_C01.tla)",
        "dimension names and corner order per configuration are harness-level choices (harness/lat.py)",
        "on non-dyadic embeddings a probe on an inner face may land in either adjacent cell (DESIGN 5.2)",
    ]
    return core.finish(ctx, rule=RULE, extra={"embeddings": [e.name for e in embs]})


def replay(ctx, path):
    df = core.import_library()
    with open(path) as fh:
        rp = json.load(fh)
    w = rp["witness"]
    embs = {e.name: e for e in embed.DYADIC + embed.REAL + embed.seeded(rp.get("seed", ctx.seed), 2)}
    part = Part()
    if "event" in w:
        print("trace witness:", json.dumps(w)[:2000])
        return 1
    from ..tlaval import _freeze  # noqa
    st = {"mesh": w["mesh"], "moved": _tuplify(w.get("moved", [])), "act": _tuplify(w["act"]), "obs": _obs_back(w["expected"])}
    exec_state(df, st, embs[w["embedding"]], part)
    for k, what, wit in part["violations"]:
        print("still fails:", k, what)
    return 1 if part["violations"] else 0


def _tuplify(v):
    if isinstance(v, list):
        return tuple(_tuplify(x) for x in v)
    return v


def _obs_back(v):
    # JSON turned int keys into strings; restore for point2index_line tables
    if isinstance(v, dict):
        out = {}
        for k, x in v.items():
            try:
                kk = int(k)
            except (TypeError, ValueError):
                kk = k
            out[kk] = _obs_back(x)
        return out
    if isinstance(v, list):
        return tuple(_obs_back(x) for x in v)
    return v


def selftest(ctx):
    """corrupt one recorded result / one expected value: both must be rejected"""
    import copy
    df = core.import_library()
    embs = _ctx_embs("quick", ctx.seed)
    rnd = random.Random(99)
    traces = [gen_trace(df, rnd, t + 1, embs[:2]) for t in range(40)]
    _, v0, _ = ctx.trace_check("C01Trace", "C01Trace.cfg", traces)
    bad = copy.deepcopy(traces)
    hit = None
    for t in bad:
        for e in t["ev"]:
            if e["k"] == "p2i" and e["ok"]:
                e["r"][0] += 1
                hit = t["id"]
                break
        if hit:
            break
    _, v1, _ = ctx.trace_check("C01Trace", "C01Trace.cfg", bad)
    res = [("clean traces accepted by C01Trace", len(v0) == 0),
           ("trace with one altered index rejected by C01Trace", any(v[1] == hit for v in v1))]
    # spec -> code: alter the expected centre of one dumped state
    r = ctx.model("MC_C01", "C01_quick.cfg", dump=True, coverage=False)
    st = next(s for s in ctx.dump_states(r) if s["act"][0] == "cells")
    part = Part()
    exec_state(df, st, embs[0], part)
    clean = not part["violations"]
    st2 = dict(st, obs=tuple(v + (1 if j == 0 else 0) for j, v in enumerate(st["obs"])))
    part2 = Part()
    exec_state(df, st2, embs[0], part2)
    res += [("dumped state accepted by the replay", clean), ("dumped state with one altered expected value rejected", bool(part2["violations"]))]
    return res
