"""C09 - OVF files round-trip fields and follow the OVF 1.0/2.0 format; damaged binary files are rejected.

M: TLC exhaustive on spec/C09.tla (MC_C09 + C09_<tier>.cfg): a file is a token sequence Header o [Check] o Data o
   Footer; actions Write / ForeignWrite / Truncate / CorruptCheck / Read; invariants C09_*.
R: every dumped state is executed on the real library: Write states -> Field.to_file, bytes decoded by the
   independent reader harness/c09_ovf.py and compared with the state's tokens; Read states -> the file is produced
   (to_file, or the independent writer fed with the state's tokens), damaged as the state says (every byte offset
   of the state's truncation class, the state's check bit), Field.from_file, compared with the state's `obs`.
T: a seeded driver writes / reads / damages random larger fields and logs projected observations;
   spec/C09Trace.tla evaluates the clauses on the observations and compares with the spec's own operators.
"""
import json
import math
import os
import random
import re
import struct
import warnings

import numpy as np

from .. import core, embed, lat, fld as fldmod
from .. import c09_ovf as ovf
from ..core import Part

META = dict(
    level="model_checking",
    level_text=("Exhaustive TLC model checking of spec/C09.tla: an OVF file is modelled as the token sequence the format demands "
                "(header fields as lattice numbers, check value, data value-ids in x-fastest order, footer, side-car); actions Write, "
                "ForeignWrite (OVF 1.0/2.0 x text/bin4/bin8 x label styles), Truncate at and inside every token, CorruptCheck of every "
                "bit, Read; invariants C09_RoundTrip, C09_FileIsOVF2, C09_ReadsForeign, C09_DamagedBinaryRejected. Every TLC state is "
                "replayed on the real Field.to_file / Field.from_file with an independent OVF reader/writer as the foreign party and "
                "with byte-exact fault enumeration; seeded random executions are validated by TLC against spec/C09Trace.tla."),
    level_note=("Bounds: quick 72 fields (meshes to 3x2x2, 1-6 components, 11 label sets, units none/A/m/T/'J m-3', 0-2 subregions), thorough 226 "
                "fields (meshes to 4x3x2, 3 geometries, 0-3 subregions); faults on files of <= 6 data values: every byte offset from the "
                "start of the check value to the end of the data block and all 64/32 check bits. The spec names the relation between "
                "written and read values (Same / F32Round / Rel1e-9) and their order; the relation itself is evaluated by the harness "
                "on a fixed pool of extreme float64 values (DESIGN section 8). Truncated text files and truncation outside "
                "check+data are unconstrained. Trusted: TLC, harness/tlaval.py, harness/c09_ovf.py (independent OVF parser/writer), "
                "the embedding adapter."),
    technique="TLA+ token model of OVF files + TLC exhaustive; spec states replayed into code with an independent OVF reader/writer and byte-level fault injection; code traces validated by TLC (C09Trace.tla); Apalache on the header arithmetic for meshes of any size (C09Core.tla)",
    design_ref="DESIGN.md section 7 C09, section 8",
)

RULE = ("states: every field of the cfg's families x every write / foreign write / truncation class / check bit / read; a case is one "
        "(state, embedding) pair executed on the library (fault states additionally expand to every byte offset of their class); "
        "non-trivial = more than one cell or component, a fault, a subregion, or a foreign file; distinct by (state, embedding)")

NONE = "<none>"
_fi = np.finfo(np.float64)
POOL = [0.0, 1.0, -0.0, float(_fi.max), -float(_fi.max), float(_fi.tiny), 1.0 / 3.0, 1e-300, -2.5, 5e-324, 1e300,
        123456789012345.0, math.pi, 1234567.0, 3.4028234663852886e38, 1e-45, -1e150,
        # used by the random driver only
        -1.0 / 3.0, 0.1, 1e-6, 6.02e23, -1e-310, 2.0 ** -149, 2.0 ** -150, 3.4028235677973366e38, 65504.0, -7e-46, 1e39,
        16777217.0, 0.30000000000000004, -123.456e-9, 1e-9, 9007199254740993.0, -0.5, 2.0, 1e22, 1e23, -4.9e-324 * 3, 7.0, 1e-38]
assert len({struct.pack('<d', v) for v in POOL}) == len(POOL)


def _f32(w):
    """float64 -> nearest float32 -> float64 (IEEE round-to-nearest-even, overflow to +-inf)"""
    try:
        return struct.unpack("<f", struct.pack("<f", w))[0]
    except OverflowError:
        return math.inf if w > 0 else -math.inf


def _bits(x):
    return struct.pack("<d", float(x))


def rel_ok(rel, w, r):
    """does the read value r stand in relation `rel` to the written value w?  (DESIGN section 8: evaluated here)"""
    r = float(r)
    if rel == "Same":
        return _bits(w) == _bits(r)
    if rel == "F32Round":
        return _bits(_f32(w)) == _bits(r)
    if rel == "Rel1e-9":
        return math.isfinite(r) and abs(r - w) <= 1e-9 * abs(w)
    raise core._tlc.MachineryError(f"unknown relation {rel}")


def _slow_project(rel, r):
    for i in range(len(POOL)):
        if rel_ok(rel, POOL[i], r):
            return i
    return -1


_SAME = {_bits(v): i for i, v in enumerate(POOL)}
_F32 = {}
for _i, _v in enumerate(POOL):
    _F32.setdefault(_bits(_f32(_v)), _i)
_RELCLS = [_slow_project("Rel1e-9", v) for v in POOL]


def project_id(rel, r):
    """smallest pool id standing in relation rel to the observed value, -1 if none"""
    b = _bits(r)
    if rel == "Same":
        return _SAME.get(b, -1)
    if rel == "F32Round":
        return _F32.get(b, -1)
    i = _SAME.get(b)
    return _RELCLS[i] if i is not None else _slow_project(rel, r)


def classes(rel):
    """for every pool id the id an exact reader would be projected to (ids the relation cannot tell apart share one)"""
    return [project_id(rel, {"Same": POOL[i], "F32Round": _f32(POOL[i]), "Rel1e-9": POOL[i]}[rel]) for i in range(len(POOL))]


# ------------------------------------------------------------------ spec state -> library objects
def coords_of(f):
    return list(f["lo"]) + [f["lo"][d] + f["c"][d] * f["n"][d] for d in range(3)]


def build_field(df, f, emb, as_int=False):
    conv = (lambda q: int(emb.x(q))) if as_int else emb.x
    lo = [conv(q) for q in f["lo"]]
    hi = [conv(f["lo"][d] + f["c"][d] * f["n"][d]) for d in range(3)]
    region = df.Region(p1=lo, p2=hi, units=[f["munit"]] * 3)
    subs = {s["name"]: df.Region(p1=[conv(q) for q in s["lo"]], p2=[conv(q) for q in s["hi"]]) for s in f["subs"]}
    mesh = df.Mesh(region=region, n=tuple(int(v) for v in f["n"]), subregions=subs)
    mesh = lat.arrive_in_place(df, mesh, emb, sum(int(v) for v in f["n"]) * 5 + int(f["nv"]) + len(f["subs"]))
    arr = fldmod.unflatten([[POOL[i] for i in cell] for cell in f["vals"]], f["n"], dtype=np.float64)
    return df.Field(mesh, nvdim=int(f["nv"]), value=arr, vdims=list(f["labels"]) if f["nv"] > 1 else None,
                    unit=None if f["unit"] == NONE else f["unit"])


def label_tok(text):
    return {"p": "field", "l": text[6:]} if text.startswith("field_") else (
        {"p": "Magnetization", "l": text[14:]} if text.startswith("Magnetization_") else {"p": "", "l": text})


def label_text(tok):
    return f"{tok['p']}_{tok['l']}" if tok["p"] else tok["l"]


def observe_file(raw, f, emb, rel, sidecar=None):
    """bytes -> projected token record of the spec (through the independent reader)"""
    try:
        p = ovf.parse(raw, strict=False)
    except ovf.OvfFormatError as ex:
        return None, f"independent reader: {ex}"
    cq, co = max(f["c"]), coords_of(f)
    exact = True

    def vec(name, length=False):
        nonlocal exact
        out = []
        for k in "xyz":
            x = p["geom"].get(k + name)
            if x is None:
                out.append(0)
                continue
            q = (emb.len_q(x) if length else emb.q_of(x))
            r = round(q)
            if abs(q - r) > emb.tol_q(cq, tuple(co) + (r,)):
                exact = False
            out.append(int(r))
        return out

    hdr = {"meshunit": p["header"].get("meshunit", ""), "base": vec("base"), "step": vec("stepsize", True),
           "nodes": [int(v) for v in p["nodes"]], "min": vec("min"), "max": vec("max"), "valuedim": int(p["valuedim"]),
           "labels": [label_tok(t) for t in (p["labels"] or [])], "units": list(p["units"] or [])}
    if "xbase" not in p["header"]:
        hdr["base"] = [hdr["min"][d] + hdr["step"][d] // 2 for d in range(3)]  # minimal foreign files have no base lines
    check = "none" if p["repr"] == "txt" else ("ok" if p["check"] == ovf.CHECK[int(p["repr"][3])] else "bad")
    return {"ver": p["version"], "repr": p["repr"], "check": check, "hdr": hdr, "exact": exact, "conform": not p["problems"],
            "problems": p["problems"], "data": [project_id(rel, v) for v in p["values"]], "raw_values": p["values"],
            "offsets": p["offsets"], "side": sidecar if sidecar is not None else []}, None


def read_sidecar(path, f, emb):
    sp = str(path) + ".subregions.json"
    if not os.path.exists(sp):
        return []
    with open(sp) as fh:
        d = json.load(fh)
    cq, co = max(f["c"]), coords_of(f)
    out = []
    for name, r in d.items():
        out.append({"name": name, "lo": [_pq(emb, x, cq, co)[0] for x in r["pmin"]], "hi": [_pq(emb, x, cq, co)[0] for x in r["pmax"]]})
    return out


def _pq(emb, x, cq, co):
    q = emb.q_of(x)
    r = round(q)
    return int(r), abs(q - r) <= emb.tol_q(cq, tuple(co) + (r,))


def observe_field(g, f, emb, rel):
    """library field -> projected record (lattice integers, strings, ids)"""
    cq, co = max(f["c"]), coords_of(f)
    exact = True
    lo, hi = [], []
    for x in g.mesh.region.pmin:
        q, ok = _pq(emb, x, cq, co)
        lo.append(q)
        exact &= ok
    for x in g.mesh.region.pmax:
        q, ok = _pq(emb, x, cq, co)
        hi.append(q)
        exact &= ok
    subs = []
    for name, r in g.mesh.subregions.items():
        a = [_pq(emb, x, cq, co) for x in r.pmin]
        b = [_pq(emb, x, cq, co) for x in r.pmax]
        exact &= all(ok for _, ok in a + b)
        subs.append({"name": name, "lo": [q for q, _ in a], "hi": [q for q, _ in b]})
    units = set(g.mesh.region.units)
    flat = fldmod.flatten(g.array)
    return {"lo": lo, "hi": hi, "n": [int(v) for v in g.mesh.n], "munit": units.pop() if len(units) == 1 else "<mixed>",
            "nv": int(g.nvdim), "unit": NONE if g.unit is None else str(g.unit),
            "labels": [str(v) for v in g.vdims] if g.vdims is not None else [], "subs": subs, "rel": rel,
            "vals": [[project_id(rel, v) for v in cell] for cell in flat.tolist()]}, exact, flat


# ------------------------------------------------------------------ producing files
class Unbuildable(Exception):
    """the field of the state cannot be constructed under this embedding (not C09's business, e.g. D18)"""


OWN_EXT = [".ovf", ".omf", ".ohf"]
READ_EXT = [".ovf", ".omf", ".ohf", ".oef"]


def own_path(scratch, tag, f):
    return os.path.join(scratch, tag + OWN_EXT[(sum(f["n"]) + f["nv"]) % 3])


def write_own(df, f, emb, path, rep, ext, as_int=False, over=False):
    try:
        field = build_field(df, f, emb, as_int)
        if over:  # another field (same mesh, one subregion, other values) was written to this path before
            g = dict(f, subs=[{"name": "old", "lo": list(f["lo"]), "hi": coords_of(f)[3:]}], vals=[[1] * f["nv"]] * len(f["vals"]), unit="old")
            decoy = build_field(df, g, emb, as_int)
    except (NameError, ImportError, AttributeError, AssertionError) as ex:
        # not a refusal of the library: a fault of the harness itself must not be counted as "skipped"
        raise core._tlc.MachineryError(f"build_field failed inside the harness: {type(ex).__name__}: {ex}")
    except Exception as ex:
        raise Unbuildable(f"{type(ex).__name__}: {ex}")
    if over:
        with warnings.catch_warnings():
            warnings.simplefilter("ignore")
            decoy.to_file(path, representation="bin8")
    with warnings.catch_warnings():
        warnings.simplefilter("ignore")
        field.to_file(path, representation=rep, extend_scalar=bool(ext))
    return field


TXT_STYLES = ["single", "aligned", "trailing"]


def write_foreign(fl, f, emb, path):
    """the independent writer, fed with the specification's tokens (ids -> floats, lattice -> floats)"""
    _, ver, rep, style = fl["by"]
    h = fl["hdr"]
    vals = [POOL[i] for i in fl["data"]]
    if rep == "bin4":
        vals = [_f32(v) for v in vals]
    k = (sum(f["n"]) + f["nv"]) % 3
    return ovf.write(path, version=ver, rep=rep, meshunit=h["meshunit"], base=[emb.x(q) for q in h["base"]],
                     step=[emb.length(q) for q in h["step"]], nodes=list(h["nodes"]), pmin=[emb.x(q) for q in h["min"]],
                     pmax=[emb.x(q) for q in h["max"]], valuedim=h["valuedim"], values=vals,
                     labels=[label_text(t) for t in h["labels"]] if (ver == 2 and style != "minimal") else None,
                     units=list(h["units"]), minimal=style == "minimal", lower_data_line=style == "minimal",
                     txt_style=TXT_STYLES[k], title="Oxs_TimeDriver:evolver:Magnetization")


def _data_block(raw, ndata):
    m = re.search(rb"^#\s*begin\s*:\s*data[^\n]*\n", raw, re.I | re.M)
    mode = m.group(0).decode().lower().split()
    if "binary" not in mode:
        raise core._tlc.MachineryError("excise on a text file")
    nb = int(mode[-1])
    data_end = m.end() + nb + nb * ndata
    if raw[data_end:data_end + 1] != b"\n":
        raise core._tlc.MachineryError("binary data block does not end where the header says")
    return nb, data_end


def _fill(raw, data_end):
    """number of white-space bytes that follow the data block.  A hole of at most that many bytes is filled by them and the
    file reads `<complete block># End: Data`: a complete file in the layout without white space after the block (mumax3
    writes none), whose last value happens to end in these bytes -- not a damaged file, so not asked."""
    tail = raw[data_end:data_end + 16]
    return len(tail) - len(tail.lstrip())


def excised(raw, cut, ndata):
    """the files of the class `excise k inside`: the last k values of the binary data block (inside: and 1 .. nb-1 bytes of
    one more -- every such byte count) removed, footer kept.  A list of (offset, bytes)."""
    _, k, inside = cut
    nb, data_end = _data_block(raw, ndata)
    gones = [g for g in ([k * nb + j for j in range(1, nb)] if inside else [k * nb]) if g > _fill(raw, data_end)]
    if not gones or gones[-1] >= nb * ndata + (0 if inside else 1) or gones[0] < 1:
        raise core._tlc.MachineryError(f"excise class {cut} does not fit a block of {ndata} values")
    return [(data_end - g, raw[:data_end - g] + raw[data_end:]) for g in gones]


def excise_class(raw, gone, ndata):
    """the class of a hole of `gone` bytes at the end of the data block, and the damaged file"""
    nb, data_end = _data_block(raw, ndata)
    return ["excise", gone // nb, gone % nb != 0], data_end - gone, raw[:data_end - gone] + raw[data_end:]


def byte_offsets(raw, cut, ndata):
    """every byte offset that realises the spec's truncation class `cut` = (section, k, inside) on this file"""
    sec, k, inside = cut
    m = re.search(rb"^#\s*begin\s*:\s*data[^\n]*\n", raw, re.I | re.M)
    if not m:
        raise core._tlc.MachineryError("no Begin: Data line in a file to be damaged")
    b0, b1 = m.start(), m.end()
    mode = m.group(0).decode().lower().split()
    line_starts = [0] + [i + 1 for i in range(b0) if raw[i:i + 1] == b"\n"]
    line_starts = [s for s in line_starts if s < b0] or [0]
    if sec == "hdr":
        j = (k * len(line_starts)) // 4
        s = line_starts[j]
        e = line_starts[j + 1] if j + 1 < len(line_starts) else b0
        return [s + max(1, (e - s) // 2)] if inside else [s]
    if sec == "begin":
        return [b0 + (b1 - b0) // 2]
    if "binary" in mode:
        nb = int(mode[-1])
        nvals = ndata
        data_end = b1 + nb + nb * ndata  # position of the newline that ends the data block
        if raw[data_end:data_end + 1] != b"\n":
            raise core._tlc.MachineryError("binary data block does not end where the header says")
        if sec == "check":
            return list(range(b1 + 1, b1 + nb)) if inside else [b1]
        if sec == "data":
            s = b1 + nb + k * nb
            if k > nvals or (inside and k >= nvals):
                raise core._tlc.MachineryError("cut beyond the data block")
            return list(range(s + 1, s + nb)) if inside else [s]
        foot0 = data_end + 1
    else:
        toks = []  # (start, end) of every value token
        for mt in re.finditer(rb"[^\s]+", raw[b1:]):
            if mt.group(0).startswith(b"#"):
                break
            toks.append((b1 + mt.start(), b1 + mt.end()))
        if sec == "data":
            if k > len(toks) or (inside and k >= len(toks)):
                raise core._tlc.MachineryError("cut beyond the data block")
            if inside:
                s, e = toks[k]
                return list(range(s + 1, e)) or [s + 1]
            return [toks[k - 1][1] if k else b1]
        foot0 = raw.index(b"\n", toks[-1][1]) + 1 if toks else b1
    # footer: two lines
    f1 = raw.index(b"\n", foot0) + 1
    f2 = len(raw)
    if sec == "foot":
        s, e = (foot0, f1) if k == 0 else (f1, f2)
        return [s + (e - s) // 2] if inside else [s]
    raise core._tlc.MachineryError(f"unknown cut {cut}")


def try_read(df, path):
    try:
        with warnings.catch_warnings():
            warnings.simplefilter("ignore")
            return True, df.Field.from_file(path)
    except Exception as ex:  # "rejected" = any exception (soundness rule 3)
        return False, f"{type(ex).__name__}: {str(ex)[:160]}"


# ------------------------------------------------------------------ channel R
def unit_cond(u):
    return "none" if u == NONE else ("space" if " " in u else "str")


def file_cond(f, ext, rep):
    # (extend_scalar on a vector field used to be a failure class of its own; it is a no-op since fix 3066ef99,
    # so a failure of such a file is classified by its actual cause first)
    return "unit-space" if " " in f["unit"] else ("ext-vector" if (ext and f["nv"] > 1) else rep)


def cond_labels(f):
    return f["lclass"]


def raise_cond(f, ext, rep):
    return f"labels-{f['lclass']}/{rep}" if f["lclass"] != "plain" else ("ext-vector" if (ext and f["nv"] > 1) else f"labels-{f['lclass']}/{rep}")


def compare_record(part, clause, f, exp, got, gexact, flat, emb, wit, ext=False, rep="", over=False):
    """attribute-by-attribute comparison of the observed read-back record with the spec's obs.v"""
    key = lambda attr, cond: f"{clause}/{attr}/{cond}"
    dy = "dyadic" if emb.dyadic else "real"
    if not gexact or tuple(got["lo"]) != tuple(exp["lo"]) or tuple(got["hi"]) != tuple(exp["hi"]):
        part.violation(key("corners", dy), "region corners differ after reading the file", wit(got=got))
    if tuple(got["n"]) != tuple(exp["n"]):
        part.violation(key("n", dy), "cell counts differ after reading the file", wit(got=got["n"]))
    if got["munit"] != exp["munit"]:
        part.violation(key("meshunit", "any"), "mesh unit differs after reading the file", wit(got=got["munit"]))
    if got["nv"] != exp["nv"]:
        part.violation(key("nvdim", "ext" if ext else "plain"), "component count differs after reading the file", wit(got=got["nv"]))
    if exp["unit"]["j"] and got["unit"] != exp["unit"]["v"]:
        part.violation(key("unit", unit_cond(exp["unit"]["v"])),
                       "field unit differs after reading the file", wit(got=got["unit"], want=exp["unit"]["v"]))
    if exp["labels"]["j"] and tuple(got["labels"]) != tuple(exp["labels"]["v"]):
        part.violation(key("labels", cond_labels(f)), "component labels differ after reading the file",
                       wit(got=got["labels"], want=exp["labels"]["v"]))
    want_subs = [{"name": s["name"], "lo": list(s["lo"]), "hi": list(s["hi"])} for s in exp["subs"]]
    if got["subs"] != want_subs:
        part.violation(key("subregions", "stale-sidecar" if (over and not want_subs) else str(len(want_subs))),
                       "subregions differ after reading the file", wit(got=got["subs"]))
    if got["nv"] == exp["nv"] and tuple(got["n"]) == tuple(exp["n"]):
        bad = [(k, c, POOL[i], float(flat[k][c])) for k, cell in enumerate(exp["vals"]) for c, i in enumerate(cell)
               if not rel_ok(exp["rel"], POOL[i], flat[k][c])]
        if bad:
            part.violation(key("values", f"{rep}{'-ext' if ext else ''}"),
                           f"read values are not {exp['rel']} to the written ones (flat cell, component, written, read)", wit(bad=bad[:4]))


def exec_state(df, st, emb, part, scratch, tag):
    f, fl, act, obs = st["fld"], st["file"], st["act"], st["obs"]
    kind = act[0]
    if kind in ("new", "truncate", "corrupt", "foreign"):
        if kind == "foreign" and emb.name == "unit":  # self-check of the harness: writer and reader agree with the spec's tokens
            path = os.path.join(scratch, f"{tag}.ovf")
            write_foreign(fl, f, emb, path)
            with open(path, "rb") as fh:
                o, err = observe_file(fh.read(), f, emb, "F32Round" if fl["repr"] == "bin4" else "Same")
            if err or tuple(o["data"]) != tuple(classes("F32Round" if fl["repr"] == "bin4" else "Same")[i] for i in fl["data"]) \
                    or o["hdr"]["nodes"] != list(fl["hdr"]["nodes"]) or (o["problems"] and fl["by"][3] != "minimal"):
                raise core._tlc.MachineryError(f"independent writer/reader disagree with the specification's tokens: {err} {o}")
            part.count()
        return
    as_int = emb.name == "unit" and (sum(f["n"]) % 2 == 1)
    wit = lambda **kw: dict(state=st, embedding=emb.name, as_int=as_int, **kw)
    path = own_path(scratch, tag, f) if fl["by"][0] == "own" else os.path.join(scratch, tag + READ_EXT[(sum(f["n"]) + f["nv"]) % 4])
    for p in (path, path + ".subregions.json"):
        if os.path.exists(p):
            os.remove(p)
    part.count()
    if kind in ("write", "writeover"):
        _, rep, ext = act
        rel = {"bin8": "Same", "bin4": "F32Round", "txt": "Rel1e-9"}[rep]
        try:
            write_own(df, f, emb, path, rep, ext, as_int, over=fl.get("over", False))
        except Unbuildable:
            part.note("skipped:field-not-constructible-under-embedding")
            return
        except Exception as ex:
            part.violation(f"C09_FileIsOVF2/write-raises/{raise_cond(f, ext, rep)}", "Field.to_file raises on a valid field",
                           wit(exc=f"{type(ex).__name__}: {ex}"))
            return
        with open(path, "rb") as fh:
            raw = fh.read()
        o, err = observe_file(raw, f, emb, rel)
        cond = file_cond(f, ext, rep)
        if err or not o["conform"]:
            part.violation(f"C09_FileIsOVF2/format/{cond}", "an independent OVF reader does not accept the written file",
                           wit(problems=err or o["problems"]))
            return
        h, eh = o["hdr"], fl["hdr"]
        if o["ver"] != fl["ver"] or o["repr"] != fl["repr"] or o["check"] != fl["check"]:
            part.violation(f"C09_FileIsOVF2/version-repr-check/{cond}", "version, representation or check value differ", wit(got=o))
        dy = "dyadic" if emb.dyadic else "real"
        if not o["exact"] or any(tuple(h[k]) != tuple(eh[k]) for k in ("base", "step", "nodes", "min", "max")) or h["meshunit"] != eh["meshunit"]:
            part.violation(f"C09_FileIsOVF2/mesh/{dy}", "the header does not describe the field's mesh (base/stepsize/nodes/min/max/meshunit)",
                           wit(got=h, want=eh))
        if h["valuedim"] != eh["valuedim"] or len(h["labels"]) != len(eh["labels"]) or len(h["units"]) != len(eh["units"]):
            part.violation(f"C09_FileIsOVF2/valuedim/{cond}", "valuedim / number of labels / number of units differ", wit(got=h, want=eh))
        vals = o["raw_values"]
        if len(vals) != len(fl["data"]):
            part.violation(f"C09_FileIsOVF2/data-length/{cond}", "number of data values differs", wit(got=len(vals), want=len(fl["data"])))
        else:
            bad = [(k, POOL[i], vals[k]) for k, i in enumerate(fl["data"]) if not rel_ok(rel, POOL[i], vals[k])]
            if bad:
                part.violation(f"C09_FileIsOVF2/data/{cond}", f"file data are not the x-fastest sequence of the field's values under {rel} "
                               "(position, expected, found)", wit(bad=bad[:4]))
        if len(fl["data"]) > 1:
            part.nontriv(str(f), str(act), emb.name)
        return
    # ---- read states
    own = fl["by"][0] == "own"
    clause = "C09_RoundTrip" if own else "C09_ReadsForeign"
    rep = fl["repr"]
    ext = own and fl["by"][2]
    try:
        if own:
            write_own(df, f, emb, path, rep, ext, as_int, over=fl.get("over", False))
        else:
            write_foreign(fl, f, emb, path)
    except Unbuildable:
        part.note("skipped:field-not-constructible-under-embedding")
        return
    except Exception as ex:
        if own:
            part.violation(f"{clause}/write-raises/{raise_cond(f, ext, rep)}", "Field.to_file raises on a valid field",
                           wit(exc=f"{type(ex).__name__}: {ex}"))
            return
        raise
    intact = fl["cut"] == ("none", 0, False) and fl["check"] != "bad"
    if intact:
        ok, g = try_read(df, path)
        if obs["st"] != "ok":
            raise core._tlc.MachineryError("intact file with a non-ok expectation")
        if not ok:
            part.violation(f"{clause}/read-raises/{raise_cond(f, ext, rep)}", "Field.from_file raises on an undamaged file", wit(exc=g))
            return
        got, gexact, flat = observe_field(g, f, emb, obs["v"]["rel"])
        compare_record(part, clause, f, obs["v"], got, gexact, flat, emb, wit, ext=ext, rep=rep, over=fl.get("over", False))
        if len(fl["data"]) > 1 or not own or f["subs"]:
            part.nontriv(str(f), str(fl["by"]), emb.name)
        return
    # damaged file: every byte-level realisation of the spec's fault
    with open(path, "rb") as fh:
        raw = fh.read()
    variants = []
    if fl["check"] == "bad":
        m = re.search(rb"^#\s*begin\s*:\s*data[^\n]*\n", raw, re.I | re.M)
        b = bytearray(raw)
        b[m.end() + fl["bit"] // 8] ^= 1 << (fl["bit"] % 8)
        variants.append((f"bit{fl['bit']}", bytes(b)))
        fault = "check-bit"
    else:
        if fl["cut"][0] == "excise":
            variants.extend(excised(raw, fl["cut"], len(fl["data"])))
        else:
            for off in byte_offsets(raw, fl["cut"], len(fl["data"])):
                variants.append((off, raw[:off]))
        fault = f"truncate-{fl['cut'][0]}{'-inside' if fl['cut'][2] else ''}"
    dpath = os.path.join(scratch, f"{tag}_dmg.ovf")
    for where, data in variants:
        with open(dpath, "wb") as fh:
            fh.write(data)
        ok, g = try_read(df, dpath)
        part.count()
        part.note(f"fault:{fault}:{'accepted' if ok else 'rejected'}")
        if obs["st"] == "rej" and ok:
            part.violation(f"C09_DamagedBinaryRejected/{fault}/{rep}", "a damaged binary file (wrong check value or short data block) yields a field",
                           wit(where=where, length=len(data)))
    part.nontriv(str(f), str(fl["by"]), str(fl["cut"]), fl["bit"], emb.name)


# ------------------------------------------------------------------ channel T
ALNUM = "abcdefghijklmnopqrstuvwxyzABCDEFGHIJKLMNOPQRSTUVWXYZ0123456789"
RESERVED = set()  # attribute names of Field (filled in run): not usable as component labels


def rnd_labels(rnd, nv, reserved):
    if nv == 1:
        return [], "scalar"
    r = rnd.random()
    if r < 0.2:
        cls, mk = "plain", lambda: rnd.choice("abcdefghpqrsuvwxyz")
    elif r < 0.7:
        cls, mk = "multi", lambda: "".join(rnd.choice(ALNUM) for _ in range(rnd.randrange(2, 5)))
    elif r < 0.87:
        cls, mk = "under", lambda: rnd.choice(["m", "ft", "B", "q0"]) + "_" + "".join(rnd.choice(ALNUM) for _ in range(rnd.randrange(1, 3)))
    elif r < 0.9:
        cls, mk = "reserved", lambda: rnd.choice(["m", "B"]) + "_" + rnd.choice(["mean", "hv", "norm", "mesh", "x", "y", "z", "q"])
    else:
        cls, mk = "nonword", lambda: rnd.choice("abc") + rnd.choice("-.+") + rnd.choice(ALNUM)
    out = []
    while len(out) < nv:
        s = mk()
        # (a suffix that is a Field attribute makes a foreign file unreadable: that is the separate class "reserved")
        if s not in out and s not in reserved and (cls != "under" or s.split("_", 1)[1] not in reserved):
            out.append(s)
    if cls == "reserved" and not any(s.split("_", 1)[1] in reserved for s in out):
        cls = "under"
    return out, cls


def gen_trace(df, rnd, tid, embs, scratch):
    n = [rnd.randrange(1, 7), rnd.randrange(1, 6), rnd.randrange(1, 5)]
    g = {"lo": [4 * rnd.randrange(-50, 50) for _ in range(3)], "c": [4 * rnd.randrange(1, 6) for _ in range(3)]}
    nv = rnd.choice([1, 1, 2, 3, 3, 3, 4, 5, 6])
    labels, lclass = rnd_labels(rnd, nv, RESERVED)
    ncell = n[0] * n[1] * n[2]
    f = {"lo": g["lo"], "c": g["c"], "n": n, "nv": nv, "labels": labels, "lclass": lclass,
         "unit": rnd.choice([NONE, "A/m", "T", "J/m^3", "rad", "1", "J m-3"]), "munit": rnd.choice(["m", "nm", "um"]),
         "vals": [[rnd.randrange(len(POOL)) for _ in range(nv)] for _ in range(ncell)], "subs": []}
    for k in range(rnd.choice([0, 0, 1, 2, 3])):
        a = [sorted(rnd.sample(range(n[d] + 1), 2)) for d in range(3)]
        f["subs"].append({"name": rnd.choice(["s", "zone", "A", "b_"]) + str(k),
                          "lo": [g["lo"][d] + g["c"][d] * a[d][0] for d in range(3)], "hi": [g["lo"][d] + g["c"][d] * a[d][1] for d in range(3)]})
    emb = rnd.choice(embs)
    ev = []
    path = os.path.join(scratch, f"t{tid}{rnd.choice(OWN_EXT)}")
    small = ncell * nv <= 60
    for step in range(rnd.randrange(1, 4)):
        for p in (path, path + ".subregions.json"):
            if os.path.exists(p):
                os.remove(p)
        rep = rnd.choice(["bin8", "bin4", "txt"])
        rel = {"bin8": "Same", "bin4": "F32Round", "txt": "Rel1e-9"}[rep]
        if rnd.random() < 0.6:
            ext = rnd.random() < 0.3
            over = (not ext) and rnd.random() < 0.25
            try:
                write_own(df, f, emb, path, rep, ext, over=over)
            except Unbuildable:
                f["subs"] = []  # e.g. D18: subregions "not aligned" at this scale; C14's business
                continue
            except Exception as ex:
                ev.append({"k": "write", "repr": rep, "ext": ext, "over": over, "ok": False, "exc": type(ex).__name__})
                continue
            with open(path, "rb") as fh:
                raw = fh.read()
            o, err = observe_file(raw, f, emb, rel, read_sidecar(path, f, emb))
            if err:
                ev.append({"k": "write", "repr": rep, "ext": ext, "over": over, "ok": True,
                           "file": {"conform": False, "exact": False, "ver": 0, "repr": rep, "check": "none", "data": [], "side": [],
                                    "hdr": {"meshunit": "", "base": [0] * 3, "step": [4] * 3, "nodes": [0] * 3, "min": [0] * 3, "max": [0] * 3,
                                            "valuedim": 0, "labels": [], "units": []}}, "err": err})
                continue
            ev.append({"k": "write", "repr": rep, "ext": ext, "over": over, "ok": True, "file": _logfile(o)})
        else:
            ver = rnd.choice([1, 2]) if nv == 3 else 2
            style = "plain" if ver == 1 else rnd.choice(["plain", "minimal"] + (["prefixed"] if lclass in ("plain", "multi") else []))
            # the foreign party: knows the format on its own (x fastest, components adjacent)
            arr = fldmod.unflatten(f["vals"], n)
            data = [int(v) for v in arr.transpose(2, 1, 0, 3).reshape(-1)]
            lab = [] if (ver == 1 or style == "minimal") else [{"p": "" if style == "plain" else "Magnetization", "l": s} for s in (labels or ["x"])]
            units = ["1" if f["unit"] == NONE else f["unit"]] if ver == 1 else (
                [] if (style == "minimal" or f["unit"] == NONE) else ([f["unit"]] if style == "prefixed" else [f["unit"]] * nv))
            fl = {"by": ("foreign", ver, rep, style), "data": data,
                  "hdr": {"meshunit": f["munit"], "base": [g["lo"][d] + g["c"][d] // 2 for d in range(3)], "step": g["c"], "nodes": n,
                          "min": g["lo"], "max": [g["lo"][d] + g["c"][d] * n[d] for d in range(3)], "valuedim": nv, "labels": lab, "units": units}}
            write_foreign(fl, f, emb, path)
            with open(path, "rb") as fh:
                raw = fh.read()
            o, err = observe_file(raw, f, emb, rel)
            if err:
                raise core._tlc.MachineryError(f"independent reader rejects the independent writer's file: {err}")
            ev.append({"k": "foreign", "ver": ver, "repr": rep, "style": style, "file": _logfile(o)})
        ok, got = try_read(df, path)
        if ok:
            rec, gexact, _ = observe_field(got, f, emb, rel)
            ev.append({"k": "read", "ok": True, "exact": bool(gexact), "v": rec})
        else:
            ev.append({"k": "read", "ok": False, "exact": True, "exc": re.sub(r"[^A-Za-z0-9 _:.=-]", "", got)[:120]})
        # faults on the file just written
        ndata = len(o["data"])
        nfaults = rnd.randrange(0, 4) if small else rnd.randrange(0, 2)
        for _ in range(nfaults if o["conform"] or ev[-2]["k"] == "foreign" else 0):
            dpath = path + ".dmg.ovf"
            if rep != "txt" and rnd.random() < 0.3:
                bit = rnd.randrange(64 if rep == "bin8" else 32)
                b = bytearray(raw)
                b[o["offsets"]["check"] + bit // 8] ^= 1 << (bit % 8)
                with open(dpath, "wb") as fh:
                    fh.write(bytes(b))
                okd, _ = try_read(df, dpath)
                ev.append({"k": "corrupt", "bit": bit, "out": "ok" if okd else "rej"})
            else:
                secs = ["hdr", "begin", "data", "data", "data", "foot"] + (["check", "excise", "excise"] if rep != "txt" else [])
                sec = rnd.choice(secs)
                inside = rnd.random() < 0.5
                if sec == "excise" and ndata >= 2:
                    # bytes missing at the end of the data block, footer kept (not a truncation); half of the holes are
                    # about as long as what follows the block, where a reader that counts bytes is back in step at the end
                    nb, data_end = _data_block(raw, ndata)
                    tail = len(raw) - data_end
                    most = nb * ndata - 1
                    gone = rnd.choice([tail - 2, tail - 1, tail, tail + 1]) if rnd.random() < 0.5 else rnd.randrange(1, min(most, 4 * tail) + 1)
                    gone = max(1 + _fill(raw, data_end), min(gone, most))
                    cut, off, data = excise_class(raw, gone, ndata)
                    with open(dpath, "wb") as fh:
                        fh.write(data)
                    okd, _ = try_read(df, dpath)
                    ev.append({"k": "truncate", "cut": cut, "off": off, "gone": gone, "out": "ok" if okd else "rej"})
                    continue
                if sec == "excise":
                    sec = "data"
                if sec == "hdr":
                    cut = ["hdr", rnd.randrange(4), inside]
                elif sec == "begin":
                    cut = ["begin", 0, True]
                elif sec == "check":
                    cut = ["check", 0, inside]
                elif sec == "data":
                    k = rnd.choice([0, ndata, ndata - 1, rnd.randrange(ndata + 1)])
                    if inside and k >= ndata:
                        k = ndata - 1
                    cut = ["data", max(k, 0), inside]
                else:
                    cut = ["foot", rnd.randrange(2), inside]
                offs = byte_offsets(raw, tuple(cut), ndata)
                off = rnd.choice(offs)
                with open(dpath, "wb") as fh:
                    fh.write(raw[:off])
                okd, _ = try_read(df, dpath)
                ev.append({"k": "truncate", "cut": cut, "off": off, "out": "ok" if okd else "rej"})
    return {"id": tid, "emb": emb.name, "dy": emb.dyadic, "fld": f, "ev": ev,
            "cls": {r: classes(r) for r in ("Same", "F32Round", "Rel1e-9")}}


def _logfile(o):
    return {"ver": o["ver"], "repr": o["repr"], "check": o["check"], "hdr": o["hdr"], "exact": bool(o["exact"]),
            "conform": bool(o["conform"]), "data": o["data"], "side": o["side"]}


_ATTR = {"corners-n": "corners", "meshunit": "meshunit", "nvdim": "nvdim", "unit": "unit", "labels": "labels",
         "subregions": "subregions", "values": "values", "read-raises": "read-raises", "write-raises": "write-raises"}


def trace_key(t, l, name):
    """canonical key of a verdict: same shape as the keys of channel R, prefixed with trace:"""
    f = t["fld"]
    ev = t["ev"][l - 1]
    if not name.startswith("C09_"):
        return None
    clause, attr = name.split(":", 1)
    # provenance of the file the event refers to
    w = next(e for e in reversed(t["ev"][:l]) if e["k"] in ("write", "foreign"))
    rep = w["repr"]
    ext = bool(w.get("ext", False))
    if attr in ("read-raises", "write-raises"):
        cond = raise_cond(f, ext, rep)
    elif attr == "unit":
        cond = unit_cond(f["unit"])
    elif attr == "labels":
        cond = f["lclass"]
    elif attr == "values" or attr == "data":
        cond = f"{rep}{'-ext' if ext else ''}" if attr == "values" else ("ext-vector" if ext and f["nv"] > 1 else rep)
    elif attr == "nvdim":
        cond = "ext" if ext else "plain"
    elif attr in ("format", "struct"):
        cond = file_cond(f, ext, rep)
    elif attr == "subregions":
        cond = "stale-sidecar" if (w.get("over") and not f["subs"]) else str(len(f["subs"]))
    elif clause == "C09_DamagedBinaryRejected":
        cut = ev.get("cut")
        attr = "check-bit" if ev["k"] == "corrupt" else f"truncate-{cut[0]}{'-inside' if cut[2] else ''}"
        cond = rep
    else:
        cond = "dyadic" if t["dy"] else "real"
    return f"trace:{clause}/{_ATTR.get(attr, attr)}/{cond}"


def run_traces(ctx, df, ntraces, embs):
    seeds = [ctx.seed * 104729 + 17 * k for k in range(ntraces)]
    out = []

    def chunk(items):
        part = Part()
        for tid, s in items:
            rnd = random.Random(s)
            part.setdefault("tr", []).append(gen_trace(df, rnd, tid, embs, ctx.scratch))
        return part

    # traces are generated in the worker pool; Part is a dict, so the traces travel with it
    collected = []
    orig_merge = ctx.merge

    def merge(part):
        collected.extend(part.get("tr", ()))
        orig_merge(part)

    ctx.merge = merge
    try:
        ctx.pmap(chunk, [(k + 1, s) for k, s in enumerate(seeds)])
    finally:
        ctx.merge = orig_merge
    traces = sorted(collected, key=lambda t: t["id"])
    if len(traces) != ntraces:
        raise core._tlc.MachineryError(f"{len(traces)} traces generated, {ntraces} expected")
    r, verdicts, _ = ctx.trace_check("C09Trace", "C09Trace.cfg", traces)
    expect = sum(len(t["ev"]) + 1 for t in traces)
    if r.distinct != expect:
        raise core._tlc.MachineryError(f"C09Trace consumed {r.distinct} states, expected {expect}")
    byid = {t["id"]: t for t in traces}
    for v in verdicts:
        _, tid, l, name = v
        t = byid[tid]
        key = trace_key(t, l, name)
        if key is None:  # harness:* and spec:* verdicts are the machinery's own consistency
            raise core._tlc.MachineryError(f"C09Trace self-consistency verdict {name} on trace {tid} event {l}: {json.dumps(t['ev'][l - 1])[:600]}")
        ctx.violation(key, f"recorded execution rejected by C09Trace: {name}",
                      {"field": {k: t["fld"][k] for k in t["fld"] if k != "vals"}, "embedding": t["emb"], "event": _short(t["ev"][l - 1]),
                       "after": _short(next((e for e in reversed(t["ev"][:l - 1]) if e["k"] in ("write", "foreign")), {}))})
    ctx.traces += len(traces)
    nev = sum(len(t["ev"]) for t in traces)
    ctx.evaluations += nev
    for t in traces:
        for e in t["ev"]:
            ctx.nontriv("T", t["id"], json.dumps(e, sort_keys=True)[:400])
    ctx.notes["trace_events"] = nev
    for t in traces:
        for e in t["ev"]:
            if e["k"] in ("truncate", "corrupt"):
                ctx.notes[f"T:fault:{e['k']}:{e['out']}"] = ctx.notes.get(f"T:fault:{e['k']}:{e['out']}", 0) + 1
    ctx.sample({"channel": "T", "trace": {k: (v if k != "ev" else [_short(e) for e in v[:3]]) for k, v in traces[0].items() if k != "cls"}})


def _short(e):
    e = dict(e)
    for k in ("file", "v"):
        if k in e:
            d = dict(e[k])
            for kk in ("data", "vals"):
                if kk in d and len(d[kk]) > 24:
                    d[kk] = list(d[kk][:24]) + ["..."]
            e[k] = d
    return e


# ------------------------------------------------------------------ entry points
def embeddings(tier, seed):
    if tier == "quick":
        return [embed.DYADIC[0], embed.REAL[0], embed.REAL[2]] + embed.seeded(seed, 1)
    return embed.for_tier(tier, seed)


def run(ctx):
    df = core.import_library()
    # the integer core (spec/C09Core.tla): Apalache discharges the header arithmetic for meshes of any size
    from .. import apalache
    apalache.run_stage(ctx, module="C09Core.tla", obligations=apalache.C09_OBLIGATIONS, claim=apalache.C09_CLAIM)
    embs = embeddings(ctx.tier, ctx.seed)
    RESERVED.update(dir(df.Field))
    r = ctx.model("MC_C09", f"C09_{ctx.tier}.cfg", dump=True)
    if r.ok:
        states = ctx.dump_states(r)
        if len(states) != r.distinct:
            raise core._tlc.MachineryError(f"dump has {len(states)} states, TLC reports {r.distinct}")
        nrej = sum(1 for s in states if s["act"][0] == "read" and s["obs"]["st"] == "rej")
        nok = sum(1 for s in states if s["act"][0] == "read" and s["obs"]["st"] == "ok")
        if not nrej or not nok:
            raise core._tlc.MachineryError("vacuous model: no rejected or no accepted read state")
        ctx.notes["read_states_rej"], ctx.notes["read_states_ok"] = nrej, nok
        work = []
        for k, s in enumerate(states):
            damaged = s["act"][0] == "read" and (s["file"]["cut"] != ("none", 0, False) or s["file"]["check"] == "bad")
            for e in range(len(embs)):
                if (damaged or s["act"][0] == "foreign") and e != 0:
                    continue  # geometry is irrelevant for faults: one embedding
                work.append((k, e))
        rnd = random.Random(ctx.seed)
        rnd.shuffle(work)  # spread the expensive fault states over the workers

        def chunk(items):
            part = Part()
            for k, ei in items:
                exec_state(df, states[k], embs[ei], part, ctx.scratch, f"r{os.getpid()}")
                if states[k]["act"][0] in ("write", "read"):
                    part.trace()
            if items:
                part.sample({"channel": "R", "state": {kk: vv for kk, vv in states[items[0][0]].items()}, "embedding": embs[items[0][1]].name})
            return part

        ctx.pmap(chunk, work)
    run_traces(ctx, df, 300 if ctx.tier == "quick" else 4000, embs)
    ctx.assumptions += [
        "TLC explores the bounded space of spec/C09.tla completely (field families in MC_C09.tla)",
        "value ids are interpreted by the harness as a fixed pool of extreme float64 values; the relation Same/F32Round/Rel1e-9 "
        "is evaluated by the harness (DESIGN section 8)",
        "the independent OVF reader/writer harness/c09_ovf.py is correct (cross-checked against the repository's sample files)",
        "truncation of text files and truncation outside check value + data block are not constrained by the property",
    ]
    core.df_stage(ctx, df)   # mixed histories (spec/DF.tla): the clauses that come from this property's text
    return core.finish(ctx, rule=RULE, extra={"embeddings": [e.name for e in embs], "pool": [repr(v) for v in POOL]})


def _tuplify(v):
    if isinstance(v, list):
        return tuple(_tuplify(x) for x in v)
    if isinstance(v, dict):
        return {k: _tuplify(x) for k, x in v.items()}
    return v


def replay(ctx, path):
    df = core.import_library()
    with open(path) as fh:
        rp = json.load(fh)
    w = rp["witness"]
    if "state" not in w:
        print("trace witness (re-run the check with the same VERIF_SEED to reproduce):", json.dumps(w)[:3000])
        return 1
    embs = {e.name: e for e in embed.DYADIC + embed.REAL + embed.seeded(rp.get("seed", ctx.seed), 2)}
    part = Part()
    exec_state(df, _tuplify(w["state"]), embs[w["embedding"]], part, ctx.scratch, "replay")
    for k, what, _ in part["violations"]:
        print("still fails:", k, what)
    return 1 if part["violations"] else 0
