"""C19 - topological (and demagnetisation) tools obey their physical invariances.

M: TLC exhaustive on spec/C19.tla (MC_C19 + C19_<tier>.cfg): octahedral textures (6 axis directions / 8 body
   diagonals) with masks; Berg-Luescher charge (solid angles as integers), continuous charge (stencil numerators),
   the symmetry machine (RotateVectors, RescaleLengths, ScaleMesh, TranslateMesh, Rotate90Sample, Reverse) with the
   law charge' = +-charge as an action property; neighbour angles, emergent field, Bloch-point count of the discrete
   hedgehog, refusals.
R: every dumped state is rebuilt in the real library (float embeddings, anisotropic cells) and every observation
   compared; symmetry transitions are additionally re-executed through the library's own operations from the
   predecessor texture.
T: (a) symmetry histories on arbitrary float textures (skyrmion-like, random, masked): observed charges quantised and
   the law checked by TLC along the history (spec/C19Trace.tla); (b) larger random octahedral textures whose charges
   TLC recomputes from the logged texture.
Axiom replay (NOT model-checked, labelled in the evidence): demagnetisation tensor |trace| = 1 and cuboid mean field
   on cubic cells; continuous hedgehog = one Bloch point.
"""
import ast
import json
import math
import random
from fractions import Fraction as Fr

import numpy as np

from .. import core, embed, lat
from .. import fld as fldmod
from ..core import Part

META = dict(
    level="model_checking",
    level_text=("Exhaustive TLC model checking of spec/C19.tla on octahedral textures (axis / body-diagonal unit vectors, validity "
                "masks, anisotropic cells): Berg-Luescher charge with integer solid angles (triangle enumeration and triangle_count "
                "weighting transcribed), continuous charge through the run-restricted stencils with explicit denominators, and the "
                "symmetry machine RotateVectors(24 cube rotations) / RescaleLengths / ScaleMesh / TranslateMesh / Rotate90Sample / "
                "Reverse with charge' = +-charge as action property C19_Symmetry; C19_UniformIsZero, C19_BLIntegerOnWrapping, "
                "C19_NeighbourAngle, C19_HedgehogOneBlochPoint (discrete 2x2x2 hedgehog, rounding decided with certified enclosures of "
                "pi), C19_EmergentUniformZero, refusals. Every TLC state is replayed on the real tools; symmetry histories on arbitrary "
                "float textures and larger random octahedral textures are validated by TLC (C19Trace.tla)."),
    level_note=("Bounds: quick 2x2..5x5 textures (~350 initial textures, one symmetry step), thorough ~3000 initial textures plus "
                "3-step histories on a small set; 3-d textures 2x2x2..3x3x2. Not decided by the spec (DESIGN 8): demagnetisation tensor "
                "trace / two implementations / cuboid mean field and 'hedgehog = one Bloch point' for continuous textures - the harness "
                "adds numeric 'axiom replay' assertions for |trace|=1 (cubic cells), the cuboid mean field and the continuous hedgehog, "
                "labelled as such and never counted as model-checked; the second tensor implementation is private and not called. "
                "Angles are compared through their cosine (arccos is not modelled). Trusted: TLC, harness/tlaval.py, the embedding "
                "adapter, float arithmetic being exact on axis-direction unit vectors."),
    technique="TLA+ octahedral-texture model with a symmetry machine (C19.tla) + TLC exhaustive incl. an action property; spec states replayed into code; code traces validated by TLC (C19Trace.tla)",
    design_ref="DESIGN.md section 7 C19",
)

RULE = ("states: every reachable (texture, last operation) of C19.tla within the cfg bounds; a case is one (state, embedding, "
        "construction variant); non-trivial = the state carries a non-zero charge, a mask, a non-trivial angle table or a "
        "Bloch-point / refusal observation; distinct by (texture, act, embedding, variant)")

S3 = 1.0 / math.sqrt(3.0)
SYM_OPS = ("rotate_vectors", "rescale_lengths", "scale_mesh", "translate_mesh", "rotate90_sample", "reverse")


def dims_for(nd):
    return ("x", "y", "z")[:nd]


def tex_array(t):
    n = tuple(t["n"])
    arr = fldmod.unflatten(t["dirs"], n, dtype=float)
    lens = np.array(t["lens"], dtype=float).reshape(n, order="F")
    return arr * lens[..., None]


def build(df, t, emb, variant=0):
    """the field of texture t; 2-d textures either through sel('z') of a one-layer 3-d field or directly"""
    n = tuple(t["n"])
    nd = len(n)
    nv = t["nv"]
    arr = tex_array(t)
    valid = fldmod.unflatten_mask(t["valid"], n)
    m = {"lo": list(t["lo"]), "c": list(t["c"]), "n": list(t["n"])}
    if nd == 2 and nv == 3 and variant % 2 == 0:
        m3 = {"lo": m["lo"] + [3], "c": m["c"] + [5], "n": m["n"] + [1]}
        mesh = lat.mesh_of(df, m3, emb, dims=("x", "y", "z"))
        f3 = df.Field(mesh, nvdim=3, value=arr[:, :, None, :], valid=valid[:, :, None])
        return fldmod.lived(f3.sel("z"), sum(n) + nv + variant)
    mesh = lat.mesh_of(df, m, emb, dims=dims_for(nd))
    kw = {}
    if nd == 2 and nv == 3:
        kw["vdim_mapping"] = {"x": "x", "y": "y", "z": None}
    # the texture has a past (derived fields used, values written in place with reads in between, mesh moved away and back)
    return fldmod.lived(df.Field(mesh, nvdim=nv, value=arr, valid=valid, **kw), sum(n) + nv + variant)


def s3_of(t):
    return 1.0 if t["alpha"] == "A" else S3 ** 3


def charges(dft, f):
    return (float(dft.topological_charge(f, method="berg-luescher")), float(dft.topological_charge(f, method="continuous")))


def check_charges(part, key, wit, t, obs, got, how):
    bl, cont = got
    U = 8 if t["alpha"] == "A" else 24
    want_bl = obs["bl"] / (6.0 * U)
    want_cont = obs["cont"] * s3_of(t) / (16 * math.pi)
    degen = bool(obs.get("degen")) and t["alpha"] == "D"
    if not (abs(bl - want_bl) <= 1e-9):
        cond = "antiparallel-diag" if degen else ("masked" if not all(t["valid"]) else "plain")
        part.violation(key("C19_BLCharge", f"{how}/{cond}"),
                       "Berg-Luescher charge differs from the triangle sum of the specification", wit(got=bl, want=want_bl))
    if not (abs(cont - want_cont) <= 1e-9 * max(1.0, abs(want_cont))):
        cond = "masked" if not all(t["valid"]) else "plain"
        part.violation(key("C19_ContinuousCharge", f"{how}/{cond}"),
                       "continuous charge differs from the stencil sum of the specification", wit(got=cont, want=want_cont))
    if obs.get("wrap") and not (abs(bl - round(bl)) <= 1e-9):
        part.violation(key("C19_BLIntegerOnWrapping", how), "Berg-Luescher charge of a wrapping texture is not an integer", wit(got=bl))


def check_density(part, key, wit, dft, t, obs, f, emb):
    """per-cell densities of both methods against the specification's per-cell integers"""
    U = 8 if t["alpha"] == "A" else 24
    hx, hy = emb.length(t["c"][0]), emb.length(t["c"][1])
    degen = bool(obs.get("degen")) and t["alpha"] == "D"
    qb = fldmod.flatten(dft.topological_charge_density(f, method="berg-luescher").array)[:, 0]
    qc = fldmod.flatten(dft.topological_charge_density(f, method="continuous").array)[:, 0]
    area = 0.5 * hx * hy
    for k in range(len(obs["blc"])):
        want = obs["blc"][k] / (12.0 * U * area)
        if not abs(qb[k] - want) <= 1e-9 / area:
            if not degen:
                part.violation(key("C19_BLDensity", "masked" if not all(t["valid"]) else "plain"),
                               "Berg-Luescher density of a cell differs from its weighted triangle sum", wit(cell=k, got=float(qb[k]), want=want))
            break
    for k in range(len(obs["contc"])):
        want = obs["contc"][k] * s3_of(t) / (16 * math.pi * hx * hy)
        if not abs(qc[k] - want) <= 1e-9 / (hx * hy):
            part.violation(key("C19_ContinuousDensity", "masked" if not all(t["valid"]) else "plain"),
                           "continuous density of a cell differs from n.(dx n x dy n)/4pi with the specification's stencils", wit(cell=k, got=float(qc[k]), want=want))
            break
    part.count(2)


def exec_state(df, dft, st, emb, variant, part):
    """a tool that raises on a field it must accept violates the property (it is not a machinery error)"""
    try:
        _exec_state(df, dft, st, emb, variant, part)
    except core._tlc.MachineryError:
        raise
    except Exception as ex:
        import traceback

        tb = traceback.extract_tb(ex.__traceback__)
        inlib = any("discretisedfield" in fr.filename for fr in tb)
        if not inlib:
            raise
        t, act = st["tex"], st["act"]
        proper = t["nv"] == 3
        if not proper:
            raise
        part.violation(f"C19_Tools/{act[0]}/raises", f"a tool raised {type(ex).__name__} on a field it must accept",
                       dict(tex=t, act=act, embedding=emb.name, exc=repr(ex), where=f"{tb[-1].filename}:{tb[-1].lineno}"))


def _exec_state(df, dft, st, emb, variant, part):
    t, prev, act, obs = st["tex"], st["prev"], st["act"], st["obs"]
    kind = act[0]
    key = lambda clause, what: f"{clause}/{what}"
    wit = lambda **kw: dict(tex={k: v for k, v in t.items()}, act=act, embedding=emb.name, variant=variant, **kw)
    part.count()
    nd = len(t["n"])
    dims = dims_for(nd)
    f = build(df, t, emb, variant)
    if kind == "refusals":
        calls = {
            "charge": lambda: dft.topological_charge(f),
            "density": lambda: dft.topological_charge_density(f, method="berg-luescher"),
            "emergent": lambda: dft.emergent_magnetic_field(f),
            "bps": lambda: dft.count_bps(f, direction=dims[0]),
            "angle": lambda: dft.neighbouring_cell_angle(f, direction=dims[0]),
        }
        for name, fn in calls.items():
            try:
                fn()
                accepted = True
            except Exception:
                accepted = False
            if accepted and not obs[name]:
                why = "nvdim" if t["nv"] != 3 else "ndim"
                part.violation(key("C19_Refusals", f"{name}/{why}"), f"{name}: a field of the wrong component or spatial dimension was not refused", wit())
            if not accepted and obs[name]:
                part.violation(key("C19_Refusals", f"{name}/accepts"), f"{name}: a proper field was refused", wit())
            part.count()
        part.nontriv("refusals", t["nv"], nd, emb.name)
        return
    if kind == "angle":
        d = act[1] - 1
        g = dft.neighbouring_cell_angle(f, direction=dims[d])
        if tuple(int(v) for v in g.mesh.n) != tuple(obs["n"]) or g.nvdim != 1:
            part.violation(key("C19_NeighbourAngle", "mesh"), "the angle field is not on a mesh one cell shorter in that direction", wit(got_n=g.mesh.n))
            return
        cq = max(t["c"])
        for e in range(nd):
            if not (emb.close(g.mesh.region.pmin[e], Fr(obs["lo2"][e], 2), cq, t["lo"]) and emb.close(g.mesh.region.pmax[e], Fr(obs["hi2"][e], 2), cq, t["lo"])):
                part.violation(key("C19_NeighbourAngle", "region"), "the angle mesh is not the original shortened by half a cell at both ends", wit(pmin=g.mesh.region.pmin, pmax=g.mesh.region.pmax))
                break
        vals = fldmod.flatten(g.array)[:, 0]
        for k, c in enumerate(obs["cos"]):
            v = float(vals[k])
            if not (0.0 <= v <= math.pi):
                part.violation(key("C19_NeighbourAngle", "range"), "angle outside [0, pi]", wit(cell=k, got=v))
                break
            if abs(math.cos(v) - c[0] / c[1]) > 1e-9:
                part.violation(key("C19_NeighbourAngle", "value"), "angle is not the angle between the two unit vectors", wit(cell=k, got=v, want_cos=c))
                break
        # the same texture with zero vectors in every fourth cell (an empty part of the sample): whatever the angle next to a
        # zero vector is taken to be, it is a number in [0, pi] (seeded change C19-22 divided by the lengths: 0/0 = NaN)
        try:
            arr0 = np.array(f.array, dtype=float, copy=True)
            flat0 = arr0.reshape((-1, arr0.shape[-1]))
            flat0[1::4] = 0.0
            f0 = df.Field(f.mesh, nvdim=f.nvdim, value=arr0, valid=f.valid, vdim_mapping=f.vdim_mapping)
            v0 = fldmod.flatten(dft.neighbouring_cell_angle(f0, direction=dims[d]).array)[:, 0]
            bad = [int(k) for k in range(len(v0)) if not (math.isfinite(float(v0[k])) and 0.0 <= float(v0[k]) <= math.pi)]
            if bad:
                part.violation(key("C19_NeighbourAngle", "range/zero-vectors"), "angle outside [0, pi] (or not a number) next to a zero vector",
                               wit(cell=bad[0], got=float(v0[bad[0]])))
        except Exception as ex:  # noqa: BLE001
            part.violation(key("C19_NeighbourAngle", "raises/zero-vectors"), "neighbouring_cell_angle raises on a field with zero vectors", wit(exc=repr(ex)))
        part.nontriv("angle", str(t["dirs"]), d, emb.name)
        return
    if kind == "emergent":
        g = dft.emergent_magnetic_field(f.orientation)
        h = [emb.length(c) for c in t["c"]]
        got = fldmod.flatten(g.array)
        s3 = s3_of(t)
        for k, fn in enumerate(obs["f"]):
            want = [fn[0] * s3 / (4 * h[1] * h[2]), fn[1] * s3 / (4 * h[2] * h[0]), fn[2] * s3 / (4 * h[0] * h[1])]
            if not all(abs(got[k][c] - want[c]) <= 1e-9 * max(abs(want[c]), 1.0 / (4 * max(h) ** 2)) for c in range(3)):
                part.violation(key("C19_Emergent", "value"), "emergent field differs from m.(d_a m x d_b m) with the specification's stencils", wit(cell=k, got=got[k], want=want))
                break
        if any(any(x) for x in obs["f"]):
            part.nontriv("emergent", str(t["dirs"]), emb.name)
        return
    if kind == "bps":
        d = act[1] - 1
        res = dft.count_bps(f, direction=dims[d])
        if obs["decided"]:
            got = (res["bp_number"], res["bp_number_hh"], res["bp_number_tt"])
            want = (obs["total"], obs["hh"], obs["tt"])
            if tuple(float(x) for x in got) != tuple(float(x) for x in want):
                hedge = "hedgehog" if obs["total"] == 1 else "other"
                part.violation(key("C19_BlochPoints", f"count/{hedge}"), "count_bps differs from the specification (total, head-to-head, tail-to-tail)", wit(got=got, want=want))
            pat = ast.literal_eval(res[f"bp_pattern_{dims[d]}"])
            rle = []
            for v in obs["number"]:
                if rle and rle[-1][0] == v:
                    rle[-1][1] += 1
                else:
                    rle.append([v, 1])
            if [[float(a), int(b)] for a, b in pat] != [[float(a), int(b)] for a, b in rle]:
                part.violation(key("C19_BlochPoints", "pattern"), "bp_pattern differs from the rounded cumulative flux of the specification", wit(got=pat, want=rle))
            part.note("bps_decided")
        else:
            part.note("bps_undecided")
        part.nontriv("bps", str(t["dirs"]), d, emb.name)
        return
    # ---- charge states (new or a symmetry operation)
    if nd != 2 or t["nv"] != 3:
        return
    check_charges(part, key, wit, t, obs, charges(dft, f), "direct")
    check_density(part, key, wit, dft, t, obs, f, emb)
    if obs["bl"] or obs["cont"] or not all(t["valid"]):
        part.nontriv(str(t["dirs"]), str(t["valid"]), str(t["lens"]), str(t["n"]), str(t["c"]), str(act), emb.name, variant)
    if obs.get("wrap") and obs["bl"]:
        part.note("wrapping_nonzero")
    if kind in ("scale_mesh", "translate_mesh", "rotate90_sample", "reverse", "rescale_lengths"):
        # the same transition through the library's own operation, from the predecessor texture
        p = build(df, prev, emb, variant)
        if kind == "reverse":
            g = -p
        elif kind == "rescale_lengths":
            ratio = np.array(t["lens"], dtype=float) / np.array(prev["lens"], dtype=float)
            g = p * df.Field(p.mesh, nvdim=1, value=ratio.reshape(tuple(prev["n"]), order="F")[..., None])
            g.valid = p.valid
        elif kind == "rotate90_sample":
            g = p.rotate90("x", "y", k=act[1])
        else:
            if kind == "scale_mesh":
                mesh2 = p.mesh.scale(tuple(float(v) for v in act[1]), reference_point=(emb.x(0), emb.x(0)))
            else:
                mesh2 = p.mesh.translate(tuple(emb.length(v) for v in act[1]))
            g = df.Field(mesh2, nvdim=3, value=p.array, valid=p.valid, vdim_mapping=p.vdim_mapping)
        if tuple(int(v) for v in g.mesh.n) != tuple(t["n"]):
            part.violation(key("C19_Symmetry", f"{kind}/mesh"), "the transformed sample has the wrong resolution", wit(got_n=g.mesh.n))
        else:
            check_charges(part, key, wit, t, obs, charges(dft, g), kind)
        part.note("op_" + kind)
        part.count()


# ------------------------------------------------------------------ channel T
QUANT = 10**9


def quant(x, scale=1):
    """x in units of 1e-9 * scale (clamped so that JSON integers stay below 2^30)"""
    if not math.isfinite(x):
        return 0, True
    return max(-2**30, min(2**30, int(round(x / scale * QUANT)))), False


def skyrmion(n, rnd, smooth=False):
    nx, ny = n
    R = 0.45 * min(nx, ny) * rnd.uniform(0.6, 1.0)
    if smooth:
        R = 0.5 * (min(nx, ny) - 3) * rnd.uniform(0.85, 1.0)
    hel = rnd.uniform(0, 2 * math.pi)
    pol = rnd.choice([1, -1])
    arr = np.zeros((nx, ny, 3))
    cx, cy = (nx - 1) / 2 + rnd.uniform(-0.3, 0.3), (ny - 1) / 2 + rnd.uniform(-0.3, 0.3)
    for i in range(nx):
        for j in range(ny):
            r = math.hypot(i - cx, j - cy)
            th = math.pi * (1 - min(r / R, 1.0))
            ph = math.atan2(j - cy, i - cx) + hel
            arr[i, j] = (math.sin(th) * math.cos(ph), math.sin(th) * math.sin(ph), pol * math.cos(th))
    return arr


def sym_trace(df, dft, rnd, tid, cls):
    from scipy.spatial.transform import Rotation

    n = (rnd.randrange(4, 13), rnd.randrange(4, 13))
    cell = (rnd.uniform(0.5, 3.0) * 10 ** rnd.randrange(-9, 2), rnd.uniform(0.5, 3.0) * 10 ** rnd.randrange(-9, 2))
    p1 = (rnd.uniform(-5, 5) * cell[0], rnd.uniform(-5, 5) * cell[1])
    if cls == "wrap":
        n = (rnd.randrange(9, 15), rnd.randrange(9, 15))
    if cls in ("skyrmion", "wrap"):
        arr = skyrmion(n, rnd, smooth=(cls == "wrap"))
        if cls == "wrap":
            # "wrapping the sphere a whole number of times" needs a well-defined map: uniform boundary ring and
            # every plaquette small on the sphere (all pairs of its cells less than 90 degrees apart)
            arr[0, :], arr[-1, :], arr[:, 0], arr[:, -1] = arr[0, 0], arr[0, 0], arr[0, 0], arr[0, 0]
            u = arr / np.linalg.norm(arr, axis=-1, keepdims=True)
            dots = [np.sum(u[1:, :] * u[:-1, :], -1).min(), np.sum(u[:, 1:] * u[:, :-1], -1).min(),
                    np.sum(u[1:, 1:] * u[:-1, :-1], -1).min(), np.sum(u[1:, :-1] * u[:-1, 1:], -1).min()]
            if min(dots) <= 0.05:
                cls = "skyrmion"
    elif cls == "uniform":
        v = np.array([rnd.gauss(0, 1) for _ in range(3)])
        arr = np.broadcast_to(v, n + (3,)).copy()
    elif cls in ("anti", "tiny"):
        arr = np.zeros(n + (3,))
        arr[..., 2] = 1.0
        arr[n[0] // 2, n[1] // 2] = (0, 0, -1)
        arr[n[0] // 2 - 1, n[1] // 2] = (1, 0, 0)
        arr[n[0] // 2, n[1] // 2 - 1] = (0, 1, 0)
    else:
        arr = np.array([[[rnd.gauss(0, 1) for _ in range(3)] for _ in range(n[1])] for _ in range(n[0])])
    arr = arr * np.array([[rnd.uniform(0.2, 5.0) for _ in range(n[1])] for _ in range(n[0])])[..., None]
    valid = np.ones(n, dtype=bool)
    if cls in ("random", "skyrmion") and rnd.random() < 0.5:
        for _ in range(rnd.randrange(1, 4)):
            valid[rnd.randrange(n[0]), rnd.randrange(n[1])] = False
    mesh = df.Mesh(p1=p1, p2=(p1[0] + n[0] * cell[0], p1[1] + n[1] * cell[1]), n=n)
    f = df.Field(mesh, nvdim=3, value=arr, valid=valid, vdim_mapping={"x": "x", "y": "y", "z": None})

    try:
        bl0, cont0 = charges(dft, f)
    except Exception:
        bl0, cont0 = float("nan"), float("nan")
    mag = max([1.0] + [abs(v) for v in (bl0, cont0) if math.isfinite(v)])
    scale = 10 ** math.ceil(math.log10(mag))

    def observe(g, known=None):
        try:
            bl, cont = known or charges(dft, g)
        except Exception:
            bl, cont = float("nan"), float("nan")  # a tool that raises shows up as a failed law
        qb, nb = quant(bl, scale)
        qc, nc = quant(cont, scale)
        return {"bl": qb, "cont": qc, "nan_bl": bool(nb), "nan_cont": bool(nc)}

    first = observe(f, (bl0, cont0))
    ev = [{"op": "check"}]
    ops = {"anti": ["rotate_vectors"], "tiny": ["rescale_lengths"]}.get(cls, list(SYM_OPS))
    for _ in range(rnd.randrange(2, 6) if cls not in ("anti", "tiny") else 1):
        op = rnd.choice(ops)
        if op == "rotate_vectors":
            M = Rotation.random(random_state=rnd.randrange(2**31)).as_matrix()
            f = df.Field(f.mesh, nvdim=3, value=f.array @ M.T, valid=f.valid, vdim_mapping=f.vdim_mapping)
        elif op == "rescale_lengths":
            if cls == "tiny":
                fac = 10.0 ** rnd.uniform(-12, -9)
                g = f * fac
            else:
                fac = np.array([[rnd.uniform(0.1, 10) for _ in range(f.mesh.n[1])] for _ in range(f.mesh.n[0])])
                g = f * df.Field(f.mesh, nvdim=1, value=fac[..., None])
            g.valid = f.valid
            f = g
        elif op == "scale_mesh":
            fac = (rnd.uniform(0.2, 5), rnd.uniform(0.2, 5)) if rnd.random() < 0.7 else rnd.uniform(0.2, 5)
            f = df.Field(f.mesh.scale(fac), nvdim=3, value=f.array, valid=f.valid, vdim_mapping=f.vdim_mapping)
        elif op == "translate_mesh":
            v = tuple(rnd.uniform(-20, 20) * c for c in f.mesh.cell)
            f = df.Field(f.mesh.translate(v), nvdim=3, value=f.array, valid=f.valid, vdim_mapping=f.vdim_mapping)
        elif op == "rotate90_sample":
            f = f.rotate90("x", "y", k=rnd.choice([1, 2, 3, -1]))
        else:
            f = -f
        e = {"op": op}
        e.update(observe(f))
        ev.append(e)
    return {"id": tid, "kind": "sym", "cls": cls, "n": list(n), "scale": scale, "unit": QUANT // scale, "first": first, "ev": ev}


def tex_trace(df, dft, rnd, tid, embs):
    """a larger random octahedral texture; TLC recomputes both charges from the logged texture"""
    alpha = rnd.choice(["A", "A", "D"])
    n = [rnd.randrange(3, 8), rnd.randrange(3, 8)]
    N = n[0] * n[1]
    if alpha == "A":
        pool = [(1, 0, 0), (0, 1, 0), (0, 0, 1), (-1, 0, 0), (0, -1, 0), (0, 0, -1)]
    else:
        pool = [(a, b, c) for a in (1, -1) for b in (1, -1) for c in (1, -1)]
    # smooth-ish random walk over the alphabet so that non-degenerate triangles are common
    dirs = []
    for k in range(N):
        if dirs and rnd.random() < 0.5:
            dirs.append(dirs[-1] if rnd.random() < 0.5 else dirs[max(0, k - n[0])])
        else:
            dirs.append(rnd.choice(pool))
    valid = [rnd.random() > 0.12 for _ in range(N)]
    t = {"nv": 3, "n": n, "c": [rnd.randrange(1, 5), rnd.randrange(1, 5)], "lo": [rnd.randrange(-9, 10), rnd.randrange(-9, 10)],
         "alpha": alpha, "dirs": [list(d) for d in dirs], "lens": [rnd.choice([1, 2, 3, 5]) for _ in range(N)], "valid": valid}
    emb = rnd.choice(embs)
    f = build(df, t, emb, variant=rnd.randrange(2))
    try:
        bl, cont = charges(dft, f)
    except Exception:
        bl, cont = float("nan"), float("nan")
    U = 8 if alpha == "A" else 24
    xb = bl * 6 * U
    xc = cont * 16 * math.pi / s3_of(t)
    nb, nc = not math.isfinite(xb), not math.isfinite(xc)
    kb = 0 if nb else max(-2**30, min(2**30, int(round(xb))))
    kc = 0 if nc else max(-2**30, min(2**30, int(round(xc))))
    return {"id": tid, "kind": "tex", "cls": alpha, "emb": emb.name, "tex": t,
            "bl": kb, "bl_ok": bool(not nb and abs(xb - kb) <= 1e-6), "cont": kc, "cont_ok": bool(not nc and abs(xc - kc) <= 1e-6),
            "ev": [{"op": "check"}]}


def run_traces(ctx, df, dft, nsym, ntex, embs):
    rnd = random.Random(ctx.seed * 15485863 + 19)
    traces = []
    classes = ["skyrmion", "random", "random", "wrap", "uniform"]
    for k in range(nsym):
        traces.append(sym_trace(df, dft, rnd, len(traces) + 1, classes[k % len(classes)]))
    for cls in ("anti", "tiny"):
        for _ in range(3):
            traces.append(sym_trace(df, dft, rnd, len(traces) + 1, cls))
    for k in range(ntex):
        traces.append(tex_trace(df, dft, rnd, len(traces) + 1, embs))
    r, verdicts, done = ctx.trace_check("C19Trace", "C19Trace.cfg", traces)
    expect = sum(len(t["ev"]) + 1 for t in traces)
    if r.distinct != expect:
        raise core._tlc.MachineryError(f"C19Trace consumed {r.distinct} states, expected {expect}")
    byid = {t["id"]: t for t in traces}
    for v in verdicts:
        _, tid, l, clause = v[:4]
        t = byid[tid]
        if t["kind"] == "sym":
            e = t["ev"][l - 1] if l >= 1 else {"op": "first"}
            cond = {"anti": "antiparallel-neighbours", "tiny": "tiny-norm"}.get(t["cls"], "float-texture")
            keyname = f"trace:{clause}/{e['op']}/{cond}"
            wit = {"class": t["cls"], "n": t["n"], "first": t["first"], "events": t["ev"][:l]}
        else:
            degen = len(v) > 4 and v[4]
            cond = "antiparallel-diag" if (degen and t["cls"] == "D") else ("masked" if not all(t["tex"]["valid"]) else "plain")
            keyname = f"trace:{clause}/tex/{cond}"
            wit = {k: t[k] for k in ("tex", "emb", "bl", "cont", "bl_ok", "cont_ok")}
        ctx.violation(keyname, f"recorded execution rejected by C19Trace: clause {clause}", wit)
    ctx.traces += len(traces)
    ctx.evaluations += sum(len(t["ev"]) + 1 for t in traces)
    for t in traces:
        if t["kind"] == "sym" and (t["first"]["bl"] or t["first"]["cont"]):
            ctx.nontriv("T", t["id"])
        if t["kind"] == "tex" and (t["bl"] or t["cont"]):
            ctx.nontriv("T", t["id"])
    ctx.notes["T_sym_traces"] = sum(1 for t in traces if t["kind"] == "sym")
    ctx.notes["T_tex_traces"] = sum(1 for t in traces if t["kind"] == "tex")
    ctx.notes["T_tex_nonzero_bl"] = sum(1 for t in traces if t["kind"] == "tex" and t["bl"])
    ctx.notes["T_wrap_nonzero"] = sum(1 for t in traces if t["kind"] == "sym" and t["cls"] == "wrap" and abs(t["first"]["bl"]) > t["unit"] // 2)
    ctx.sample({"channel": "T", "trace": traces[0]})


# ------------------------------------------------------------------ axiom replay (not model-checked)
def axiom_replay(ctx, df, dft):
    """numeric assertions for the continuous-numerics clauses of C19 (DESIGN 8); never counted as model-checked"""
    out = {"label": "axiom replay - numeric assertions on the current tree, NOT model-checked", "checks": []}

    def rec(name, ok, detail):
        out["checks"].append({"name": name, "ok": bool(ok), "detail": detail})
        return ok

    # continuous hedgehog = one Bloch point, tail-to-tail; reversed: head-to-head; every direction
    for n, cell in (((8, 8, 8), (1.0, 1.0, 1.0)), ((10, 8, 6), (2e-9, 3e-9, 2.5e-9))):
        mesh = df.Mesh(p1=tuple(-0.5 * a * b for a, b in zip(n, cell)), p2=tuple(0.5 * a * b for a, b in zip(n, cell)), n=n)
        f = df.Field(mesh, nvdim=3, value=lambda p: tuple(np.array(p) / np.array(cell)), norm=1)
        for sign, fld in ((1, f), (-1, -f)):
            for d in "xyz":
                res = dft.count_bps(fld, direction=d)
                want = (1.0, 0.0, 1.0) if sign == 1 else (1.0, 1.0, 0.0)
                got = (res["bp_number"], res["bp_number_hh"], res["bp_number_tt"])
                if not rec(f"hedgehog {n} sign {sign} dir {d}", got == want, {"got": got, "want": want}):
                    ctx.violation(f"axiom:C19_HedgehogOneBlochPoint/continuous/{'cubic' if len(set(cell)) == 1 else 'anisotropic'}",
                                  "a continuous hedgehog is not counted as exactly one Bloch point (axiom replay)", {"n": n, "cell": cell, "dir": d, "got": got})
    # demagnetisation tensor: |trace| = 1 at every frequency; cuboid mean field sums to -|M|
    import warnings

    for n, cell, cls in (((4, 3, 2), (2e-9, 2e-9, 2e-9), "cubic"), ((3, 3, 3), (1.0, 1.0, 1.0), "cubic"), ((4, 3, 2), (1e-9, 2e-9, 3e-9), "anisotropic")):
        mesh = df.Mesh(p1=(0, 0, 0), p2=tuple(a * b for a, b in zip(n, cell)), n=n)
        with warnings.catch_warnings():
            warnings.simplefilter("ignore")
            tensor = dft.demag_tensor(mesh)
            tr = tensor.array[..., 0] + tensor.array[..., 1] + tensor.array[..., 2]
            ok = bool(np.allclose(np.abs(tr), 1.0, atol=1e-9))
            if not rec(f"|trace N(k)| = 1 {n} {cls}", ok, {"max_dev": float(np.max(np.abs(np.abs(tr) - 1.0)))}):
                ctx.violation(f"axiom:C19_DemagTrace/{cls}", "Fourier-space demagnetisation tensor does not have |trace| = 1 (axiom replay)",
                              {"n": n, "cell": cell, "max_dev": float(np.max(np.abs(np.abs(tr) - 1.0)))})
            Ms = 8e5
            tot = 0.0
            comps = []
            for ax in range(3):
                v = [0.0, 0.0, 0.0]
                v[ax] = Ms
                h = dft.demag_field(df.Field(mesh, nvdim=3, value=v), tensor)
                comps.append(float(h.mean()[ax]))
            tot = sum(comps)
            ok = abs(tot + Ms) <= 1e-6 * Ms
            if not rec(f"cuboid mean field sums to -M {n} {cls}", ok, {"components": comps, "sum": tot}):
                ctx.violation(f"axiom:C19_DemagCuboidSum/{cls}", "mean demagnetising field components of a uniformly magnetised cuboid do not sum to -|M| (axiom replay)",
                              {"n": n, "cell": cell, "components": comps})
    # cube: -M/3 each
    mesh = df.Mesh(p1=(0, 0, 0), p2=(3.0, 3.0, 3.0), n=(3, 3, 3))
    with warnings.catch_warnings():
        warnings.simplefilter("ignore")
        tensor = dft.demag_tensor(mesh)
        for ax in range(3):
            v = [0.0, 0.0, 0.0]
            v[ax] = 1.0
            h = dft.demag_field(df.Field(mesh, nvdim=3, value=v), tensor)
            got = float(h.mean()[ax])
            if not rec(f"cube -M/3 axis {ax}", abs(got + 1 / 3) <= 1e-6, {"got": got}):
                ctx.violation("axiom:C19_DemagCuboidSum/cube", "mean demagnetising field of a uniformly magnetised cube is not -M/3 (axiom replay)", {"axis": ax, "got": got})
    return out


# ------------------------------------------------------------------ run
def embs_for(tier, seed):
    if tier == "quick":
        return [embed.DYADIC[1], embed.REAL[0], embed.REAL[2]]
    return [embed.DYADIC[1], embed.DYADIC[3], embed.REAL[0], embed.REAL[2], embed.REAL[4]] + embed.seeded(seed, 1)


def collect(ctx):
    """everything except the final matching against known findings; returns the extra evidence dict"""
    df = core.import_library()
    import discretisedfield.tools as dft

    embs = embs_for(ctx.tier, ctx.seed)
    r = ctx.model("MC_C19", f"C19_{ctx.tier}.cfg", dump=True, coverage=(ctx.tier == "quick" and None), timeout=3000)
    if ctx.tier == "thorough":
        ctx.model("MC_C19", "C19_deep.cfg", dump=False, coverage=False, timeout=3000)
        rc = core._tlc.run("MC_C19", "C19_quick.cfg", ctx.scratch, coverage=True, tag="C19_cov")
        for a, c in rc.coverage.items():
            ctx.coverage_actions[f"MC_C19.{a}"] = c[0]
    if r.ok:
        states = ctx.dump_states(r)
        if len(states) != r.distinct:
            raise core._tlc.MachineryError(f"dump has {len(states)} states, TLC reports {r.distinct}")
        work = [(si, ei, (si + ei) % 2) for si in range(len(states)) for ei in range(len(embs))]

        def chunk(items):
            part = Part()
            for si, ei, v in items:
                exec_state(df, dft, states[si], embs[ei], v, part)
                part.trace()
            if items:
                s = states[items[0][0]]
                part.sample({"channel": "R", "tex": s["tex"], "act": s["act"], "obs": s["obs"] if len(str(s["obs"])) < 600 else "...",
                             "embedding": embs[items[0][1]].name})
            return part

        ctx.pmap(chunk, work)
        for need in ("wrapping_nonzero", "bps_decided", "op_rotate90_sample", "op_scale_mesh"):
            if not ctx.notes.get(need) and not ctx.found:  # (a violation may have cut the case short)
                raise core._tlc.MachineryError(f"vacuity guard: no case of kind {need} was compared")
    run_traces(ctx, df, dft, 150 if ctx.tier == "quick" else 1500, 40 if ctx.tier == "quick" else 300, embs)
    replayed = axiom_replay(ctx, df, dft)
    ctx.assumptions += [
        "TLC explores the bounded texture space of spec/C19.tla completely (bounds in MC_C19.tla and the cfg)",
        "unit vectors are restricted to the octahedral alphabets in M/R; arbitrary float textures are covered by the invariance laws in T",
        "demagnetisation clauses and the continuous hedgehog are numeric axiom replays, not model-checked (DESIGN 8)",
        "refusal of 2-d fields by neighbouring_cell_angle is not demanded (the function is dimension-generic)",
    ]
    return {"embeddings": [e.name for e in embs], "axiom_replay_not_model_checked": replayed}


def run(ctx):
    extra = collect(ctx)
    return core.finish(ctx, rule=RULE, extra=extra)


def replay(ctx, path):
    """re-execute the recorded run (same tier and seed, deterministic) against the current tree and report whether the
    recorded violation key is still produced"""
    with open(path) as fh:
        rp = json.load(fh)
    ctx.tier = rp.get("tier", ctx.tier)
    ctx.seed = rp.get("seed", ctx.seed)
    collect(ctx)
    hit = ctx.found.get(rp["key"])
    if hit:
        print(f"still fails: {rp['key']}: {hit['what']} (x{hit['count']})")
        print("witness:", json.dumps(hit["witness"])[:2000])
        return 1
    print(f"not reproduced: {rp['key']}")
    return 0
