"""C10 - HDF5 files preserve the complete state of a field.

M: TLC exhaustive on spec/C10.tla (MC_C10 + C10_<tier>.cfg): WriteH5 / OverwriteH5 / LegacyWrite / ReadH5 as the
   identity on the full field record, attribute by attribute, corners with an int/float type tag for the region and
   for each subregion independently; invariants C10_Lossless, C10_RealStaysReal, C10_FileHoldsState, C10_LegacyReadable.
R: every dumped state is executed on the real library under int-compatible (and, for float-cornered records, real-world)
   embeddings: Field.to_file -> h5py view compared with the state's `file`; Field.from_file -> record compared with `obs`;
   legacy files come from an independent h5py writer.
T: a seeded driver writes / reads random larger fields, logs view and record; spec/C10Trace.tla evaluates the clauses.
"""
import json
import os
import random
import struct
import warnings
import math

import h5py
import numpy as np

from .. import core, embed, lat, fld as fldmod
from ..core import Part

META = dict(
    level="model_checking",
    level_text=("Exhaustive TLC model checking of spec/C10.tla: HDF5 writing/reading as the identity on the complete field record "
                "(region corners with int/float type tag, dimension names, units, tolerance factor, cell counts, boundary "
                "conditions, ordered possibly overlapping subregions each with its own corner type, labels or none, unit or none, "
                "real/complex kind, value ids, validity), the h5py view of the file, and an independent writer of the legacy "
                "layout; every TLC state is replayed on Field.to_file / Field.from_file and compared attribute by attribute "
                "(not with ==); seeded random executions are validated by TLC against spec/C10Trace.tla."),
    level_note=("Bounds: quick 439 records (1-4 dimensions; all int/float combinations of region x subregion corners incl. "
                "fractional subregion corners on integer regions and 0-3 overlapping subregions; 3 dims/units schemes, 3 "
                "tolerances, all boundary-condition kinds; 8 label sets incl. absent; unit none/A/m/T; float/complex/int; 4 masks; "
                "numpy-string names), thorough 1453 records; random fields to 5 cells/axis in T. Values are ids of a pool of "
                "extreme float64 / complex / int64 values compared bit-wise by the harness. Not compared because the property does "
                "not list them (N3): vdim_mapping, int->float64 widening of real values. Trusted: TLC, harness/tlaval.py, h5py."),
    technique="TLA+ record model of the HDF5 layout + TLC exhaustive; spec states replayed into code with an h5py view and an independent legacy writer; code traces validated by TLC (C10Trace.tla)",
    design_ref="DESIGN.md section 7 C10",
)

RULE = ("states: every record of the cfg's families x write / overwrite / legacy write (with and without side-car) / read; a case is "
        "one (state, embedding) pair executed on the library; non-trivial = a read or view comparison of a record with more than one "
        "cell; distinct by (state, embedding)")

NONE = "<none>"
IU = 8
OFF = 999999999  # marker for a subregion coordinate that is not on the lattice
_fi = np.finfo(np.float64)
POOLF = [0.0, 1.0, -0.0, float(_fi.max), -float(_fi.max), float(_fi.tiny), 1.0 / 3.0, 1e-300, -2.5, 5e-324, 1e300,
         123456789012345.0, math.pi, 1234567.0, 3.4028234663852886e38, 1e-45, -1e150]
POOLI = [0, 1, -1, 2 ** 31 - 1, -2 ** 31, 7, 2 ** 53, -(2 ** 53), 3, -5, 100, 255, -128, 65536, 12345678, -99, 42]
K = len(POOLF)
TOL = {"1e-12": 1e-12, "1e-9": 1e-9, "1e-6": 1e-6, "1e-3": 1e-3}


def val(kind, i):
    if kind == "float":
        return POOLF[i]
    if kind == "complex":
        return complex(POOLF[i], POOLF[(3 * i + 1) % K])
    return POOLI[i]


def _key(kind, v):
    if kind == "complex":
        v = complex(v)
        return struct.pack("<dd", v.real, v.imag)
    if kind == "int":
        return float(v)  # an integer may come back as the equal float64 (N3)
    return struct.pack("<d", float(v))


_REV = {kind: {_key(kind, val(kind, i)): i for i in range(K)} for kind in ("float", "complex", "int")}


def ids_of(kind, arr):
    """value array (cells, nv) -> ids (bit-identical match, -1 otherwise)"""
    kk = "complex" if np.iscomplexobj(arr) else kind
    if kk == "complex" and kind != "complex":
        return [[-1] * arr.shape[1] for _ in range(arr.shape[0])]
    if kind == "complex" and not np.iscomplexobj(arr):
        return [[-1] * arr.shape[1] for _ in range(arr.shape[0])]
    rev = _REV[kind]
    return [[rev.get(_key(kind, v), -1) for v in cell] for cell in arr.tolist()]


# embeddings: quantum = s / IU with an integer s, integer origin  ->  multiples of IU are integers, everything is dyadic
INT_EMBS = [embed.Embedding("int-1", 1.0 / IU, 0.0, True), embed.Embedding("int-3-7", 3.0 / IU, -7.0, True),
            embed.Embedding("int-1000+1e6", 1000.0 / IU, 1.0e6, True)]


def embeddings_for(f, tier, seed):
    tags = {f["rtag"]} | {s["tag"] for s in f["subs"]}
    out = list(INT_EMBS[:2] if tier == "quick" else INT_EMBS)
    if tags == {"float"}:
        out += [embed.REAL[0]] if tier == "quick" else [embed.REAL[0], embed.REAL[2], embed.REAL[3]]
    return out


def coords_of(f):
    return list(f["lo"]) + [f["lo"][d] + f["c"][d] * f["n"][d] for d in range(len(f["n"]))]


def corner(emb, q, tag):
    x = emb.x(q)
    if tag == "int":
        if x != int(x):
            raise core._tlc.MachineryError(f"lattice coordinate {q} is not an integer under {emb.name}")
        return int(x)
    return float(x)


class Unbuildable(Exception):
    pass


def build_field(df, f, emb):
    nd = len(f["n"])
    hi = [f["lo"][d] + f["c"][d] * f["n"][d] for d in range(nd)]
    dims, units = list(f["dims"]), list(f["units"])
    sk = f.get("strkind", "py")
    rdims = np.array(dims) if sk == "np-dims" else dims
    runits = np.array(units) if sk == "np-units" else units
    region = df.Region(p1=[corner(emb, q, f["rtag"]) for q in f["lo"]], p2=[corner(emb, q, f["rtag"]) for q in hi],
                       dims=rdims, units=runits, tolerance_factor=TOL[f["tol"]])
    subs = {s["name"]: df.Region(p1=[corner(emb, q, s["tag"]) for q in s["lo"]], p2=[corner(emb, q, s["tag"]) for q in s["hi"]],
                                 dims=dims, units=units) for s in f["subs"]}
    mesh = df.Mesh(region=region, n=tuple(int(v) for v in f["n"]), bc=f["bc"], subregions=subs)
    mesh = lat.arrive_in_place(df, mesh, emb, sum(int(v) for v in f["n"]) * 5 + len(f["subs"]) + len(f["bc"]))
    dt = {"float": np.float64, "complex": np.complex128, "int": np.int64}[f["kind"]]
    arr = fldmod.unflatten([[val(f["kind"], i) for i in cell] for cell in f["vals"]], f["n"], dtype=dt)
    mask = fldmod.unflatten_mask(list(f["valid"]), f["n"])
    if f["labels"]["some"]:
        vd = list(np.array(list(f["labels"]["v"]))) if sk == "np-labels" else list(f["labels"]["v"])
    else:
        vd = None if f["nv"] == 1 else []  # an empty list is the public way to have no labels on a vector field
    # (vdim_mapping={} : without labels there is nothing to map; the default would try to zip the missing labels with dims)
    return df.Field(mesh, nvdim=int(f["nv"]), value=arr, vdims=vd, unit=None if f["unit"] == NONE else f["unit"], valid=mask, dtype=dt,
                    **({} if f["labels"]["some"] else {"vdim_mapping": {}}))


def check_built(field, f):
    """the constructed field must be the spec's record before anything is written (else the harness is wrong)"""
    rt = "int" if np.issubdtype(field.mesh.region.pmin.dtype, np.integer) else "float"
    have = None if field.vdims is None else [str(v) for v in field.vdims]
    want = list(f["labels"]["v"]) if f["labels"]["some"] else None
    kind = "complex" if np.iscomplexobj(field.array) else ("int" if np.issubdtype(field.array.dtype, np.integer) else "float")
    subtags = ["int" if np.issubdtype(r.pmin.dtype, np.integer) else "float" for r in field.mesh.subregions.values()]
    if rt != f["rtag"] or have != want or kind != f["kind"] or subtags != [s["tag"] for s in f["subs"]] or \
            list(field.mesh.subregions) != [s["name"] for s in f["subs"]]:
        raise core._tlc.MachineryError(f"constructed field differs from the record: {rt} {have} {kind} {subtags}")


def _pq(emb, x, cq, co):
    q = emb.q_of(float(x))
    r = round(q)
    return int(r), abs(q - r) <= emb.tol_q(cq, tuple(co) + (r,))


def _tag(a):
    return "int" if np.issubdtype(np.asarray(a).dtype, np.integer) else "float"


def _strs(a):
    return [v.decode("utf-8") if isinstance(v, bytes) else str(v) for v in np.asarray(a).ravel().tolist()] if not isinstance(a, str) else [a]


def _tol_id(x):
    for k, v in TOL.items():
        if float(x) == v:
            return k
    return "other"


def observe_field(g, f, emb, orig=None):
    """library field -> the record of spec/C10.tla (lattice integers, strings, Booleans, ids)"""
    cq, co = max(f["c"]), coords_of(f)
    exact = True
    reg = g.mesh.region

    def vec(a):
        nonlocal exact
        out = []
        for x in np.asarray(a).tolist():
            q, ok = _pq(emb, x, cq, co)
            exact &= ok
            out.append(q)
        return out

    def svec(a):  # subregion corners: a coordinate off the lattice is logged as OFF, not as an inexact region
        return [q if ok else OFF for q, ok in (_pq(emb, x, cq, co) for x in np.asarray(a).ravel().tolist())]

    subs = [{"name": str(name), "lo": svec(r.pmin), "hi": svec(r.pmax), "tag": _tag(r.pmin)} for name, r in g.mesh.subregions.items()]
    arr = fldmod.flatten(g.array)
    rec = {"lo": vec(reg.pmin), "hi": vec(reg.pmax), "rtag": _tag(reg.pmin), "dims": [str(d) for d in reg.dims],
           "units": [str(u) for u in reg.units], "tol": _tol_id(reg.tolerance_factor), "n": [int(v) for v in g.mesh.n],
           "bc": str(g.mesh.bc), "subs": subs, "nv": int(g.nvdim),
           "labels": {"some": g.vdims is not None, "v": [str(v) for v in g.vdims] if g.vdims is not None else []},
           "unit": NONE if g.unit is None else str(g.unit), "kind": "complex" if np.iscomplexobj(g.array) else "real",
           "vals": ids_of(f["kind"], arr), "valid": [bool(v) for v in fldmod.flatten_mask(g.valid).tolist()],
           "eq": True, "cbits": True}
    if orig is not None:
        with warnings.catch_warnings():
            warnings.simplefilter("ignore")
            try:
                rec["eq"] = bool(orig == g)
            except Exception:
                rec["eq"] = False
        a, b = orig.mesh.region, reg
        rec["cbits"] = bool(a.pmin.dtype == b.pmin.dtype and a.pmax.dtype == b.pmax.dtype
                            and a.pmin.tobytes() == b.pmin.tobytes() and a.pmax.tobytes() == b.pmax.tobytes())
    return rec, exact


def observe_h5(path, f, emb):
    """h5py view of a file in the current layout -> the `file` record of spec/C10.tla"""
    cq, co = max(f["c"]), coords_of(f)
    exact = True

    def vec(a):
        nonlocal exact
        out = []
        for x in np.asarray(a).ravel().tolist():
            q, ok = _pq(emb, x, cq, co)
            exact &= ok
            out.append(q)
        return out

    with h5py.File(path, "r") as h:
        root = dict(h.attrs)
        fld_g = h["field"]
        mesh_g = fld_g["mesh"]
        ra = dict(mesh_g["region"].attrs)
        names, rows = [], []
        if "subregions" in mesh_g:
            names = _strs(mesh_g["subregion_names"][()])
            tab = mesh_g["subregions"]
            rows = [{"row": [q if ok else OFF for q, ok in (_pq(emb, x, cq, co) for x in np.asarray(tab[k]).ravel().tolist())],
                     "tag": _tag(tab)} for k in range(tab.shape[0])]
        vd = fld_g.attrs["vdims"]
        vdims = {"some": False, "v": []} if (isinstance(vd, str) and vd == "None") else {"some": True, "v": _strs(vd)}
        arr = fld_g["array"]
        data = arr[()]
        kind = "complex" if np.iscomplexobj(data) else ("int" if np.issubdtype(data.dtype, np.integer) else "float")
        view = {"layout": str(root.get("ubermag-hdf5-file-version", "none")), "type": str(root.get("type", "")),
                "region": {"pmin": vec(ra["pmin"]), "pmax": vec(ra["pmax"]), "tag": _tag(ra["pmin"]), "dims": _strs(ra["dims"]),
                           "ndim": int(ra["ndim"]), "units": _strs(ra["units"]), "tol": _tol_id(ra["tolerance_factor"])},
                "n": [int(v) for v in mesh_g.attrs["n"]], "bc": str(mesh_g.attrs["bc"]),
                "subnames": names, "subrows": rows, "nvdim": int(fld_g.attrs["nvdim"]), "vdims": vdims, "unit": str(fld_g.attrs["unit"]),
                "array": {"kind": kind, "shape": [int(v) for v in arr.shape],
                          "data": ids_of(f["kind"], fldmod.flatten(data)) if data.ndim == len(f["n"]) + 1 else []},
                "valid": [bool(v) for v in fldmod.flatten_mask(fld_g["valid"][()]).tolist()]}
        if _tag(ra["pmin"]) != _tag(ra["pmax"]):
            view["region"]["tag"] = "mixed"
    return view, exact


def write_legacy(df, path, f, emb, side, sw=()):
    """independent h5py writer of the layout used before the file-version attribute:
    datasets field/mesh/region/p1, p2, field/mesh/n, field/dim, field/array; subregions in the json side-car"""
    nd = len(f["n"])
    hi = [f["lo"][d] + f["c"][d] * f["n"][d] for d in range(nd)]
    dt = {"float": np.float64, "complex": np.complex128, "int": np.int64}[f["kind"]]
    arr = fldmod.unflatten([[val(f["kind"], i) for i in cell] for cell in f["vals"]], f["n"], dtype=dt)
    for p in (path, path + ".subregions.json"):
        if os.path.exists(p):
            os.remove(p)
    with h5py.File(path, "w") as h:
        g = h.create_group("field")
        m = g.create_group("mesh")
        r = m.create_group("region")
        # the two corner points as the user gave them: along the axes in `sw` p1 holds the upper coordinate
        p1 = [hi[d] if (d + 1) in sw else f["lo"][d] for d in range(nd)]
        p2 = [f["lo"][d] if (d + 1) in sw else hi[d] for d in range(nd)]
        r.create_dataset("p1", data=np.array([corner(emb, q, f["rtag"]) for q in p1]))
        r.create_dataset("p2", data=np.array([corner(emb, q, f["rtag"]) for q in p2]))
        m.create_dataset("n", data=np.array(f["n"], dtype=np.int64))
        g.create_dataset("dim", data=int(f["nv"]))
        g.create_dataset("array", data=arr)
    if side:
        d = {s["name"]: {"pmin": [corner(emb, q, s["tag"]) for q in s["lo"]], "pmax": [corner(emb, q, s["tag"]) for q in s["hi"]],
                         "dims": list(f["dims"]) if False else None, "units": None} for s in f["subs"]}
        # the side-car holds what Region.to_dict holds; dims/units are left to the defaults of the legacy mesh
        d = {k: {kk: vv for kk, vv in v.items() if vv is not None} for k, v in d.items()}
        with open(path + ".subregions.json", "w") as fh:
            json.dump(d, fh)


def try_call(fn):
    try:
        with warnings.catch_warnings():
            warnings.simplefilter("ignore")
            return True, fn()
    except Exception as ex:
        return False, f"{type(ex).__name__}: {str(ex)[:160]}"


# ------------------------------------------------------------------ comparison (channel R)
def sub_cond(f, k):
    s = f["subs"][k]
    frac = any(q % IU for q in list(s["lo"]) + list(s["hi"]))
    mixed = len({t["tag"] for t in f["subs"]}) > 1  # subregions of one mesh with different corner types
    return f"{f['rtag']}-region-{s['tag']}-sub{'-frac' if frac else ''}{'-mixed-sub-types' if mixed else ''}"


def raise_cond(f):
    for k, s in enumerate(f["subs"]):
        if sub_cond(f, k).endswith("-frac") and f["rtag"] == "int":
            return sub_cond(f, k)
    return f.get("strkind", "py")


def label_cond(f):
    return "present" if f["labels"]["some"] else ("absent-scalar" if f["nv"] == 1 else "absent-vector")


def compare_record(part, clause, f, exp, got, gexact, wit):
    key = lambda attr, cond: f"{clause}/{attr}/{cond}"
    sk = f.get("strkind", "py")

    def chk(attr, cond, what, a, b):
        if a != b:
            part.violation(key(attr, cond), what, wit(attr=attr, got=a, want=b))

    if not gexact or got["lo"] != list(exp["lo"]) or got["hi"] != list(exp["hi"]) or not got["cbits"]:
        part.violation(key("corners", f["rtag"]), "region corners are not identical after reading", wit(got=[got["lo"], got["hi"], got["cbits"]]))
    chk("corner-type", f["rtag"], "region corner type (int/float) changed", got["rtag"], exp["rtag"])
    chk("dims", sk, "dimension names differ", got["dims"], list(exp["dims"]))
    chk("units", sk, "units differ", got["units"], list(exp["units"]))
    chk("tolerance", f["tol"], "tolerance factor differs", got["tol"], exp["tol"])
    chk("n", "any", "cell counts differ", got["n"], list(exp["n"]))
    chk("bc", "any", "boundary conditions differ", got["bc"], exp["bc"])
    chk("sub-names", str(len(exp["subs"])), "subregion names / order differ", [s["name"] for s in got["subs"]], [s["name"] for s in exp["subs"]])
    if len(got["subs"]) == len(exp["subs"]):
        for k, (a, b) in enumerate(zip(got["subs"], exp["subs"])):
            if a["lo"] != list(b["lo"]) or a["hi"] != list(b["hi"]):
                part.violation(key("sub-corners", sub_cond(f, k)), "subregion corners differ after reading",
                               wit(sub=b["name"], got=[a["lo"], a["hi"]], want=[b["lo"], b["hi"]]))
            if a["tag"] != b["tag"]:
                part.violation(key("sub-type", sub_cond(f, k)), "subregion corner type (int/float) changed",
                               wit(sub=b["name"], got=a["tag"], want=b["tag"]))
    chk("nvdim", "any", "component count differs", got["nv"], exp["nv"])
    chk("labels", label_cond(f), "component labels differ", got["labels"], {"some": exp["labels"]["some"], "v": list(exp["labels"]["v"])})
    chk("unit", "none" if exp["unit"] == NONE else "str", "unit differs", got["unit"], exp["unit"])
    if got["kind"] != exp["kind"]:
        part.violation(f"C10_RealStaysReal/kind/{f['kind']}", "real/complex kind of the values changed", wit(got=got["kind"]))
    chk("values", f["kind"], "values are not bit-identical", got["vals"], [list(c) for c in exp["vals"]])
    chk("valid", "any", "validity mask differs", got["valid"], list(exp["valid"]))
    if not got["eq"]:
        part.violation(key("equal", "any"), "the field read back does not compare equal (==) to the original", wit())


def compare_view(part, f, exp, got, gexact, wit):
    key = lambda attr, cond: f"C10_FileHoldsState/{attr}/{cond}"
    sk = f.get("strkind", "py")
    if got["layout"] != exp["layout"] or got["type"] != exp["type"]:
        part.violation(key("layout", "any"), "file version / type attribute", wit(got=[got["layout"], got["type"]]))
    er, gr = exp["region"], got["region"]
    if not gexact or gr["pmin"] != list(er["pmin"]) or gr["pmax"] != list(er["pmax"]):
        part.violation(key("corners", f["rtag"]), "region corners in the file differ", wit(got=gr))
    if gr["tag"] != er["tag"]:
        part.violation(key("corner-type", f["rtag"]), "type of the region corners in the file differs", wit(got=gr["tag"]))
    for a in ("dims", "units"):
        if gr[a] != list(er[a]):
            part.violation(key(a, sk), f"{a} in the file differ", wit(got=gr[a]))
    if gr["tol"] != er["tol"] or gr["ndim"] != er["ndim"]:
        part.violation(key("tolerance", f["tol"]), "tolerance factor / ndim in the file differ", wit(got=gr))
    if got["n"] != list(exp["n"]) or got["bc"] != exp["bc"]:
        part.violation(key("n-bc", "any"), "n / bc in the file differ", wit(got=[got["n"], got["bc"]]))
    if got["subnames"] != list(exp["subnames"]) or len(got["subrows"]) != len(exp["subrows"]):
        part.violation(key("sub-names", str(len(exp["subnames"]))), "subregion names in the file differ", wit(got=got["subnames"]))
    else:
        for k, (a, b) in enumerate(zip(got["subrows"], exp["subrows"])):
            if a["row"] != list(b["row"]):
                part.violation(key("sub-corners", sub_cond(f, k)), "subregion corners in the file differ", wit(got=a["row"], want=b["row"]))
    if got["nvdim"] != exp["nvdim"] or got["vdims"] != {"some": exp["vdims"]["some"], "v": list(exp["vdims"]["v"])}:
        part.violation(key("labels", label_cond(f)), "nvdim / labels in the file differ", wit(got=[got["nvdim"], got["vdims"]]))
    if got["unit"] != exp["unit"]:
        part.violation(key("unit", "none" if f["unit"] == NONE else "str"), "unit in the file differs", wit(got=got["unit"]))
    ea, ga = exp["array"], got["array"]
    if ("complex" if ga["kind"] == "complex" else "real") != ("complex" if ea["kind"] == "complex" else "real") or ga["shape"] != list(ea["shape"]) \
            or ga["data"] != [list(c) for c in ea["data"]]:
        part.violation(key("values", f["kind"]), "array in the file is not the field's array", wit(got=ga))
    if got["valid"] != list(exp["valid"]):
        part.violation(key("valid", "any"), "validity mask in the file differs", wit(got=got["valid"]))


def exec_state(df, st, emb, part, scratch, tag):
    f, fl, act, obs = st["fld"], st["file"], st["act"], st["obs"]
    kind = act[0]
    if kind in ("new", "legacy"):
        return
    part.count()
    wit = lambda **kw: dict(state=st, embedding=emb.name, **kw)
    sk = f.get("strkind", "py")
    ext = ".h5" if (sum(f["n"]) + f["nv"]) % 2 else ".hdf5"
    path = os.path.join(scratch, f"{tag}{ext}")
    for p in (path, path + ".subregions.json"):
        if os.path.exists(p):
            os.remove(p)
    layout = fl["layout"]
    orig = None
    if layout == "0.1":
        ok, orig = try_call(lambda: build_field(df, f, emb))
        if not ok:
            part.note("skipped:field-not-constructible-under-embedding")
            part.sample({"unbuildable": orig, "fld": {k: v for k, v in f.items() if k not in ("vals", "valid")}, "embedding": emb.name})
            return
        check_built(orig, f)
        if kind == "overwrite" or (kind == "read" and act[1] == "overwrite"):
            decoy = df.Field(df.Mesh(p1=(0, 0, 0), p2=(3, 3, 3), n=(3, 3, 3), subregions={"old": df.Region(p1=(0, 0, 0), p2=(1, 1, 1))}),
                             nvdim=3, value=(1, 2, 3), unit="old")
            decoy.to_file(path)
        ok, err = try_call(lambda: orig.to_file(path))
        clause = "C10_FileHoldsState" if kind in ("write", "overwrite") else "C10_Lossless"
        if not ok:
            part.violation(f"{clause}/write-raises/{sk}", "Field.to_file raises on a valid field", wit(exc=err))
            return
    else:
        write_legacy(df, path, f, emb, bool(fl["side"]), tuple(int(d) for d in fl.get("sw", ())))
    if kind in ("write", "overwrite"):
        ok, res = try_call(lambda: observe_h5(path, f, emb))
        if not ok:
            part.violation("C10_FileHoldsState/layout/unreadable", "the h5py view of the file does not have the documented groups/attributes", wit(exc=res))
            return
        view, vexact = res
        compare_view(part, f, fl, view, vexact, wit)
        if len(f["vals"]) > 1:
            part.nontriv(str(f), kind, emb.name)
        return
    ok, g = try_call(lambda: df.Field.from_file(path))
    if obs["st"] != "ok":
        raise core._tlc.MachineryError("read state without an ok expectation")
    if layout == "0.1":
        if not ok:
            part.violation(f"C10_Lossless/read-raises/{raise_cond(f)}", "Field.from_file raises on a file written by Field.to_file", wit(exc=g))
            return
        got, gexact = observe_field(g, f, emb, orig)
        compare_record(part, "C10_Lossless", f, obs["v"], got, gexact, wit)
    else:
        if not ok:
            part.violation(f"C10_LegacyReadable/read-raises/{g.split(':')[0]}", "Field.from_file raises on a file in the legacy layout", wit(exc=g))
            return
        got, gexact = observe_field(g, f, emb)
        e = obs["v"]
        if not gexact or got["lo"] != list(e["lo"]) or got["hi"] != list(e["hi"]) or got["n"] != list(e["n"]):
            part.violation("C10_LegacyReadable/corners-n/any", "corners / cell counts of a legacy file differ", wit(got=got))
        if got["nv"] != e["nv"]:
            part.violation("C10_LegacyReadable/nvdim/any", "component count of a legacy file differs", wit(got=got["nv"]))
        if got["kind"] != e["kind"] or got["vals"] != [list(c) for c in e["vals"]]:
            part.violation(f"C10_LegacyReadable/values/{f['kind']}", "values of a legacy file differ", wit(got=got["vals"][:4]))
        if fl["side"]:
            have = [(s["name"], s["lo"], s["hi"]) for s in got["subs"]]
            want = [(s["name"], list(s["lo"]), list(s["hi"])) for s in e["subs"]]
            if have != want:
                part.violation("C10_LegacyReadable/sidecar-subregions/any", "subregions of the side-car of a legacy file differ", wit(got=have))
    if len(f["vals"]) > 1:
        part.nontriv(str(f), str(act), emb.name)


# ------------------------------------------------------------------ channel T
ALNUM = "abcdefghijklmnopqrstuvwxyzABCDEFGHIJKLMNOPQRSTUVWXYZ0123456789"
RESERVED = set()


def _word(rnd, lo=1, hi=5, extra=""):
    return "".join(rnd.choice(ALNUM + extra) for _ in range(rnd.randrange(lo, hi)))


def gen_trace(df, rnd, tid, scratch):
    nd = rnd.choice([1, 2, 2, 3, 3, 4])
    cap = {1: 6, 2: 5, 3: 4, 4: 3}[nd]
    n = [rnd.randrange(1, cap + 1) for _ in range(nd)]
    c = [4 * rnd.randrange(1, 4) for _ in range(nd)]
    lo = [4 * rnd.randrange(-20, 20) for _ in range(nd)]
    if rnd.random() < 0.5:  # make the region integer-cornered
        lo = [8 * (q // 8) for q in lo]
        for d in range(nd):
            if (c[d] * n[d]) % 8:
                c[d] *= 2
    hi = [lo[d] + c[d] * n[d] for d in range(nd)]
    can_int = all(q % IU == 0 for q in lo + hi)
    rtag = "int" if can_int and rnd.random() < 0.7 else "float"
    if rnd.random() < 0.5:
        dims = (["x", "y", "z"] if nd <= 3 else ["x0", "x1", "x2", "x3"])[:nd]
    else:
        dims = []
        while len(dims) < nd:
            w = rnd.choice("abcdefghijklmnopqrstuvwxyz") if rnd.random() < 0.6 else _word(rnd, 2, 6, "_")
            if w not in dims:
                dims.append(w)
    units = [rnd.choice(["m", "nm", "s", "T", "rad", "", "A/m", "um"]) for _ in range(nd)]
    single = [d for d in dims if len(d) == 1]
    bcs = ["", "neumann", "dirichlet"] + (["".join(rnd.sample(single, rnd.randrange(1, len(single) + 1)))] if single else [])
    subs = []
    for k in range(rnd.choice([0, 0, 1, 2, 3])):
        a = [sorted(rnd.sample(range(n[d] + 1), 2)) for d in range(nd)]
        slo = [lo[d] + c[d] * a[d][0] for d in range(nd)]
        shi = [lo[d] + c[d] * a[d][1] for d in range(nd)]
        st = "int" if all(q % IU == 0 for q in slo + shi) and rnd.random() < 0.5 else "float"
        subs.append({"name": rnd.choice(["s", "zone", "A", "b_", "r-"]) + str(k), "lo": slo, "hi": shi, "tag": st})
    nv = rnd.choice([1, 1, 2, 3, 3, 4, 6])
    r = rnd.random()
    if r < 0.25:
        labels = {"some": False, "v": []}
    else:
        ls = []
        while len(ls) < nv:
            w = _word(rnd, 1, 5, "_-")
            if w not in ls and w not in RESERVED:
                ls.append(w)
        labels = {"some": True, "v": ls}
    kind = rnd.choice(["float", "float", "complex", "int"])
    ncell = int(np.prod(n))
    f = {"lo": lo, "c": c, "n": n, "rtag": rtag, "dims": dims, "units": units, "tol": rnd.choice(list(TOL)), "bc": rnd.choice(bcs),
         "subs": subs, "nv": nv, "labels": labels, "unit": rnd.choice([NONE, "A/m", "T", "", "J/m^3", "None?"]), "kind": kind,
         "vals": [[rnd.randrange(K) for _ in range(nv)] for _ in range(ncell)], "valid": [rnd.random() < 0.7 for _ in range(ncell)],
         "strkind": rnd.choice(["py"] * 8 + ["np-dims", "np-units"] + (["np-labels"] if labels["some"] else []))}
    tags = {rtag} | {s["tag"] for s in subs}
    emb = rnd.choice(INT_EMBS + ([embed.REAL[0], embed.REAL[2]] if tags == {"float"} else []))
    ev = []
    path = os.path.join(scratch, f"t{tid}{rnd.choice(['.h5', '.hdf5'])}")
    ok, orig = try_call(lambda: build_field(df, f, emb))
    if not ok:
        return {"id": tid, "emb": emb.name, "fld": f, "ev": [], "unbuildable": orig}
    check_built(orig, f)
    for step in range(rnd.randrange(1, 3)):
        for p in (path, path + ".subregions.json"):
            if os.path.exists(p):
                os.remove(p)
        if rnd.random() < 0.8:
            k = rnd.choice(["write", "overwrite"])
            if k == "overwrite":
                df.Field(df.Mesh(p1=(0, 0), p2=(2, 2), n=(2, 2)), nvdim=2, value=(1, 2), unit="old").to_file(path)
            ok, err = try_call(lambda: orig.to_file(path))
            if not ok:
                ev.append({"k": k, "ok": False, "exc": err.split(":")[0]})
                continue
            ok, res = try_call(lambda: observe_h5(path, f, emb))
            if not ok:  # the file lacks a documented group / attribute: the trace ends here with a direct finding
                return {"id": tid, "emb": emb.name, "fld": f, "ev": ev,
                        "viol": ("trace:C10_FileHoldsState/layout/unreadable", f"h5py view of the written file failed: {res}")}
            view, vexact = res
            ev.append({"k": k, "ok": True, "exact": bool(vexact), "file": view})
            ok, g = try_call(lambda: df.Field.from_file(path))
            if ok:
                rec, gexact = observe_field(g, f, emb, orig)
                ev.append({"k": "read", "ok": True, "exact": bool(gexact), "v": rec})
            else:
                ev.append({"k": "read", "ok": False, "exact": True, "exc": g.split(":")[0]})
        else:
            side = bool(subs) and rnd.random() < 0.5
            swb = [rnd.random() < 0.35 for _ in f["n"]]   # axes along which the stored p1 is the upper corner
            write_legacy(df, path, f, emb, side, tuple(d + 1 for d, b in enumerate(swb) if b))
            ev.append({"k": "legacy", "side": side, "sw": swb})
            ok, g = try_call(lambda: df.Field.from_file(path))
            if ok:
                rec, gexact = observe_field(g, f, emb)
                ev.append({"k": "read", "ok": True, "exact": bool(gexact), "v": rec})
            else:
                ev.append({"k": "read", "ok": False, "exact": True, "exc": g.split(":")[0]})
    return {"id": tid, "emb": emb.name, "fld": f, "ev": ev}


def trace_key(t, l, name):
    if not name.startswith("C10_"):
        return None
    f = t["fld"]
    ev = t["ev"][l - 1]
    clause, attr = name.split(":", 1)
    sk = f.get("strkind", "py")
    if attr in ("write-raises",):
        cond = sk
    elif attr == "read-raises":
        cond = ev.get("exc", "?") if clause == "C10_LegacyReadable" else raise_cond(f)
    elif attr in ("dims", "units"):
        cond = sk
    elif attr in ("corners", "corner-type"):
        cond = f["rtag"]
    elif attr == "tolerance":
        cond = f["tol"]
    elif attr in ("sub-corners", "sub-type", "subregions"):
        got = ev["v"]["subs"] if "v" in ev else [{"lo": r["row"][:len(f["n"])], "hi": r["row"][len(f["n"]):], "tag": None} for r in ev["file"]["subrows"]]
        cond = "count"
        for k, s in enumerate(f["subs"]):
            if k < len(got) and ((attr != "sub-type" and (got[k]["lo"] != s["lo"] or got[k]["hi"] != s["hi"])) or
                                 (attr == "sub-type" and got[k]["tag"] != s["tag"])):
                cond = sub_cond(f, k)
                break
        if attr == "subregions":
            attr = "sub-corners" if cond != "count" else "sub-names"
    elif attr == "labels" or attr == "field":
        attr, cond = "labels", label_cond(f)
        if clause == "C10_FileHoldsState" and ev["file"]["unit"] != (("None" if f["unit"] == NONE else f["unit"])):
            attr, cond = "unit", "none" if f["unit"] == NONE else "str"
    elif attr == "unit":
        cond = "none" if f["unit"] == NONE else "str"
    elif attr in ("values", "kind", "data"):
        cond = f["kind"]
    else:
        cond = "any"
    return f"trace:{clause}/{attr}/{cond}"


def run_traces(ctx, df, ntraces):
    seeds = [ctx.seed * 7907 + 31 * k for k in range(ntraces)]
    collected = []
    orig_merge = ctx.merge

    def chunk(items):
        part = Part()
        for tid, s in items:
            part.setdefault("tr", []).append(gen_trace(df, random.Random(s), tid, ctx.scratch))
        return part

    def merge(part):
        collected.extend(part.get("tr", ()))
        orig_merge(part)

    ctx.merge = merge
    try:
        ctx.pmap(chunk, [(k + 1, s) for k, s in enumerate(seeds)])
    finally:
        ctx.merge = orig_merge
    traces = sorted(collected, key=lambda t: t["id"])
    if len(traces) != ntraces:
        raise core._tlc.MachineryError(f"{len(traces)} traces generated, {ntraces} expected")
    unb = [t for t in traces if "unbuildable" in t]
    ctx.notes["T:unbuildable-fields"] = len(unb)
    if len(unb) > ntraces // 4:
        raise core._tlc.MachineryError(f"{len(unb)} of {ntraces} random fields could not be constructed: {unb[0]['unbuildable']}")
    for t in traces:
        if "viol" in t:
            ctx.violation(t["viol"][0], t["viol"][1], {"field": {k: x for k, x in t["fld"].items() if k not in ("vals", "valid")}, "embedding": t["emb"]})
    traces = [t for t in traces if t["ev"]]
    r, verdicts, _ = ctx.trace_check("C10Trace", "C10Trace.cfg", traces)
    expect = sum(len(t["ev"]) + 1 for t in traces)
    if r.distinct != expect:
        raise core._tlc.MachineryError(f"C10Trace consumed {r.distinct} states, expected {expect}")
    byid = {t["id"]: t for t in traces}
    for v in verdicts:
        _, tid, l, name = v
        t = byid[tid]
        key = trace_key(t, l, name)
        if key is None:
            raise core._tlc.MachineryError(f"C10Trace self-consistency verdict {name} on trace {tid} event {l}: {json.dumps(t)[:1500]}")
        e = dict(t["ev"][l - 1])
        ctx.violation(key, f"recorded execution rejected by C10Trace: {name}",
                      {"field": {k: x for k, x in t["fld"].items() if k not in ("vals", "valid")}, "embedding": t["emb"], "event": _short(e)})
    ctx.traces += len(traces)
    nev = sum(len(t["ev"]) for t in traces)
    ctx.evaluations += nev
    ctx.notes["trace_events"] = nev
    for t in traces:
        for e in t["ev"]:
            ctx.nontriv("T", t["id"], json.dumps(e, sort_keys=True)[:400])
    ctx.sample({"channel": "T", "trace": {"id": traces[0]["id"], "emb": traces[0]["emb"], "fld": traces[0]["fld"],
                                          "ev": [_short(e) for e in traces[0]["ev"][:2]]}})


def _short(e):
    e = json.loads(json.dumps(e))
    if "v" in e:
        for k in ("vals", "valid"):
            e["v"][k] = e["v"][k][:12]
    if "file" in e:
        e["file"]["array"]["data"] = e["file"]["array"]["data"][:12]
        e["file"]["valid"] = e["file"]["valid"][:12]
    return e


# ------------------------------------------------------------------ entry points
def run(ctx):
    df = core.import_library()
    RESERVED.update(dir(df.Field))
    r = ctx.model("MC_C10", f"C10_{ctx.tier}.cfg", dump=True)
    if r.ok:
        states = ctx.dump_states(r)
        if len(states) != r.distinct:
            raise core._tlc.MachineryError(f"dump has {len(states)} states, TLC reports {r.distinct}")
        work = []
        embs = {}
        for k, s in enumerate(states):
            if s["act"][0] in ("new", "legacy"):
                continue
            for e in embeddings_for(s["fld"], ctx.tier, ctx.seed):
                embs[e.name] = e
                if s["file"]["layout"] == "legacy" and e.name != INT_EMBS[0].name and e.name != "nm":
                    continue
                work.append((k, e.name))
        random.Random(ctx.seed).shuffle(work)

        def chunk(items):
            part = Part()
            for k, en in items:
                exec_state(df, states[k], embs[en], part, ctx.scratch, f"r{os.getpid()}")
                part.trace()
            if items:
                part.sample({"channel": "R", "state": states[items[0][0]], "embedding": items[0][1]})
            return part

        ctx.pmap(chunk, work)
        ctx.notes["embeddings"] = sorted(embs)
    run_traces(ctx, df, 400 if ctx.tier == "quick" else 6000)
    ctx.assumptions += [
        "TLC explores the bounded space of spec/C10.tla completely (record families in MC_C10.tla)",
        "value ids are interpreted by the harness as fixed pools of float64 / complex128 / int64 values and compared bit-wise "
        "(integers by value: the int -> float64 widening is not listed by the property, N3)",
        "the h5py view uses the documented layout of file version 0.1; the legacy layout is reconstructed from what "
        "_h5_legacy_load_field reads (p1, p2, n, dim, array + json side-car)",
        "vdim_mapping is not compared (not listed by the property, N3)",
    ]
    core.df_stage(ctx, df)   # mixed histories (spec/DF.tla): the clauses that come from this property's text
    return core.finish(ctx, rule=RULE, extra={"pool_float": [repr(v) for v in POOLF], "pool_int": POOLI})


def _tuplify(v):
    if isinstance(v, list):
        return tuple(_tuplify(x) for x in v)
    if isinstance(v, dict):
        return {k: _tuplify(x) for k, x in v.items()}
    return v


def replay(ctx, path):
    df = core.import_library()
    with open(path) as fh:
        rp = json.load(fh)
    w = rp["witness"]
    if "state" not in w:
        print("trace witness (re-run the check with the same VERIF_SEED to reproduce):", json.dumps(w)[:3000])
        return 1
    embs = {e.name: e for e in INT_EMBS + embed.REAL}
    part = Part()
    exec_state(df, _tuplify(w["state"]), embs[w["embedding"]], part, ctx.scratch, "replay")
    for k, what, _ in part["violations"]:
        print("still fails:", k, what)
    return 1 if part["violations"] else 0
