"""C08 - validity masks follow the data through every operation that keeps or maps cells.

M: TLC exhaustive on spec/C08.tla (register machine of spec/FieldAlg.tla with validity as heap objects; pool,
   initial masks and bounds in MC_C08.tla).
R: every dumped state is rebuilt in the real library and executed; the result's mask, its dtype/shape, its
   aliasing with every other register's mask (`is`, numpy.shares_memory = the heap references of the model),
   the effect of the validity setter and of an in-place write into a result's mask are compared with the state.
T: seeded random programs (algebra, derived fields, cell-mapping methods, HDF5/VTK round trips, validity
   setter, in-place mask writes) on random meshes, logged and validated by TLC against spec/C08Trace.tla, which
   evaluates the clauses C08_* on the observed registers (the source cell of every result cell is recognised
   from the observed data, so "validity is transformed exactly as the data" is decided on the observation).
"""
import json

import numpy as np

from .. import core, embed
from .. import c03_machine as mc
from .. import c08_trace
from ..core import Part
from .c03 import parse_state, read_blocks

META = dict(
    level="model_checking",
    level_text=("Exhaustive TLC model checking of spec/C08.tla: the register machine of spec/FieldAlg.tla with validity arrays as "
                "heap objects (identity `vo`), every Field-returning call that keeps or maps cells (unary, binary in both orders, "
                "dot/cross/angle, stacking, components, norm, orientation, complex parts, ufuncs, diff/grad/div/curl/laplace, sel, "
                "[], pad in five modes, resample, rotate90, HDF5 and VTK round trips), the validity setter (array, int array, "
                "function, constant, None, 'norm') and in-place mask writes, over all 2^4 initial masks of a 2x2 mesh and mask "
                "samples on 3x2x1 / 2x2x2 / 1-D meshes; clauses C08_Propagation, C08_OwnMask, C08_SetValidKeepsValues, "
                "C08_BoolOfMeshShape, C08_NormMarksNonzero. Every TLC state is replayed on the real library (mask, dtype, shape, "
                "`is`/shares_memory aliasing, effect of setter and of in-place writes), and seeded random programs are validated "
                "by TLC against spec/C08Trace.tla."),
    level_note=("Bounds: programs of depth 1 over all initial masks, depth 2 over mask samples with a reduced alphabet; pad widths "
                "(1,0),(0,2),(1,1),(2,1); resampling targets without centre-on-face ties; rotations k in {-1,1,2} (quick) / "
                "{-5,-2,-1,0,1,2,3,4} (thorough). Values of derivatives, phase and transcendental ufuncs are outside this model "
                "(validity and shape only). The 1e-8 band of valid='norm' is exercised in channel T only, through value classes "
                "zero / tiny (< 0.999e-8) / big (> 1.001e-8) of the LENGTH (also vectors whose components are each below 1e-8); lengths inside the hair-wide band are unconstrained. Calls that raise where the "
                "model expects a result are counted in the evidence notes, not judged (C03/C07/C12 own those clauses). "
                "Trusted: TLC, harness/tlaval.py, numpy.shares_memory, h5py/VTK as used by the library."
                " Padding with every np.pad mode and option (constant_values, statistic modes with stat_length, linear_ramp) is decided by the stage PadOpt (spec/PadOpt.tla, harness/padopt.py): the mask must be padded exactly as the data read as 0/1 numbers would be."),
    technique="TLA+ register machine with a mask heap (FieldAlg.tla, C08.tla) + TLC exhaustive; states replayed into code; code traces validated by TLC (C08Trace.tla)",
    design_ref="DESIGN.md section 7 C08, Appendix D",
)

RULE = ("states: every (initial registers with masks, program) within the cfg bounds; a case is one (state, embedding) pair executed "
        "on the real library; non-trivial = the masks involved are not all-True; distinct by (initial registers, program, embedding)")


def mask_condition(obs, exp, operands):
    """canonical class of a wrong mask"""
    if obs.shape != exp.shape:
        return "shape"
    if obs.all() and not exp.all():
        return "all-true"
    for name, m in operands:
        if m.shape == obs.shape and np.array_equal(obs, m) and not np.array_equal(exp, m):
            return f"{name}-operand-only"
    if len(operands) == 2 and operands[0][1].shape == obs.shape == operands[1][1].shape:
        if np.array_equal(obs, operands[0][1] | operands[1][1]):
            return "or"
    if not obs.any():
        return "all-false"
    return "other"


def exec_state(df, st, pool, emb, part, scratch):
    init, prog, obs = st["init"], st["prog"], st["obs"]
    if not prog:
        return
    mregs = list(st["regs"]) if "regs" in st else list(pool[init[0]])
    M = mc.Machine(df, emb, scratch)
    M.load(pool[init[0]])
    ins = prog[-1]
    creators = {}
    for p in prog[:-1]:
        try:
            c = mc.op_class(p, M.objs)
            res = M.execute(p, mregs)
            if res is not None:
                M.push(res)
                creators[len(M.objs)] = c
            else:
                M.resnap(p[1] - 1)
        except mc.Rejected:
            part.note("prefix_rejected")
            return
        # an intermediate result that already deviates from the model was reported in its own state
        w = (len(M.objs) if res is not None else p[1]) - 1
        got = mc.flat_mask(M.objs[w].valid)
        if M.objs[w].valid.dtype != np.bool_ or ("regs" in st and (got.shape != (len(mregs[w]["valid"]),) or
                                                      not np.array_equal(got.astype(bool), np.array(mregs[w]["valid"], dtype=bool)))):
            part.note("prefix_deviates_from_model")
            return
    opc = mc.op_class(ins, M.objs)
    key = lambda clause, cond: f"{clause}/{opc}/{cond}"
    wit = lambda **kw: dict(init=init, prog=prog, embedding=emb.name, **kw)
    op, i, j, x = ins
    part.count()
    if not obs["ok"]:
        return  # rejections belong to C03
    operands = [(nm, M.objs[k - 1].valid.copy()) for nm, k in (("left", i), ("right", j)) if k and isinstance(M.objs[k - 1], df.Field)]
    try:
        F = M.execute(ins, mregs)
    except mc.Rejected as ex:
        part.note(f"raised:{opc}:{type(ex.exc).__name__}")
        return
    E = obs["reg"]
    exp = np.array(E["valid"], dtype=bool)
    if any(not m.all() for _, m in operands) or not exp.all():
        part.nontriv(str(init), str(prog), emb.name)
    if op == "mutate_valid":
        ch = M.changed()
        leaked = sorted(k for k in ch if k not in obs["ch"])
        missing = sorted(k for k in obs["ch"] if k not in ch)
        copc = creators.get(i, "initial")
        if leaked:
            how = "same-object" if any(M.objs[k - 1].valid is M.objs[i - 1].valid for k in leaked) else "view"
            part.violation(f"C08_OwnMask/{copc}/{how}", "an in-place write into a result's mask changed another register's mask",
                           wit(changed={k: ch[k] for k in leaked}, mutated=i))
        if missing or (i in ch and ch[i] != ["validity"]):
            part.violation(f"C08_OwnMask/{copc}/write-lost", "an in-place write into a mask did not (only) change that mask", wit(changed=ch))
        return
    if op == "set_valid":
        a = M.objs[i - 1]
        ch = M.changed()
        if "values" in ch.get(i, []) or any(p != "validity" for p in ch.get(i, [])):
            part.violation(key("C08_SetValidKeepsValues", "+".join(ch[i])), "setting validity changed stored values / metadata", wit(changed=ch))
        others = sorted(k for k in ch if k != i)
        if others:
            how = "same-object" if any(M.objs[k - 1] is a for k in others) else "view"
            part.violation(f"C08_OwnMask/{creators.get(max(others + [i]), 'initial')}/{how}", "setting validity of one field changed another register", wit(changed=ch))
        check_mask_type(part, key, wit, a, E)
        got = mc.flat_mask(a.valid)
        if got.shape == exp.shape and not np.array_equal(got.astype(bool), exp):
            clause = "C08_NormMarksNonzero" if x[0] == "norm" else "C08_SetValidMask"
            part.violation(key(clause, mask_condition(got.astype(bool), exp, [])), "the validity setter stored a different mask", wit(got=got, want=exp))
        return
    if not isinstance(F, df.Field):
        part.note(f"not-a-field:{opc}")
        return
    check_mask_type(part, key, wit, F, E)
    got = mc.flat_mask(F.valid)
    if got.shape != exp.shape or not np.array_equal(got.astype(bool), exp):
        part.violation(key("C08_Propagation", mask_condition(got.astype(bool), exp, [(n, mc.flat_mask(m).astype(bool)) for n, m in operands])),
                       "the result's validity is not the operand's / the AND of both / the mapped mask", wit(got=got, want=exp))
    # the data the mask belongs to (placement of data is C07/C12's business: recorded, not judged)
    if E["vx"] and op in ("sel", "selrange", "getitem", "pad", "resample", "rotate90", "h5", "vtk"):
        n = tuple(E["m"]["n"])
        if F.array.shape != n + (E["nv"],) or not mc.values_close(mc.flat_cells(F.array), mc.expected_array(E["val"]), mc.magnitude(mregs, ins, None)):
            part.note(f"data_differs_from_model:{opc}")
    # heap references: the result's mask must be a new object
    same, shared = M.aliases(F)
    if same:
        part.violation(key("C08_OwnMask", "same-object"), "the result's validity array is the operand's array object", wit(aliases=same))
    elif shared:
        part.violation(key("C08_OwnMask", "view"), "the result's validity array shares memory with an operand's", wit(aliases=shared))
    ch = M.changed()
    if ch:
        part.violation(key("C08_OwnMask", "operand-changed"), "evaluating the operation changed a register", wit(changed=ch))


def check_mask_type(part, key, wit, F, E):
    n = tuple(E["m"]["n"])
    if F.valid.dtype != np.bool_:
        part.violation(key("C08_BoolOfMeshShape", f"dtype-{F.valid.dtype}"), "validity is not a Boolean array", wit(dtype=str(F.valid.dtype)))
    if tuple(F.valid.shape) != n:
        part.violation(key("C08_BoolOfMeshShape", "shape"), "validity does not have the mesh shape", wit(shape=F.valid.shape, n=n))


def run_replay(ctx, df, r, embs):
    blocks = read_blocks(r.dump)
    if len(blocks) != r.distinct:
        raise core._tlc.MachineryError(f"dump has {len(blocks)} states, TLC reports {r.distinct}")
    pool, rest = {}, []
    for b in blocks:
        if "/\\ prog = <<>>" in b:
            st = parse_state(b)
            pool[st["init"][0]] = st["regs"]
        else:
            rest.append(b)
    if not pool or not rest:
        raise core._tlc.MachineryError("dump without initial / successor states")
    scratch = ctx.scratch
    work = [(b, e) for b in rest for e in range(len(embs))]

    def chunk(items):
        part = Part()
        last = (None, None)
        for b, ei in items:
            if last[0] is not b:
                last = (b, parse_state(b))
            exec_state(df, last[1], pool, embs[ei], part, scratch)
            if ei == 0:
                part.note("fired:" + str(last[1]["prog"][-1][0]))
            part.trace()
        if items:
            st = parse_state(items[0][0])
            part.sample({"channel": "R", "init": st["init"], "prog": st["prog"], "embedding": embs[items[0][1]].name,
                         "expected_valid": st["obs"].get("reg", {}).get("valid")})
        return part

    ctx.pmap(chunk, work)


def run(ctx):
    df = core.import_library()
    embs = [embed.DYADIC[0], embed.REAL[1]] if ctx.tier == "quick" else [embed.DYADIC[0], embed.DYADIC[1], embed.REAL[1], embed.REAL[2]]
    # TLC's -coverage cannot be used on the FieldAlg models (its cost model expands every operator at every call site and
    # exhausts the heap before the first state); the per-action counts are taken from the dumped programs instead
    r = ctx.model("MC_C08", f"C08_{ctx.tier}.cfg", dump=True, coverage=False)
    if r.ok:
        run_replay(ctx, df, r, embs)
        fired = {k[6:]: v for k, v in ctx.notes.items() if k.startswith("fired:")}
        if not fired:
            raise core._tlc.MachineryError("no instruction of the model was replayed")
        ctx.coverage_actions.update({f"MC_C08.{a}": n for a, n in fired.items()})
    c08_trace.run_traces(ctx, df, 400 if ctx.tier == "quick" else 6000)
    ctx.assumptions += [
        "TLC explores the bounded program space of spec/C08.tla completely (pool, masks and bounds in MC_C08.tla)",
        "numpy.shares_memory / `is` on the public `valid` arrays are the heap references of the model",
        "calls that raise where the model expects a result are counted (notes), not judged by C08",
    ]
    # stage PadOpt (spec/PadOpt.tla): padding transforms validity exactly as it transforms the data, for every np.pad
    # mode and option (constant_values, stat_length, end_values, ...)
    from .. import padopt
    padopt.run_stage(ctx, df, "C08_PadLikeData")
    core.df_stage(ctx, df)   # mixed histories (spec/DF.tla): the clauses that come from this property's text
    return core.finish(ctx, rule=RULE, extra={"embeddings": [e.name for e in embs]})


def replay(ctx, path):
    with open(path) as fh:
        rp = json.load(fh)
    if "/pad." in rp.get("key", "") and ("widths" in rp["witness"] or "event" in rp["witness"]):
        from . import padopt as padopt_entry
        return padopt_entry.replay(ctx, path)
    print("witness:", json.dumps(rp["witness"])[:3000])
    return 1
