"""C06 - integrals and means are cell sums times cell measure, consistent across axes.

M: TLC exhaustive on spec/C06.tla (MC_C06 + C06_<tier>.cfg): every mesh of 1-4 dimensions with pairwise
   different integer cell sizes within the bounds, x every public call (integrate(), integrate(d),
   integrate(d, cumulative), all chains of directional integrals in every order, mean(), mean(d),
   mean([..]) in every order, the same on a*f+b*g, on the translated mesh, on one component).
R: every dumped state is executed on the real Field API under the tier's float embeddings and every
   number of the result compared with the state's `obs` (exact on dyadic embeddings for integrals,
   tolerance for means and on real-world embeddings), including the result mesh.
T: seeded random integer fields on larger meshes (to 6^3 / 3^4, 1-4 components); the *observed* results
   are projected to lattice integers over the known denominator, logged and validated by TLC against
   spec/C06Trace.tla, which evaluates the property's clauses on the observed values.
"""
import json
import random

import numpy as np

from .. import core, embed, fld, lat
from ..core import Part

META = dict(
    level="model_checking",
    level_text=("Exhaustive TLC model checking of spec/C06.tla (every 1-4-dimensional mesh with pairwise different integer "
                "cell sizes within the bounds of MC_C06.tla x 1-4 components x every public integrate/mean call, all chains "
                "of directional integrals and all direction lists in every order; eleven invariants C06_*), every TLC state "
                "replayed on the real Field.integrate / Field.mean / discretisedfield.integrate under dyadic (exact) and "
                "real-world (tolerance) float embeddings, plus seeded random executions on larger meshes whose observed "
                "results are validated by TLC against spec/C06Trace.tla (clauses evaluated on the observed numbers)."),
    level_note=("Bounds: quick n<=4/3/3/2 (1-4-D), thorough n<=6/4/3/2; integer cell sizes pairwise different along the axes; "
                "integer values in -6..6 from a fixed pattern (R) or random in -9..9 on meshes to 6x6x6 / 3^4 (T); results carry "
                "explicit denominators (1, 2 for the cumulative integral, the averaged cell count for means). Trusted: TLC, "
                "harness/tlaval.py, the embedding/projection adapter, exactness of IEEE sums of small integers on dyadic "
                "embeddings. Length scales 1e-12..1e6 enter through the embeddings only. Not compared (not stated by the "
                "property): unit, validity, component labels of the results."),
    technique=("TLA+ array model (Cells.tla, C06.tla) + TLC exhaustive; spec states replayed into code; code traces "
               "validated by TLC (C06Trace.tla); Apalache inductive invariant of the 1-d core for lines of any length (C06Core.tla), the same as a TLAPS proof (C06CoreProof.tla)"),
    design_ref="DESIGN.md section 7 C06",
)

RULE = ("states: all configurations within the cfg bounds x every query action; a case is one (state, embedding) pair "
        "(batched states hold one result per operation / direction sequence, each counted as an evaluation); "
        "non-trivial = the mesh has more than one cell; distinct by (mesh, nv, action, embedding)")

SCHEMES = [("x", "y", "z", "t"), ("z", "y", "x", "w"), ("b", "a", "d", "c")]
UNITS = [("m", "m", "m", "m"), ("nm", "s", "K", "rad"), ("a", "b", "c", "d")]
VDIMS = {2: ("p", "q"), 3: ("mx", "my", "mz"), 4: ("a0", "a1", "a2", "a3")}

CLAUSE = {"integrate_all": "C06_VolumeIsSum", "integrate_dir": "C06_DirectionalOnReducedMesh",
          "integrate_cum": "C06_CumulativeHalfCell", "chains": "C06_Fubini", "mean_all": "C06_MeanIsIntegralOverExtent",
          "mean_dir": "C06_MeanIsIntegralOverExtent", "mean_seqs": "C06_MeanIsIntegralOverExtent",
          "linear": "C06_Linear", "translated": "C06_TranslationInvariant", "component": "C06_PerComponent",
          "rescaled": "C06_AfterInplaceScale"}
OP_CLAUSE = {"all": "C06_VolumeIsSum", "dir": "C06_DirectionalOnReducedMesh", "cum": "C06_CumulativeHalfCell",
             "chain": "C06_Fubini", "mean_all": "C06_MeanIsIntegralOverExtent", "mean_dir": "C06_MeanIsIntegralOverExtent",
             "mean_seq": "C06_MeanIsIntegralOverExtent"}
OPNAME = {"all": "integrate_all", "dir": "integrate_dir", "cum": "integrate_cum", "mean_all": "mean_all",
          "mean_dir": "mean_dir"}


def embs_for(tier, seed):
    """one C06 lattice unit = four quanta of the shared embeddings (their quanta are quarter cells)"""
    return [embed.Embedding(e.name, 4 * e.quantum, e.origin, e.dyadic) for e in embed.for_tier(tier, seed)]


def scheme_of(m, nv):
    k = (sum(m["n"]) + m["c"][0] + abs(m["lo"][0]) + nv) % 3
    nd = len(m["n"])
    return SCHEMES[k][:nd], UNITS[(k + nv) % 3][:nd]


def vdims_of(m, nv):
    if nv >= 2 and (sum(m["n"]) + nv) % 2 == 0:
        return list(VDIMS[nv])
    return None


_R_DTYPE = [None]   # dtype the R channel hands to the constructor for the state at hand (None / int), see exec_state


def make_field(df, m, emb, arr, names, units, vdims, dtype=None):
    mesh = lat.mesh_of(df, m, emb, dims=list(names), units=list(units))
    nv = len(arr[0])
    dtype = dtype or _R_DTYPE[0]
    a = fld.unflatten(arr, m["n"], dtype=dtype or float)
    salt = sum(int(v) for v in m["n"]) + nv + int(m["c"][0]) // 4
    kw = {}
    ncell = int(np.prod(m["n"]))
    if ncell > 1 and (salt + int(abs(float(np.sum(a))))) % 2 == 0:
        # a partial validity mask: integrals and means are sums over ALL cells of the mesh ("the sum of the cell values times
        # the cell volume", "the integral divided by the integrated extent"); the mask plays no part in them (seeded change
        # C06-23 averaged over the valid cells only)
        mask = (np.arange(ncell) % 3 != 1).reshape(tuple(int(v) for v in m["n"]), order="F")
        kw["valid"] = mask
    if dtype is None:
        return fld.lived(df.Field(mesh, nvdim=nv, value=a, vdims=vdims, **kw), salt)
    # the dtype is also given explicitly (Field.dtype is then set): results must not be cast back to it (seed C06-3)
    return fld.lived(df.Field(mesh, nvdim=nv, value=a, vdims=vdims, dtype=dtype, **kw), salt)


# ------------------------------------------------------------------ executing one operation
def call_op(df, f, op, names, via_function=False):
    """op as in spec/C06.tla Ops: ('all',) ('mean_all',) ('dir', d) ('cum', d) ('mean_dir', d);
    also ('chain', xs) and ('mean_seq', xs)."""
    k = op[0]
    if k == "all":
        return df.integrate(f) if via_function else f.integrate()
    if k == "dir":
        return df.integrate(f, direction=names[op[1] - 1]) if via_function else f.integrate(names[op[1] - 1])
    if k == "cum":
        d = names[op[1] - 1]
        return df.integrate(f, d, cumulative=True) if via_function else f.integrate(direction=d, cumulative=True)
    if k == "mean_all":
        return f.mean()
    if k == "mean_dir":
        return f.mean(names[op[1] - 1])
    if k == "chain":
        r = f
        for x in op[1]:
            r = r.integrate(names[x - 1])
        return r
    if k == "mean_seq":
        dirs = [names[x - 1] for x in op[1]]
        return f.mean(tuple(dirs) if len(dirs) % 2 == 0 else dirs)
    raise core._tlc.MachineryError(f"unknown op {op}")


def measure_axes(op, nd):
    k = op[0]
    if k == "all":
        return list(range(1, nd + 1))
    if k in ("dir", "cum"):
        return [op[1]]
    if k == "chain":
        return list(op[1])
    return []


def rel_tol(emb, m, axes):
    """admissible relative error of a product of cell lengths along `axes` (plus float rounding of the sums)"""
    if emb.dyadic:
        return 1e-12
    nd = len(m["n"])
    coords = [m["lo"][d] for d in range(nd)] + [m["lo"][d] + m["c"][d] * m["n"][d] for d in range(nd)]
    return 1e-12 + sum(float(emb.tol_q(m["c"][x - 1], coords)) / m["c"][x - 1] for x in axes)


def scale_of(arr):
    a = np.abs(np.asarray(arr, dtype=float))
    return max(1.0, float(a.sum(axis=0).max()))


def project_values(emb, got, den, k, m, axes, S, exact_possible):
    """got: float array of results; returns (lattice numerators as float array, ok mask info).
    numerators = got * den / Q^k; ok if integral within the tolerance."""
    Q = emb.quantum
    scaled = np.asarray(got, dtype=float) * den / (Q ** k)
    nums = np.rint(scaled)
    M = 1.0
    for x in axes:
        M *= m["c"][x - 1]
    if emb.dyadic and exact_possible:
        tol = 0.0
    else:
        tol = rel_tol(emb, m, axes) * S * M
    with np.errstate(invalid="ignore"):
        ok = bool(np.all(np.isfinite(scaled))) and bool(np.all(np.abs(scaled - nums) <= tol))
    return nums, scaled, ok, tol


def project_result(df, got, emb, m, names, op, den, S):
    """Project whatever the library returned onto the result record of spec/C06.tla.
    Returns dict(ok, exact, kind, m, ax, v, den) with integers only (plus 'why' for humans)."""
    nd = len(m["n"])
    axes = measure_axes(op, nd)
    k = len(axes)
    exact_possible = den in (1, 2)
    cq = max(m["c"])
    coords = [m["lo"][d] for d in range(nd)] + [m["lo"][d] + m["c"][d] * m["n"][d] for d in range(nd)]
    out = {"ok": True, "exact": True, "kind": "", "m": {"lo": [], "c": [], "n": []}, "ax": [], "v": [], "den": den,
           "why": ""}
    if isinstance(got, df.Field):
        out["kind"] = "field"
        rm = got.mesh
        rnames = list(rm.region.dims)
        ax = [names.index(x) + 1 if x in names else 0 for x in rnames]
        out["ax"] = ax
        if 0 in ax:
            out["exact"] = False
            out["why"] += f"unknown dims {rnames};"
        lo, c = [], []
        for j in range(rm.region.ndim):
            a, oka = lat.proj_coord(emb, rm.region.pmin[j], cq, coords)
            b, okb = lat.proj_coord(emb, rm.region.pmax[j], cq, coords)
            n_j = int(rm.n[j])
            lo.append(a)
            cj = (b - a) // n_j if n_j and (b - a) % n_j == 0 else 0
            c.append(cj)
            if not (oka and okb) or cj == 0:
                out["exact"] = False
                out["why"] += f"corner {j} off the lattice;"
        out["m"] = {"lo": lo, "c": c, "n": [int(v) for v in rm.n]}
        out["units"] = list(rm.region.units)
        flat = fld.flatten(got.array)
    elif isinstance(got, np.ndarray) and got.ndim == 1:
        out["kind"] = "array"
        flat = got.reshape((1, -1))
    else:
        out["kind"] = type(got).__name__
        out["exact"] = False
        out["why"] += "unexpected return type;"
        return out
    if np.iscomplexobj(flat):
        out["exact"] = False
        out["why"] += "complex result;"
        flat = flat.real
    nums, scaled, ok, tol = project_values(emb, flat, den, k, m, axes, S, exact_possible)
    if not ok:
        out["exact"] = False
        bad = np.argwhere(~(np.abs(scaled - nums) <= tol))
        out["why"] += f"values off the lattice (tol {tol:.3g}) e.g. {scaled[tuple(bad[0])] if len(bad) else scaled.flat[0]!r};"
    if np.all(np.isfinite(nums)) and np.all(np.abs(nums) < 2 ** 30):
        out["v"] = [[int(x) for x in row] for row in nums]
    else:
        out["exact"] = False
        out["why"] += "values not finite / too large;"
        out["v"] = [[0 for _ in row] for row in nums]
    return out


def den_of(op, m):
    k = op[0]
    if k in ("all", "dir", "chain"):
        return 1
    if k == "cum":
        return 2
    if k == "mean_all":
        return int(np.prod(m["n"]))
    if k == "mean_dir":
        return int(m["n"][op[1] - 1])
    if k == "mean_seq":
        return int(np.prod([m["n"][x - 1] for x in op[1]]))
    raise core._tlc.MachineryError(f"unknown op {op}")


def run_and_project(df, f, m, emb, names, op, S, via_function=False):
    try:
        got = call_op(df, f, op, names, via_function)
    except Exception as ex:  # "rejected" = any exception
        return {"ok": False, "exact": True, "kind": "", "m": {"lo": [], "c": [], "n": []}, "ax": [], "v": [],
                "den": den_of(op, m), "why": f"{type(ex).__name__}: {ex}"}
    return project_result(df, got, emb, m, names, op, den_of(op, m), S)


def same_as_spec(p, exp, names, units):
    """compare a projected result with the specification's result record; returns condition class or None"""
    if not p["ok"]:
        return "raises"
    if p["kind"] != exp["kind"]:
        return "type"
    if p["kind"] == "field":
        if tuple(p["ax"]) != tuple(exp["ax"]) or tuple(p["m"]["n"]) != tuple(exp["m"]["n"]):
            return "mesh-axes"
        if tuple(p["m"]["lo"]) != tuple(exp["m"]["lo"]) or tuple(p["m"]["c"]) != tuple(exp["m"]["c"]):
            return "mesh-region"
        if tuple(p["units"]) != tuple(units[x - 1] for x in exp["ax"]):
            return "mesh-units"
    if len(p["v"]) != len(exp["v"]) or any(len(a) != len(b) for a, b in zip(p["v"], exp["v"])):
        return "shape"
    if not p["exact"]:
        return "values-off-lattice"
    if p["den"] != exp["den"] or any(tuple(a) != tuple(b) for a, b in zip(p["v"], exp["v"])):
        return "values"
    return None


WHAT = {
    "raises": "the call raised although the property defines its result",
    "type": "wrong kind of result (plain array vs field)",
    "mesh-axes": "result is not on the mesh with exactly the integrated axes removed (names / cell counts)",
    "mesh-region": "result mesh has other corners / cell sizes than the original mesh without the integrated axes",
    "mesh-units": "result mesh lost the units of the remaining axes",
    "shape": "result array has the wrong shape",
    "values-off-lattice": "result is not (sum of cell values) x (cell measure) / denominator for any integers",
    "values": "result differs from the cell sum times cell measure demanded by the property",
}


def _warm_up(df, f, m, emb, names, obs, S):
    """read every quantity once before an in-place move of the mesh (results are not judged here)"""
    for op in sorted(obs):
        try:
            run_and_project(df, f, m, emb, names, op, S, False)
        except Exception:
            pass


def exec_state(df, st, emb, part, arrays):
    m, nv, pat, act, obs = st["mesh"], st["nv"], st["pat"], st["act"], st["obs"]
    nd = len(m["n"])
    kind = act[0]
    names, units = scheme_of(m, nv)
    vdims = vdims_of(m, nv)
    A, B = arrays[cfg_key(st)]
    dimtag = "1d" if nd == 1 else "nd"
    # the values are integers: every third (state, embedding) pair uses an integer-dtype field given with dtype=int
    _R_DTYPE[0] = int if (nd + nv + pat + sum(m["n"]) + len(emb.name) + len(str(act))) % 3 == 0 else None

    def report(clause, opn, cond, p, exp, **kw):
        if cond == "raises":
            # a call that raises violates the clause that defines its result, whatever batch it was issued in
            clause = OP_CLAUSE[kw["op"][0]]
            if dimtag == "1d":
                cond = "1d-raises"
        part.violation(f"{clause}/{opn}/{cond}", WHAT.get(cond.replace("1d-", ""), cond),
                       dict(mesh=m, nv=nv, pat=pat, act=act, embedding=emb.name, dims=names, units=units, vdims=vdims,
                            array=A, dtype="int" if _R_DTYPE[0] is int else "default", observed={k: v for k, v in p.items() if k != "units"}, expected=exp, **kw))

    part.count()
    if kind == "new":
        # the array handed in is the array held (first dimension fastest order is the harness convention)
        f = make_field(df, m, emb, A, names, units, vdims)
        if f.array.shape != tuple(m["n"]) + (nv,):
            part.violation("construct/new/shape", "Field does not hold an array of shape (*n, nvdim)", dict(mesh=m, nv=nv))
        return
    clause = CLAUSE[kind]
    if kind == "linear":
        a, b = act[1]
        arr = [[a * x + b * y for x, y in zip(ra, rb)] for ra, rb in zip(A, B)]
        fa = make_field(df, m, emb, A, names, units, vdims)
        fb = make_field(df, m, emb, B, names, units, vdims)
        try:
            f = a * fa + b * fb      # built through the public field algebra
        except Exception as ex:
            raise core._tlc.MachineryError(f"cannot build a*f+b*g: {ex!r}")
        S = scale_of(arr)
        base = m
    elif kind == "translated":
        s = act[1]
        f0 = make_field(df, m, emb, A, names, units, vdims)
        S = scale_of(A)
        if (pat + nd + nv) % 2 == 0:
            mesh2 = f0.mesh.translate([emb.length(s[d]) for d in range(nd)])
            f = df.Field(mesh2, nvdim=nv, value=f0.array, vdims=vdims)
        else:
            # a history: every quantity is read once, then the field's own mesh is moved in place, then read again
            _warm_up(df, f0, m, emb, names, obs, S)
            f0.mesh.translate([emb.length(s[d]) for d in range(nd)], inplace=True)
            f = f0
        base = dict(m, lo=[m["lo"][d] + s[d] for d in range(nd)])
    elif kind == "rescaled":
        s = act[1]
        f = make_field(df, m, emb, A, names, units, vdims)
        S = scale_of(A)
        _warm_up(df, f, m, emb, names, obs, S)
        f.mesh.scale(s, reference_point=[emb.x(0)] * nd, inplace=True)
        base = dict(m, lo=[s * m["lo"][d] for d in range(nd)], c=[s * m["c"][d] for d in range(nd)])
    elif kind == "component":
        f0 = make_field(df, m, emb, A, names, units, vdims)
        f = getattr(f0, f0.vdims[act[1] - 1])
        S = scale_of(A)
        base = m
    else:
        f = make_field(df, m, emb, A, names, units, vdims)
        S = scale_of(A)
        base = m

    if kind in ("integrate_all", "integrate_dir", "integrate_cum", "mean_all", "mean_dir"):
        op = {"integrate_all": ("all",), "integrate_dir": ("dir",), "integrate_cum": ("cum",),
              "mean_all": ("mean_all",), "mean_dir": ("mean_dir",)}[kind] + tuple(act[1:])
        items = [(op, obs, False)]
        if kind.startswith("integrate"):
            items.append((op, obs, True))   # discretisedfield.integrate(field, ...)
    elif kind == "chains":
        items = [(("chain", xs), r, False) for xs, r in sorted(obs.items())]
    elif kind == "mean_seqs":
        items = [(("mean_seq", xs), r, False) for xs, r in sorted(obs.items())]
    else:
        items = [(op, r, False) for op, r in sorted(obs.items())]
    for op, exp, via in items:
        p = run_and_project(df, f, base, emb, names, op, S, via)
        cond = same_as_spec(p, exp, names, units)
        part.count()
        if cond:
            opn = OPNAME.get(op[0], op[0]) + ("_fn" if via else "")
            if op[0] == "mean_seq" and len(op[1]) == 1:
                opn = "mean_seq1"
            report(clause, opn, cond, p, exp, op=op)
    if int(np.prod(m["n"])) > 1:
        part.nontriv(str(m), nv, pat, str(act), emb.name)


def cfg_key(st):
    m = st["mesh"]
    return (tuple(m["lo"]), tuple(m["c"]), tuple(m["n"]), st["nv"], st["pat"])


# ------------------------------------------------------------------ channel T driver
def _distinct_seqs(rnd, nd, cap):
    """a sample of sequences of distinct axes containing several orders of the same sets"""
    import itertools

    allseq = [p for k in range(1, nd + 1) for p in itertools.permutations(range(1, nd + 1), k)]
    if len(allseq) <= cap:
        return [list(p) for p in allseq]
    out = set()
    while len(out) < cap:
        k = rnd.randrange(1, nd + 1)
        s = rnd.sample(range(1, nd + 1), k)
        out.add(tuple(s))
        s2 = list(s)
        rnd.shuffle(s2)
        out.add(tuple(s2))
    return [list(p) for p in sorted(out)]


def _strip(p):
    return {k: v for k, v in p.items() if k not in ("why", "units")}


def gen_trace(df, rnd, tid, embs):
    nd = rnd.choice([1, 2, 2, 3, 3, 3, 4])
    cap = {1: 12, 2: 7, 3: 6, 4: 3}[nd]
    cs = rnd.sample(range(1, 8), nd)          # pairwise different cell sizes
    m = {"lo": [rnd.randrange(-60, 60) for _ in range(nd)], "c": cs, "n": [rnd.randrange(1, cap + 1) for _ in range(nd)]}
    nv = rnd.choice([1, 1, 2, 3, 3, 4])
    ncell = int(np.prod(m["n"]))
    A = [[rnd.randrange(-9, 10) for _ in range(nv)] for _ in range(ncell)]
    B = [[rnd.randrange(-9, 10) for _ in range(nv)] for _ in range(ncell)]
    emb = rnd.choice(embs)
    names = SCHEMES[rnd.randrange(3)][:nd]
    units = UNITS[rnd.randrange(3)][:nd]
    vdims = list(VDIMS[nv]) if nv >= 2 and rnd.random() < 0.5 else None
    dtype = rnd.choice([float, float, int])
    f = make_field(df, m, emb, A, names, units, vdims, dtype=dtype)
    g = make_field(df, m, emb, B, names, units, vdims, dtype=dtype)
    S = scale_of(A)
    ops = [("all",), ("mean_all",)] + [(o, d) for o in ("dir", "cum", "mean_dir") for d in range(1, nd + 1)]
    ev = []
    P = lambda fobj, base, op, SS: _strip(run_and_project(df, fobj, base, emb, names, op, SS))
    for _ in range(rnd.randrange(4, 9)):
        r = rnd.random()
        if r < 0.3:
            op = rnd.choice(ops)
            ev.append({"k": "op", "op": list(op), "r": P(f, m, op, S)})
        elif r < 0.42:
            seqs = _distinct_seqs(rnd, nd, 10)
            ev.append({"k": "chains", "tab": [[xs, P(f, m, ("chain", tuple(xs)), S)] for xs in seqs],
                       "all": P(f, m, ("all",), S)})
        elif r < 0.54:
            d = rnd.randrange(1, nd + 1)
            ev.append({"k": "cum", "d": d, "r": P(f, m, ("cum", d), S), "dir": P(f, m, ("dir", d), S)})
        elif r < 0.7:
            k = rnd.randrange(1, nd + 1)
            xs = rnd.sample(range(1, nd + 1), k)
            if k == 1 and rnd.random() < 0.6:
                mop, iop = ("mean_dir", xs[0]), ("dir", xs[0])
            elif k == nd and rnd.random() < 0.4:
                mop, iop = ("mean_all",), ("all",)
            else:
                mop, iop = ("mean_seq", tuple(xs)), ("chain", tuple(xs))
            ev.append({"k": "mean", "form": mop[0], "xs": xs, "r": P(f, m, mop, S), "int": P(f, m, iop, S)})
        elif r < 0.82:
            a, b = rnd.randrange(-3, 4), rnd.randrange(-3, 4)
            op = rnd.choice(ops)
            comb = [[a * x + b * y for x, y in zip(ra, rb)] for ra, rb in zip(A, B)]
            h = a * f + b * g
            ev.append({"k": "lin", "op": list(op), "a": a, "b": b, "rf": P(f, m, op, S), "rg": P(g, m, op, scale_of(B)),
                       "r": P(h, m, op, scale_of(comb))})
        elif r < 0.92:
            s = [rnd.randrange(-40, 40) for _ in range(nd)]
            op = rnd.choice(ops)
            mesh2 = f.mesh.translate([emb.length(v) for v in s])
            f2 = df.Field(mesh2, nvdim=nv, value=f.array, vdims=vdims)
            base = dict(m, lo=[m["lo"][d] + s[d] for d in range(nd)])
            ev.append({"k": "transl", "op": list(op), "s": s, "r0": P(f, m, op, S), "r": P(f2, base, op, S)})
        elif nv > 1:
            c = rnd.randrange(1, nv + 1)
            op = rnd.choice(ops)
            fc = getattr(f, f.vdims[c - 1])
            ev.append({"k": "comp", "op": list(op), "c": c, "r0": P(f, m, op, S), "r": P(fc, m, op, S)})
    return {"id": tid, "dy": emb.dyadic, "emb": emb.name, "mesh": m, "nv": nv, "a": A, "b": B, "dims": list(names),
            "units": list(units), "vdims": vdims or [], "dtype": dtype.__name__, "ev": ev}


def run_traces(ctx, df, ntraces, embs):
    rnd = random.Random(ctx.seed * 7919 + 6)
    traces = [gen_trace(df, rnd, t + 1, embs) for t in range(ntraces)]
    traces = [t for t in traces if t["ev"]]
    r, verdicts, _ = ctx.trace_check("C06Trace", "C06Trace.cfg", traces)
    expect = sum(len(t["ev"]) + 1 for t in traces)
    if r.distinct != expect:
        raise core._tlc.MachineryError(f"C06Trace consumed {r.distinct} states, expected {expect}")
    byid = {t["id"]: t for t in traces}
    for v in verdicts:
        _, tid, l, name = v
        clause, cond = name
        t = byid[tid]
        e = t["ev"][l - 1]
        nd = len(t["mesh"]["n"])
        opn = OPNAME.get(e["op"][0], e["op"][0]) if "op" in e else (e.get("form") or e["k"])
        if opn == "mean_seq" and len(e.get("xs", ())) == 1:
            opn = "mean_seq1"
        if cond == "raises":
            if "op" in e:
                clause = OP_CLAUSE[e["op"][0]]
            if nd == 1:
                cond = "1d-raises"
        ctx.violation(f"trace:{clause}/{opn}/{cond}",
                      f"recorded execution rejected by C06Trace: clause {clause} ({cond})",
                      {k: t[k] for k in ("mesh", "nv", "a", "b", "emb", "dims", "units", "vdims", "dtype")} | {"event": e})
    ctx.traces += len(traces)
    ctx.evaluations += sum(len(t["ev"]) for t in traces)
    for t in traces:
        for i, e in enumerate(t["ev"]):
            ctx.nontriv("T", t["id"], i, e["k"])
    ctx.sample({"channel": "T", "trace": {k: traces[0][k] for k in ("id", "emb", "mesh", "nv", "a")},
                "first_event": traces[0]["ev"][0]})
    return len(traces)


# ------------------------------------------------------------------ entry points
def run(ctx):
    df = core.import_library()
    # the integer core (spec/C06Core.tla): Apalache discharges the inductive invariant for lines of any length
    from .. import apalache
    apalache.run_stage(ctx, module="C06Core.tla", claim=apalache.C06_CLAIM)
    apalache.tlaps_stage(ctx, "C06CoreProof.tla", needs=("C06Core.tla",))   # the same two facts as a checked proof
    embs = embs_for(ctx.tier, ctx.seed)
    r = ctx.model("MC_C06", f"C06_{ctx.tier}.cfg", dump=True)
    if r.ok:
        states = ctx.dump_states(r)
        if len(states) != r.distinct:
            raise core._tlc.MachineryError(f"dump has {len(states)} states, TLC reports {r.distinct}")
        arrays = {cfg_key(s): (s["obs"]["a"], s["obs"]["b"]) for s in states if s["act"][0] == "new"}
        if ctx.tier == "thorough":
            for a, n in r.coverage.items():
                if a.startswith("Q") and n[0] == 0:
                    raise core._tlc.MachineryError(f"action {a} never fired")
        # single calls under every embedding; batched states (many calls each) under four rotating ones in thorough
        batched = {"chains", "mean_seqs", "linear", "translated", "component", "rescaled"}
        work = []
        for i, s in enumerate(states):
            if ctx.tier == "thorough" and s["act"][0] in batched:
                work += [(s, (i + 3 * j) % len(embs)) for j in range(4)]
            else:
                work += [(s, e) for e in range(len(embs))]

        def chunk(items):
            part = Part()
            for st, ei in items:
                exec_state(df, st, embs[ei], part, arrays)
                part.trace()
            if items:
                st = items[0][0]
                part.sample({"channel": "R", "mesh": st["mesh"], "nv": st["nv"], "act": st["act"],
                             "embedding": embs[items[0][1]].name})
            return part

        ctx.pmap(chunk, work)
    run_traces(ctx, df, 400 if ctx.tier == "quick" else 5000, embs)
    ctx.assumptions += [
        "TLC explores the bounded configuration space of spec/C06.tla completely (bounds in MC_C06.tla)",
        "dimension names, units and component labels per configuration are harness-level choices (harness/props/c06.py)",
        "on non-dyadic embeddings and for means numbers are compared with a relative tolerance (cell-length rounding, 1/n)",
    ]
    core.df_stage(ctx, df)   # mixed histories (spec/DF.tla): the clauses that come from this property's text
    return core.finish(ctx, rule=RULE, extra={"embeddings": [e.name for e in embs]})


def replay(ctx, path):
    df = core.import_library()
    with open(path) as fh:
        rp = json.load(fh)
    w = rp["witness"]
    if "event" in w:
        print("trace witness (re-run ./check C06 with VERIF_SEED=%s to regenerate):" % rp.get("seed"))
        print(json.dumps(w)[:3000])
        return 1
    cand = embs_for("thorough", rp.get("seed", ctx.seed)) + embs_for("quick", rp.get("seed", ctx.seed))
    emb = {e.name: e for e in cand}[w["embedding"]]
    m, nv, names = w["mesh"], w["nv"], tuple(w["dims"])
    _R_DTYPE[0] = int if w.get("dtype") == "int" else None
    f = make_field(df, m, emb, w["array"], names, tuple(w["units"]), w["vdims"])
    op = tuple(tuple(x) if isinstance(x, list) else x for x in w["op"])
    if w["act"][0] in ("linear", "translated", "component", "rescaled"):
        print("batched witness; expected:", json.dumps(w["expected"])[:400], "observed:", json.dumps(w["observed"])[:400])
        return 1
    p = run_and_project(df, f, m, emb, names, op, scale_of(w["array"]))
    exp = w["expected"]
    exp = {k: (tuple(map(tuple, v)) if k == "v" else v) for k, v in exp.items()}
    cond = same_as_spec(p, exp, names, tuple(w["units"]))
    print("replay:", op, "->", cond or "agrees with the specification", p.get("why", ""))
    return 1 if cond else 0
