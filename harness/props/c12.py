"""C12 - quarter-turn rotations move values, vectors, validity and geometry together.

M : TLC on spec/C12.tla (= the heap model of C13 restricted to rotate90 over a wider family of initial objects):
    C12_Law (through cell centres and point lookup, independent of the index formula of the step relation),
    C12_ModFour, C12_ReverseUndoes, C12_FourIsIdentity, C12_Consistent (region/mesh/field), C12_Refusal,
    C12_CountsAndUnits, C12_InplaceEqualsCopy, C12_AffineExact.
R : every dumped state's history of rotations is replayed on real objects (harness/props/c13.py replay_history):
    outcome, return identity, untouched originals, in-place == copy on a deep clone, final object graph
    (corners, n, units, subregions, values, validity, mapping) against the specification's heap.
T : seeded random rotation histories on the real library validated by spec/C13Trace.tla.
"""
import json

from .. import core, embed, tlaval
from ..core import Part
from . import c13, c13_trace

META = dict(
    level="model_checking",
    level_text=("TLC checks the rotation law g(R+Q(p-R)) = Q f(p) for every cell centre, k mod 4, reverse, four-fold identity, "
                "region/mesh/field consistency, refusal and in-place == copy on an exact rational model for every ordered axis pair, "
                "k in -5..5, four reference points and twelve-plus initial objects (all six permutations of the mapping, partial mapping, "
                "2-4 dimensions, masks, subregions, non-square n and cells, distinct data per cell and component). Every model state is "
                "replayed on the real Region/Mesh/Field objects and random rotation histories of the real objects are validated by TLC."),
    level_note=("Bounds: depth 1 with the full alphabet, depth 2 with a reduced alphabet; meshes of 6-12 cells. Values are compared to 1e-9 "
                "relative (cos(k pi/2) is computed in floating point). The aliasing patterns P1/P2 of C13 are excluded (known finding of C13). "
                "Trusted: TLC, tlaval parser, harness/geomheap.py projection."),
    technique="TLA+ heap model (Geom.tla, C13.tla, C12.tla) + TLC exhaustive; rotation histories replayed into code; code histories validated by TLC (C13Trace.tla); Apalache on the unbounded 2-d core (C12Core.tla: the quarter turn carries cell centres to cell centres)",
    design_ref="DESIGN.md section 7 C12",
)
RULE = ("a case is one (history of rotate90 calls, embedding); non-trivial = at least one accepted rotation with k mod 4 != 0; "
        "distinct by (history, embedding)")


def _rename(part):
    part["violations"] = [(k.replace("C13_", "C12_"), w, x) for k, w, x in part["violations"]]
    return part


def run(ctx):
    df = core.import_library()
    # the unbounded integer core (spec/C12Core.tla): Apalache discharges the clauses on the lattice of any size
    from .. import apalache
    apalache.run_stage(ctx, module="C12Core.tla", obligations=apalache.C12_OBLIGATIONS, claim=apalache.C12_CLAIM)
    embs = c13.EMBS_QUICK if ctx.tier == "quick" else c13.EMBS_THOROUGH
    cfgs = ["C12_quick.cfg", "C12_quick2.cfg"] if ctx.tier == "quick" else ["C12_thorough.cfg", "C12_thorough2.cfg"]
    for cfg in cfgs:
        r = ctx.model("MC_C12", cfg, dump=True, coverage=(ctx.tier == "thorough"))
        if not r.ok:
            continue
        blocks = ctx.dump_blocks(r)
        inits = c13._inits(blocks)

        def chunk(items):
            part = Part()
            for b in items:
                st = tlaval.parse_state_text(b)
                init = inits[st["hist"][0]["sc"]]
                for emb in embs:
                    c13.replay_history(df, init, st, emb, part)
                    part.trace()
            if items:
                st = tlaval.parse_state_text(items[-1])
                part.sample({"channel": "R", "source": cfg, "history": st["hist"]})
            return _rename(part)

        ctx.pmap(chunk, blocks)
    c13_trace.run_traces(ctx, df, 300 if ctx.tier == "quick" else 5000, module="MC_C12", cfg0="C12_d0.cfg", only_rot=True, prefix="C12", avoid_alias=True)
    ctx.assumptions += [
        "the step relation is shared with C13 (Geom.tla); C12_Law is stated independently through cell centres",
        "values and coordinates compared to 1e-9 relative",
    ]
    core.df_stage(ctx, df)   # mixed histories (spec/DF.tla): the clauses that come from this property's text
    return core.finish(ctx, rule=RULE, extra={"embeddings": [e.name for e in embs]})


def replay(ctx, path):
    return c13.replay(ctx, path)
