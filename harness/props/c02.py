"""C02 - a field holds exactly the value its specification assigns to every cell.

M: TLC exhaustive on spec/C02.tla (MC_C02 + C02_<tier>.cfg): eleven invariants C02_* and one action property.
R: every dumped state (mesh, subregions, nvdim, last call, expected array / observation) is executed on the
   real library under float embeddings of the coordinate axis and dtype kinds of the value axis.
T: seeded random meshes / subregion layouts / specifications executed on the real library, logged as integers
   and validated by TLC against spec/C02Trace.tla (EvalSpec recomputed, CellOK evaluated on the observed array).
"""
import json
import math
import random
from fractions import Fraction

import numpy as np

from .. import core, embed, lat
from .. import c02_lib as L
from .. import fld as fldmod
from ..core import Part

META = dict(
    level="model_checking",
    level_text=("Exhaustive TLC model checking of spec/C02.tla: every mesh (1-4 dimensions) x subregion layout (none, touching, "
                "overlapping, nested, listing order swapped) x component count x value specification (constant, array, affine "
                "function of the cell centre, dictionary with per-key constant/function and absent/constant/callable default, "
                "source field on a same/coarser/finer/shifted/larger mesh) within the bounds of MC_C02.tla; the constructive "
                "evaluation EvalSpec (transcription of Field._as_array) is checked against the declarative per-cell statement "
                "CellOK, and sampling, component access, iteration, line sampling and rejection are checked as invariants / an "
                "action property. Every TLC state is replayed on the real Field API under dyadic (exact) and real-world float "
                "embeddings and five dtype kinds; seeded random larger configurations are validated by TLC (C02Trace.tla)."),
    level_note=("Bounds: quick 15 mesh shapes x 2 lattice profiles, nvdim 1-3, 8 layouts (<=3 subregions), 9 source-mesh kinds, "
                "line n in 2..5; thorough 30 shapes x 3 profiles, nvdim 1-4, 13 layouts, n up to 9. T: meshes up to 8 cells/axis "
                "(<=300 cells), <=4 random aligned subregions, random affine forms. Value specifications are integer valued; "
                "dtype (unspecified/float/int/complex/bool) is an embedding of the value axis. For source fields the admissible "
                "value is set-valued when the target centre lies on a source face. Not decided: a dictionary that leaves a cell "
                "without value and has no default, and a source field not covering the target, are only required to leave the "
                "field unchanged *if* rejected; broadcastable arrays of other shapes are not probed. Distances along a line use a "
                "relative tolerance (sqrt). Trusted: TLC, tlaval parser, embedding adapter, NumPy exactness on small integers."),
    technique="TLA+ model (Lattice/Cells/C02.tla) + TLC exhaustive; spec states replayed into code; code traces validated by TLC (C02Trace.tla)",
    design_ref="DESIGN.md section 7 C02",
)

RULE = ("states: all (mesh, subregion layout, nvdim, specification / query) combinations within the cfg bounds; a case is one "
        "(state, coordinate embedding, dtype kind) triple executed on the library; non-trivial = more than one cell and a "
        "non-constant specification, a dictionary with at least one subregion, a rejected specification, or a query; distinct "
        "by (mesh, subs, nvdim, act, embedding, kind)")


# ------------------------------------------------------------------ channel R
def _cond(emb, kind):
    return f"{'dyadic' if emb.dyadic else 'real'}/{kind}"


_MESH_CACHE = {}


def _mk(df, st, emb, flip=None):
    """library mesh of a state; cached per process (meshes are never mutated by this check)"""
    m = st["mesh"]
    names = lat.names_for(m)
    key = (repr(m), repr(st["subs"]), emb.name, repr(flip))
    hit = _MESH_CACHE.get(key)
    if hit is None:
        if len(_MESH_CACHE) > 64:
            _MESH_CACHE.clear()
        hit = L.build_mesh(df, m, st["subs"], emb, dims=names, flip=flip)
        _MESH_CACHE[key] = hit
    return hit, names


def _construct(df, mesh, st, sp, kind, emb, names, off, variant, vdims=None):
    val = L.spec_value(df, sp, st["mesh"], st["subs"], kind, emb, names, off, variant)
    return df.Field(mesh, nvdim=st["nv"], value=val, dtype=L.DTYPE[kind], vdims=vdims)


def exec_state(df, st, emb, kind, part, variant=0):
    m, S, nv, act, obs, exp = st["mesh"], st["subs"], st["nv"], st["act"], st["obs"], st["fld"]
    n = tuple(m["n"])
    nd = len(n)
    cq = lat.cellq(m)
    coords = list(m["lo"]) + [m["lo"][d] + m["c"][d] * m["n"][d] for d in range(nd)]
    a0 = act[0]

    def wit(**kw):
        return dict(mesh=m, subs=S, nv=nv, act=act, embedding=emb.name, kind=kind, variant=variant, fld=exp, obs=obs, **kw)

    try:
        mesh, names = _mk(df, st, emb, flip=lat.flip_for(m) if not S else None)
    except Exception as ex:
        if S and not emb.dyadic:
            part.note("mesh_with_subregions_rejected_on_real_embedding")  # C14 / D18 territory, not C02
            return
        part.violation(f"construct-mesh/{a0}/{_cond(emb, kind)}", f"valid mesh rejected: {type(ex).__name__}", wit(exc=repr(ex)))
        return
    part.count()
    nkey = (str(m), str(S), nv, str(act), emb.name, kind)
    off = L.OffLattice()

    if a0 == "new":
        f = df.Field(mesh, nvdim=nv, dtype=L.DTYPE[kind])
        bad = L.compare_array(kind, f.array, n, nv, exp)
        if bad:
            part.violation(f"C02_Shape/new/{_cond(emb, kind)}", "Field(mesh, nvdim) is not the zero array of shape (*n, nvdim)", wit(diff=bad))
        return

    if a0 == "make":
        sp = act[1]
        cls = L.spec_class(sp)
        try:
            f = _construct(df, mesh, st, sp, kind, emb, names, off, variant)
            ok, err = True, None
        except Exception as ex:
            ok, err = False, ex
        if obs["ok"]:
            if not ok:
                part.violation(f"C02_CellwiseSpec/make/{cls}/rejected/{kind}",
                               f"a valid specification is rejected: {type(err).__name__}", wit(exc=repr(err)))
            else:
                bad = L.compare_array(kind, f.array, n, nv, obs["arr"], obs["extra"])
                if bad:
                    clause = "C02_Shape" if bad["why"] == "shape" else ("C02_FirstListedWins" if sp["k"] == "dict" else "C02_CellwiseSpec")
                    part.violation(f"{clause}/make/{cls}/{bad.get('sig', 'shape')}/{kind}",
                                   "the stored array differs from the specification evaluated at the cell centres", wit(diff=bad))
                if off.pts:
                    part.violation(f"C02_CellwiseSpec/make/{cls}/centre-off-lattice/{_cond(emb, kind)}",
                                   "a function specification was evaluated at a point that is not a cell centre", wit(points=off.pts[:4]))
        else:
            if ok and obs["must"]:
                part.violation(f"C02_BadRejected/make/{cls}/{kind}", "a specification of the wrong shape/component count/type is accepted",
                               wit(got=f.array))
            elif ok:
                part.note("undefined_spec_accepted:" + cls + "/" + kind)
        if len(exp) > 1 and sp["k"] not in ("const",) or (sp["k"] == "dict" and S) or not obs["ok"]:
            part.nontriv(*nkey)
        return

    if a0 in ("update", "bad"):
        sp, sp0 = act[1], act[2]
        cls = L.spec_class(sp)
        for via in ("update_field_values", "array"):
            try:
                f = _construct(df, mesh, st, sp0, kind, emb, names, L.OffLattice(), 0)
            except Exception as ex:
                part.violation(f"C02_CellwiseSpec/make/{L.spec_class(sp0)}/rejected/{kind}",
                               f"a valid specification is rejected: {type(ex).__name__}", wit(exc=repr(ex)))
                return
            before = f.array.copy()
            off = L.OffLattice()
            # a field created without a dtype takes the type of whatever it is given LATER as well: every second time the new
            # specification is complex-valued (seeded change C02-11 remembered the dtype of the first values)
            ukind = "complex" if (kind == "none" and obs["ok"] and sp["k"] in ("const", "array") and (variant + nv + len(n)) % 2 == 0) else kind
            try:
                val = L.spec_value(df, sp, m, S, ukind, emb, names, off, variant)
            except Exception as ex:  # e.g. the library refuses to build a source field
                raise core._tlc.MachineryError(f"cannot build value for {sp}: {ex!r}")
            try:
                if via == "array":
                    f.array = val
                else:
                    f.update_field_values(val)
                ok, err = True, None
            except Exception as ex:
                ok, err = False, ex
            if obs["ok"]:
                if not ok:
                    part.violation(f"C02_CellwiseSpec/{via}/{cls}/rejected/{kind}",
                                   f"a valid specification is rejected: {type(err).__name__}", wit(exc=repr(err), via=via))
                else:
                    bad = L.compare_array(ukind, f.array, n, nv, obs["arr"], obs["extra"])
                    if bad:
                        clause = "C02_Shape" if bad["why"] == "shape" else ("C02_FirstListedWins" if sp["k"] == "dict" else "C02_CellwiseSpec")
                        part.violation(f"{clause}/{via}/{cls}/{bad.get('sig', 'shape')}/{kind}{'' if ukind == kind else '-then-complex'}",
                                       "after an update the stored array differs from the new specification", wit(diff=bad, via=via))
                    if off.pts:
                        part.violation(f"C02_CellwiseSpec/{via}/{cls}/centre-off-lattice/{_cond(emb, kind)}",
                                       "a function specification was evaluated at a point that is not a cell centre", wit(points=off.pts[:4]))
            else:
                if ok and obs["must"]:
                    part.violation(f"C02_BadRejected/{via}/{cls}/{kind}",
                                   "a specification of the wrong shape/component count/type is accepted", wit(got=f.array, via=via))
                elif ok:
                    part.note("undefined_spec_accepted:" + cls + "/" + kind)
                else:
                    same = f.array.shape == before.shape and bool(np.array_equal(f.array, before))
                    bad = L.compare_array(kind, f.array, n, nv, exp)
                    if not same or bad:
                        part.violation(f"C02_RejectLeavesUnchanged/{via}/{cls}/{kind}",
                                       "a rejected specification changed the existing field", wit(diff=bad, via=via, exc=repr(err)))
            part.count()
        if a0 == "bad" and obs["must"]:
            # the constructor must refuse it too
            try:
                _construct(df, mesh, st, sp, kind, emb, names, L.OffLattice(), variant)
                part.violation(f"C02_BadRejected/make/{cls}/{kind}", "a specification of the wrong shape/component count/type is accepted by the constructor", wit())
            except Exception:
                pass
        part.nontriv(*nkey)
        return

    # ---- queries on a field built from the model's array -------------------------------------------
    vdims = L.vdims_for(m, nv)
    arr = fldmod.unflatten(L.enc_rows(kind, exp), n)
    try:
        f = fldmod.lived(df.Field(mesh, nvdim=nv, value=arr, dtype=L.DTYPE[kind], vdims=vdims), sum(n) + nv + len(kind))
    except Exception as ex:
        part.violation(f"C02_CellwiseSpec/make/array/rejected/{kind}", f"a full-shape array is rejected: {type(ex).__name__}", wit(exc=repr(ex)))
        return
    bad = L.compare_array(kind, f.array, n, nv, exp)
    if bad:
        part.violation(f"C02_CellwiseSpec/make/array/{kind}", "the stored array differs from the array given", wit(diff=bad))
        return
    part.nontriv(*nkey)

    if a0 == "call":
        for p, r in obs.items():
            pt = emb.point(p)
            try:
                got = f(pt)
            except Exception as ex:
                part.violation(f"C02_SampleIsCell/call/raises/{_cond(emb, kind)}", f"sampling inside the region raises {type(ex).__name__}", wit(point=p, exc=repr(ex)))
                continue
            cands = [r["v"]] if emb.dyadic else list(r["alt"])
            if not L.row_matches(kind, got, cands):
                face = len(r["alt"]) > 1
                part.violation(f"C02_SampleIsCell/call/{'face' if face else 'interior'}/{_cond(emb, kind)}",
                               "field(p) is not the stored value of the cell containing p", wit(point=p, got=got, want=r))
            part.count()
        return

    if a0 == "components":
        labels = vdims if vdims is not None else L.default_labels(nv)
        if labels is None:
            return
        got_rows = L.rows_of(f.array)
        for c, col in enumerate(obs):
            try:
                g = getattr(f, labels[c])
            except Exception as ex:
                part.violation(f"C02_ComponentColumn/components/raises/{kind}", f"component access raises {type(ex).__name__}", wit(label=labels[c], exc=repr(ex)))
                continue
            bad = None
            if getattr(g, "nvdim", None) != 1 or not hasattr(g, "array"):
                bad = {"why": "not a scalar field"}
            else:
                bad = L.compare_array(kind, g.array, n, 1, [list(x) for x in col])
            if bad:
                part.violation(f"C02_ComponentColumn/components/{'default' if vdims is None else 'custom'}-labels/{kind}",
                               "field.<label> is not the matching column", wit(label=labels[c], index=c, diff=bad))
            part.count()
        return

    if a0 == "iterate":
        vals = list(f)
        if len(vals) != len(obs):
            part.violation(f"C02_IterOrder/iterate/length/{kind}", "iteration length differs from the cell count", wit(got=len(vals)))
            return
        pts = list(f.mesh)
        for q, r in enumerate(obs):
            if not L.row_matches(kind, vals[q], [r["v"]]):
                part.violation(f"C02_IterOrder/iterate/order/{kind}", "iteration does not yield the cells in mesh order", wit(position=q, got=vals[q], want=r))
                break
            if not all(emb.close(pts[q][d], r["pt"][d], cq, coords) for d in range(nd)):
                part.violation(f"C02_IterOrder/iterate/zip-mesh/{_cond(emb, kind)}", "zip(field.mesh, field) pairs a value with another cell's centre", wit(position=q, got=pts[q], want=r))
                break
        part.count()
        return

    if a0 == "lines":
        k = act[1]
        for pr, r in obs.items():
            den = r["den"]
            p1, p2 = emb.point(r["p1"]), emb.point(r["p2"])
            if emb.dyadic and all(float(x).is_integer() for x in tuple(p1) + tuple(p2)):
                # the numeric type of the end points must not matter: Python ints on integer coordinates (seed C02-3)
                p1, p2 = tuple(int(x) for x in p1), tuple(int(x) for x in p2)
            cond = f"{'1d' if nd == 1 else 'nd'}/{'same-point' if r['p1'] == r['p2'] else 'segment'}/{_cond(emb, kind)}"
            try:
                ln = f.line(p1=p1, p2=p2, n=k)
            except Exception as ex:
                part.violation(f"C02_LineEndpointsInclusive/line/raises/{cond}", f"line sampling between two points of the region raises {type(ex).__name__}",
                               wit(pair=pr, exc=repr(ex)))
                continue
            data = ln.data
            if ln.n != k or len(data) != k:
                part.violation(f"C02_LineEndpointsInclusive/line/count/{cond}", "line sampling does not return the requested number of points", wit(pair=pr, got=len(data)))
                continue
            P = np.asarray(data[list(ln.point_columns)])
            V = np.asarray(data[list(ln.value_columns)])
            R = np.asarray(data["r"], dtype=float)
            tol = L.line_tol(emb, cq, coords, den)
            strict = emb.dyadic and L.pow2(den)
            for j in range(k):
                want = [Fraction(x, den) for x in r["pts"][j]]
                if not all(abs(emb.q_of(P[j][d]) - want[d]) <= tol for d in range(nd)):
                    which = "endpoint" if j in (0, k - 1) else "inner"
                    part.violation(f"C02_LineEndpointsInclusive/line/{which}-point/{cond}",
                                   "line points are not p1 + j (p2 - p1)/(n - 1), j = 0..n-1", wit(pair=pr, j=j, got=P[j], want=[str(w) for w in want]))
                    break
                cands = [r["vals"][j]] if strict else list(r["alts"][j])
                if not L.row_matches(kind, V[j], cands):
                    part.violation(f"C02_LineValues/line/{'strict' if strict else 'set'}/{cond}",
                                   "the value along the line is not the stored value of the cell containing the point", wit(pair=pr, j=j, got=V[j], want=cands))
                    break
                wr = math.sqrt(r["d2"][j]) / den * abs(emb.quantum)
                if not (abs(R[j] - wr) <= 1e-9 * max(wr, abs(emb.quantum) * 1e-3)):
                    part.violation(f"C02_LineEndpointsInclusive/line/distance/{cond}", "column r is not the distance from p1", wit(pair=pr, j=j, got=R[j], want=wr))
                    break
            part.count()
        return

    raise core._tlc.MachineryError(f"unknown action {act}")


def plan(states, embs, tier):
    """(state, embedding index, kind, variant) work items: every state under every embedding of the tier's short list,
    dtype kinds rotating so that every (specification class, kind) pair is met many times"""
    work = []
    nk = len(L.KINDS)
    per = 1
    for si, st in enumerate(states):
        for ei in range(len(embs)):
            for r in range(per):
                kind = L.KINDS[(si + ei + r * 2) % nk]
                work.append((si, ei, kind, si + ei + r))
    return work


def _embs(tier, seed):
    if tier == "quick":
        return [embed.DYADIC[0], embed.DYADIC[1], embed.REAL[0], embed.REAL[2]]
    return [embed.DYADIC[0], embed.DYADIC[1], embed.DYADIC[2], embed.REAL[0], embed.REAL[1], embed.REAL[2]] + embed.seeded(seed, 1)


# ------------------------------------------------------------------ channel T driver
def _rand_affine(rnd, nd, nvv):
    return ([[rnd.randrange(-9, 10) for _ in range(nd)] for _ in range(nvv)], [rnd.randrange(-99, 100) for _ in range(nvv)])


def _rand_item(rnd, nd, nvv, allow_none=True):
    r = rnd.random()
    if allow_none and r < 0.2:
        return {"k": "none", "v": [], "a": [], "b": []}
    if r < 0.6:
        return {"k": "const", "v": [rnd.randrange(-50, 50) for _ in range(nvv)], "a": [], "b": []}
    a, b = _rand_affine(rnd, nd, nvv)
    return {"k": "func", "v": [], "a": a, "b": b}


def _rand_src(rnd, m):
    nd = len(m["n"])
    lo, c, n = [], [], []
    for d in range(nd):
        kind = rnd.choice(["same", "coarse", "fine", "shift", "free"])
        cd, ld, ned = m["c"][d], m["lo"][d], m["n"][d]
        hi = ld + cd * ned
        if kind == "same":
            sc, sl = cd, ld
        elif kind == "coarse":
            sc, sl = cd * rnd.choice([2, 3]), ld - cd * rnd.randrange(0, 3)
        elif kind == "fine":
            sc, sl = (cd // 2 if cd % 4 == 0 else cd), ld - rnd.randrange(0, 3) * 2
        elif kind == "shift":
            sc, sl = cd, ld - rnd.choice([cd // 2, cd // 4, cd])
        else:
            sc, sl = 2 * rnd.randrange(1, 9), ld - rnd.randrange(0, 20)
        sn = max(1, -(-(hi - sl) // sc))
        if rnd.random() < 0.3:
            sn += rnd.randrange(0, 3)
        if sn > 24:
            sc, sl, sn = cd, ld, ned
        lo.append(sl)
        c.append(sc)
        n.append(sn)
    return {"lo": lo, "c": c, "n": n}


def _rand_spec(rnd, m, S, nv, bad=False):
    """a random specification; bad=True: one of the wrong shape / component count / type (wrong in a way that does
    not depend on the library's evaluation order and cannot be read as a squeezed per-cell array)"""
    nd = len(m["n"])
    ncell = int(np.prod(m["n"]))
    wrong_vec = ncell + 1 if nv == 1 else nv + rnd.choice([1, -1])  # length of a wrong constant vector
    nvv = nv + 1 if bad else nv  # component count of a wrong function / source field
    r = rnd.random()
    if bad and r < 0.15:
        return {"k": "type", "t": rnd.choice(["str", "none", "object"])}
    if r < 0.27:
        if bad:
            if nv > 1 and rnd.random() < 0.3:
                return {"k": "const", "form": "scalar", "v": [rnd.randrange(1, 9)]}
            return {"k": "const", "form": "vector", "v": [rnd.randrange(-50, 50) for _ in range(wrong_vec)]}
        if rnd.random() < 0.3:
            return {"k": "const", "form": "scalar", "v": [rnd.randrange(-9, 9) if nv == 1 else 0]}
        return {"k": "const", "form": "vector", "v": [rnd.randrange(-50, 50) for _ in range(nv)]}
    if r < 0.42:
        a, b = _rand_affine(rnd, nd, nvv)
        return {"k": "func", "a": a, "b": b}
    if r < 0.52:
        if bad:
            shape = list(m["n"]) + [nv]
            j = rnd.randrange(len(shape))
            shape[j] += 1
            return {"k": "array", "shape": shape, "sq": False, "arr": []}
        rows = [[rnd.randrange(-999, 1000) for _ in range(nv)] for _ in range(ncell)]
        sq = nv == 1 and rnd.random() < 0.3
        return {"k": "array", "shape": list(m["n"]) + ([] if sq else [nv]), "sq": sq, "arr": rows}
    if r < 0.82:
        items = [_rand_item(rnd, nd, nv) for _ in S]
        dflt = _rand_item(rnd, nd, nv, allow_none=True)
        if bad:
            wrong_vec = ncell + 1 if nv == 1 else nv + 1
            cand = [j for j, it in enumerate(items) if it["k"] != "none"]
            if cand and rnd.random() < 0.7:
                it = items[rnd.choice(cand)]
                if it["k"] == "const":
                    it["v"] = [rnd.randrange(-50, 50) for _ in range(wrong_vec)]
                else:
                    it["a"], it["b"] = _rand_affine(rnd, nd, nv + 1)
            else:  # a constant default is used as fill value and therefore always looked at
                dflt = {"k": "const", "v": [rnd.randrange(-50, 50) for _ in range(wrong_vec)], "a": [], "b": []}
        return {"k": "dict", "pat": "rnd", "dk": dflt["k"], "items": items, "def": dflt}
    a, b = _rand_affine(rnd, nd, nvv)
    src = _rand_src(rnd, m)
    if int(np.prod(src["n"])) > 1500:
        src = dict(m)
    return {"k": "field", "kind": "rnd", "src": src, "a": a, "b": b}


def gen_trace(df, rnd, tid, embs):
    nd = rnd.choice([1, 1, 2, 2, 2, 3, 3, 4])
    cap = {1: 24, 2: 10, 3: 6, 4: 4}[nd]
    while True:
        m = {"lo": [4 * rnd.randrange(-40, 40) for _ in range(nd)],
             "c": [4 * rnd.randrange(1, 6) for _ in range(nd)],
             "n": [rnd.randrange(1, cap + 1) for _ in range(nd)]}
        if int(np.prod(m["n"])) <= 300:
            break
    n = tuple(m["n"])
    nv = rnd.choice([1, 1, 2, 3, 3, 4])
    kind = rnd.choice(["none", "float", "int", "complex"])
    emb = rnd.choice(embs)
    S = []
    for _ in range(rnd.choice([0, 1, 2, 2, 3, 3, 4])):
        lo, hi = [], []
        for d in range(nd):
            a = rnd.randrange(0, m["n"][d])
            b = rnd.randrange(a + 1, m["n"][d] + 1)
            if rnd.random() < 0.3:
                a, b = 0, m["n"][d]
            lo.append(m["lo"][d] + m["c"][d] * a)
            hi.append(m["lo"][d] + m["c"][d] * b)
        S.append({"lo": lo, "hi": hi})
    names = lat.names_for(m)
    tr = {"id": tid, "dy": emb.dyadic, "emb": emb.name, "kind": kind, "mesh": m, "subs": S, "nv": nv, "ev": []}
    try:
        mesh = L.build_mesh(df, m, S, emb, dims=names)
    except Exception:
        if emb.dyadic:
            raise
        return None
    try:
        return _drive(df, rnd, tr, mesh, m, S, n, nd, nv, kind, emb, names)
    except core._tlc.MachineryError:
        raise
    except Exception as ex:  # a library call outside the guarded ones raised: an observation, not a harness failure
        tr["ev"].append({"k": "raise", "exc": type(ex).__name__, "msg": str(ex)[:200]})
        return tr


def _drive(df, rnd, tr, mesh, m, S, n, nd, nv, kind, emb, names):
    cq = lat.cellq(m)
    coords = list(m["lo"]) + [m["lo"][d] + m["c"][d] * m["n"][d] for d in range(nd)]
    hi = coords[nd:]
    f = None
    cur = None  # observed integer rows of f
    for step in range(rnd.randrange(4, 9)):
        r = rnd.random()
        if f is None or r < 0.35:
            sp = _rand_spec(rnd, m, S, nv)
            off = L.OffLattice()
            val = L.spec_value(df, sp, m, S, kind, emb, names, off, variant=step)
            via = "make" if f is None or rnd.random() < 0.4 else rnd.choice(["update_field_values", "array"])
            before = None if f is None else f.array.copy()
            try:
                if via == "make":
                    g = df.Field(mesh, nvdim=nv, value=val, dtype=L.DTYPE[kind])
                elif via == "array":
                    g = f
                    g.array = val
                else:
                    g = f
                    g.update_field_values(val)
                ok = True
            except Exception:
                ok, g = False, None
            ev = {"k": "set", "via": via, "sp": sp, "ok": ok, "arr": [], "exact": True, "shape": True, "unchanged": True, "offlat": bool(off.pts)}
            if ok:
                ev["shape"] = tuple(g.array.shape) == n + (nv,)
                if ev["shape"]:
                    rows, ex = L.dec_rows(kind, L.rows_of(g.array))
                    ev["exact"] = bool(ex)
                    ev["arr"] = rows.tolist() if ex else []
                    if ex:
                        f, cur = g, ev["arr"]
                    elif via != "make":
                        f, cur = None, None
                elif via != "make":
                    f, cur = None, None
            elif before is not None:
                ev["unchanged"] = f.array.shape == before.shape and bool(np.array_equal(f.array, before))
            tr["ev"].append(ev)
            if f is None:
                break
        elif r < 0.5:
            sp = _rand_spec(rnd, m, S, nv, bad=True)
            try:
                val = L.spec_value(df, sp, m, S, kind, emb, names, L.OffLattice(), variant=step)
            except Exception:
                continue
            before = f.array.copy()
            via = rnd.choice(["update_field_values", "array"])
            try:
                if via == "array":
                    f.array = val
                else:
                    f.update_field_values(val)
                ok = True
            except Exception:
                ok = False
            unchanged = f.array.shape == before.shape and bool(np.array_equal(f.array, before))
            tr["ev"].append({"k": "bad", "via": via, "sp": sp, "ok": ok, "unchanged": unchanged})
            if ok:
                break  # the field is in an unknown state now
        elif r < 0.7:
            p = []
            for d in range(nd):
                if rnd.random() < 0.2:
                    p.append(m["lo"][d] + m["c"][d] * rnd.randrange(0, m["n"][d] + 1))
                else:
                    p.append(rnd.randrange(m["lo"][d], hi[d] + 1))
            try:
                got = np.atleast_1d(f(emb.point(p)))
                rows, ex = L.dec_rows(kind, got[None, :])
                tr["ev"].append({"k": "call", "p": p, "ok": True, "v": rows[0].tolist() if ex else [], "exact": bool(ex)})
            except Exception:
                tr["ev"].append({"k": "call", "p": p, "ok": False, "v": [], "exact": True})
        elif r < 0.78:
            labels = L.default_labels(nv)
            if labels is None:
                continue
            c = rnd.randrange(nv)
            g = getattr(f, labels[c])
            rows, ex = L.dec_rows(kind, L.rows_of(g.array))
            tr["ev"].append({"k": "comp", "c": c + 1, "col": rows.tolist() if ex else [], "exact": bool(ex) and g.nvdim == 1})
        elif r < 0.84:
            vals = np.array([np.atleast_1d(v) for v in f])
            rows, ex = L.dec_rows(kind, vals)
            tr["ev"].append({"k": "iter", "rows": rows.tolist() if ex else [], "exact": bool(ex)})
        else:
            k = rnd.choice([2, 2, 3, 4, 5, 5, 6, 7, 9, 11])
            den = k - 1
            p1 = [rnd.randrange(m["lo"][d], hi[d] + 1) for d in range(nd)]
            p2 = [rnd.randrange(m["lo"][d], hi[d] + 1) for d in range(nd)]
            if rnd.random() < 0.3:
                p1 = [rnd.choice([m["lo"][d], hi[d]]) for d in range(nd)]
            if rnd.random() < 0.3:
                p2 = [rnd.choice([m["lo"][d], hi[d]]) for d in range(nd)]
            ev = {"k": "line", "p1": p1, "p2": p2, "n": k, "ok": True, "cnt": 0, "pts": [], "exact": True, "vals": [], "d2": [], "d2ok": True,
                  "strict": bool(emb.dyadic and L.pow2(den))}
            try:
                fp1, fp2 = emb.point(p1), emb.point(p2)
                if emb.dyadic and step % 2 == 1 and all(float(x).is_integer() for x in tuple(fp1) + tuple(fp2)):
                    fp1, fp2 = tuple(int(x) for x in fp1), tuple(int(x) for x in fp2)  # integer-typed end points
                ln = f.line(p1=fp1, p2=fp2, n=k)
                data = ln.data
                ev["cnt"] = int(len(data))
                P = np.asarray(data[list(ln.point_columns)])
                V = np.asarray(data[list(ln.value_columns)])
                R = np.asarray(data["r"], dtype=float)
                tol = L.line_tol(emb, cq, coords, den)
                for j in range(len(data)):
                    row = []
                    for d in range(nd):
                        q = emb.q_of(P[j][d]) * den
                        kq = round(q)
                        if abs(q - kq) > tol * den:
                            ev["exact"] = False
                        row.append(int(kq))
                    ev["pts"].append(row)
                    rq = (R[j] / abs(emb.quantum)) ** 2 * den * den
                    kr = round(rq)
                    if abs(rq - kr) > 1e-8 * max(1.0, rq):
                        ev["d2ok"] = False
                    ev["d2"].append(int(kr))
                rows, ex = L.dec_rows(kind, V.reshape(len(data), -1))
                ev["exact"] = ev["exact"] and bool(ex)
                ev["vals"] = rows.tolist() if ex else []
            except Exception:
                ev["ok"] = False
            tr["ev"].append(ev)
    return tr


def run_traces(ctx, df, ntraces, embs):
    rnd = random.Random(ctx.seed * 7919 + 2)
    traces = []
    tid = 0
    while len(traces) < ntraces:
        tid += 1
        t = gen_trace(df, rnd, tid, embs)
        if t is not None and t["ev"]:
            traces.append(t)
    r, verdicts, _ = ctx.trace_check("C02Trace", "C02Trace.cfg", traces)
    expect = sum(len(t["ev"]) + 1 for t in traces)
    if r.distinct != expect:
        raise core._tlc.MachineryError(f"C02Trace consumed {r.distinct} states, expected {expect}")
    byid = {t["id"]: t for t in traces}
    for v in verdicts:
        _, tid, l, clause = v
        t = byid[tid]
        e = t["ev"][l - 1]
        cls = L.spec_class(e["sp"]) if "sp" in e else e["k"]
        if clause.startswith("driver-"):
            raise core._tlc.MachineryError(f"C02 trace driver produced an inconsistent event: {clause} {json.dumps(e)[:600]}")
        ndc = "1d" if len(t["mesh"]["n"]) == 1 else "nd"
        ctx.violation(f"trace:{clause}/{e.get('via', e['k'])}/{cls}/{ndc}/{t['kind']}",
                      f"recorded execution rejected by C02Trace: clause {clause}",
                      {"mesh": t["mesh"], "subs": t["subs"], "nv": t["nv"], "embedding": t["emb"], "kind": t["kind"], "event": e})
    ctx.traces += len(traces)
    ctx.evaluations += sum(len(t["ev"]) for t in traces)
    for t in traces:
        for e in t["ev"]:
            ctx.nontriv("T", t["id"], json.dumps(e, sort_keys=True)[:4000])
    ctx.sample({"channel": "T", "trace": {k: v for k, v in traces[0].items() if k != "ev"}, "first_event": traces[0]["ev"][0]})
    ctx.notes["T_events"] = sum(len(t["ev"]) for t in traces)


def run(ctx):
    df = core.import_library()
    embs = _embs(ctx.tier, ctx.seed)
    r = ctx.model("MC_C02", f"C02_{ctx.tier}.cfg", dump=True)
    if r.ok:
        states = ctx.dump_states(r)
        if len(states) != r.distinct:
            raise core._tlc.MachineryError(f"dump has {len(states)} states, TLC reports {r.distinct}")
        work = plan(states, embs, ctx.tier)
        # same mesh / subregions / embedding next to each other (mesh cache); many small chunks balance the pool
        work.sort(key=lambda w: (repr(states[w[0]]["mesh"]), repr(states[w[0]]["subs"]), w[1]))

        def chunk(items):
            part = Part()
            for si, ei, kind, variant in items:
                exec_state(df, states[si], embs[ei], kind, part, variant)
                part.trace()
            if items:
                si, ei, kind, _ = items[0]
                st = states[si]
                part.sample({"channel": "R", "mesh": st["mesh"], "subs": st["subs"], "nv": st["nv"], "act": st["act"],
                             "embedding": embs[ei].name, "kind": kind})
            return part

        ctx.pmap(chunk, work, chunk=max(1, len(work) // 256))
    run_traces(ctx, df, 400 if ctx.tier == "quick" else 4000, embs)
    ctx.assumptions += [
        "TLC explores the bounded configuration space of spec/C02.tla completely (bounds in MC_C02.tla)",
        "dtype kinds, dimension names, component labels, subregion names and the position of the 'default' key are harness-level choices",
        "on non-dyadic embeddings (and for line steps that are not dyadic) a point on an inner face may land in either adjacent cell",
        "for a source field any source cell whose closed box contains the target centre is admissible (the property says 'a source cell')",
        "a mesh whose subregions the library rejects on a non-dyadic embedding is skipped (C14's concern)",
    ]
    core.df_stage(ctx, df)   # mixed histories (spec/DF.tla): the clauses that come from this property's text
    return core.finish(ctx, rule=RULE, extra={"embeddings": [e.name for e in embs], "dtype_kinds": list(L.KINDS)})


def _back(v):
    """JSON -> the shapes tlaval produces (tuples, dict keys restored for tables keyed by tuples)"""
    if isinstance(v, list):
        return tuple(_back(x) for x in v)
    if isinstance(v, dict):
        return {k: _back(x) for k, x in v.items()}
    return v


def replay(ctx, path):
    df = core.import_library()
    with open(path) as fh:
        rp = json.load(fh)
    w = rp["witness"]
    if "event" in w:
        print("trace witness (re-run ./check C02 with VERIF_SEED=%s to regenerate):" % rp.get("seed"))
        print(json.dumps(w)[:3000])
        return 1
    embs = {e.name: e for e in embed.DYADIC + embed.REAL + embed.seeded(rp.get("seed", ctx.seed), 2)}
    act = _back(w["act"])
    obs = w["obs"]
    if act[0] in ("call", "lines"):
        # tables keyed by tuples were stringified by jsonable(): re-run the model instead
        print("query witness:", json.dumps({k: w[k] for k in ("mesh", "subs", "nv", "act", "embedding", "kind")}))
        print("re-run ./check C02 to re-evaluate query states")
        return 1
    st = {"mesh": w["mesh"], "subs": _back(w["subs"]), "nv": w["nv"], "act": act, "obs": _obs_back(obs), "fld": _back(w["fld"])}
    part = Part()
    exec_state(df, st, embs[w["embedding"]], w["kind"], part, w.get("variant", 0))
    for k, what, _ in part["violations"]:
        print("still fails:", k, what)
    return 1 if part["violations"] else 0


def _obs_back(o):
    if isinstance(o, dict) and "ok" in o:
        out = dict(o)
        if "arr" in out:
            out["arr"] = _back(out["arr"])
        if "extra" in out:
            out["extra"] = frozenset((x[0], tuple(x[1])) for x in out["extra"])
        return out
    return _back(o)
