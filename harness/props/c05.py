"""C05 - grad, div, curl and Laplacian are the textbook combinations of the directional
derivatives, paired through the component-to-axis mapping.

M: TLC exhaustive on spec/C05.tla: (a) "table" configurations - one symbolic cell whose
   directional derivatives are distinct powers of two, every nd, nv in 1..4 and every mapping
   (mapped / unmapped / foreign / non-injective): refusals, pairing by mapping (invariance under
   renumbering components with the mapping, difference from positional pairing), two independent
   formulations of div and curl; (b) "mesh"/"rot" configurations with the reference stencils of
   C04Lib on small fully valid anisotropic meshes: curl grad = 0, div curl = 0 on every unit
   impulse, exactness on every monomial of degree <= 2, commuting with quarter turns.
R: every table state is realised on the real library as a linear (Laplacian: quadratic) field whose
   slopes are the symbolic table, under several naming schemes for dimensions and component labels
   (including labels spelled like other axes) and embeddings; refusal/acceptance and the value at
   every cell are compared with the state's obs.
T: random integer fields on random 1-4-D meshes (random validity, periodic directions, single-cell
   axes, permuted mappings): the library's own directional derivatives of every component are
   logged as a table next to the operator output and TLC evaluates the combination (C05Trace);
   curl grad / div curl on integer data; random polynomials of degree <= 2 against the analytic
   derivative computed by TLC; op(rotate90(f)) against rotate90(op(f)).
"""
import itertools
import json
import os
import random

import numpy as np

from .. import c04_probe as pr
from .. import core, embed, fld, lat
from ..core import Part

META = dict(
    level="model_checking",
    level_text=("Exhaustive TLC model checking of spec/C05.tla: grad/div/curl/laplace over an uninterpreted (symbolic, "
                "powers-of-two) table of directional derivatives for every spatial dimension and component count 1-4 and "
                "every mapping value per component (axis, unmapped, foreign), with refusals, pairing-by-mapping invariance "
                "and two independent formulations; plus, on small anisotropic meshes with the C04 reference stencils, "
                "curl grad = 0 and div curl = 0 for every unit impulse, exactness on all monomials of degree <= 2 and "
                "commuting with quarter turns for all 6 mappings. Every table state is replayed on the real library as a "
                "field with exactly those slopes (renamed dimensions/labels, several embeddings); random real fields are "
                "logged with the library's own directional derivatives and judged by TLC (spec/C05Trace.tla)."),
    level_note=("Bounds: table nd, nv in 1..4 (all (nd+2)^nv mappings); meshes 3x3x3..5x3x3 (thorough), quarter turns on "
                "3x2x2..3x3x2 with k in 1..3, all ordered axis pairs, all 6 mappings. T: meshes up to 5 cells per axis "
                "(1-4-D), cells 4/8/16 lattice units on dyadic embeddings (exact), arbitrary multiples on real-world "
                "embeddings (1e-9). Identities on the code are exact zeros on dyadic embeddings. Rotations compare with "
                "tolerance (cos(k pi/2) is not exact). Non-injective mappings are unconstrained by the property and are "
                "not compared. Trusted: TLC, tlaval parser, projection of floats to integers (harness/c04_probe.py)."),
    technique=("TLA+ operators over an uninterpreted derivative table + reference-stencil identities (C05.tla, C04Lib.tla); "
               "TLC exhaustive; spec states replayed into code; code observations (derivative table + operator output) "
               "validated by TLC (C05Trace.tla); Apalache on the algebraic core (C05Core.tla: differences along different axes "
               "commute, the identities cancel term by term, central differences exact on quadratics, unbounded)"),
    design_ref="DESIGN.md section 7 C05",
)

RULE = ("R case = (table state, naming/label scheme, embedding); T case = one recorded event (combination / identity / "
        "polynomial / rotation); non-trivial = the operator is accepted and its result is not identically zero, or it is "
        "refused for a mapping reason; distinct by (op, nd, nv, mapping, names, embedding)")

DIM_SCHEMES = [("x", "y", "z", "w"), ("a", "b", "c", "d"), ("z", "y", "x", "t"), ("x0", "x1", "x2", "x3")]
OPS = ("grad", "div", "curl", "laplace")


def _rnd(seed, *k):
    x = seed & 0xFFFFFFFF
    for v in k:
        x = (x * 1000003 + int(v) + 777) & 0xFFFFFFFFFFFF
    return random.Random(x)


def names_for(rnd, nd, nv, mp):
    """dimension names, component labels and the vdim_mapping argument for a mapping in model coding
    (mp[c] in 1..nd = axis, 0 = unmapped, nd+1 = foreign).  Returns (dims, vdims, mapping-arg, description)."""
    dims = list(rnd.choice(DIM_SCHEMES)[:nd])
    if rnd.random() < 0.4:
        rnd.shuffle(dims)
    style = rnd.choice(("default", "custom", "spelled"))
    if style == "default":
        vdims = None
        labels = {1: None, 2: ["x", "y"], 3: ["x", "y", "z"], 4: ["v0", "v1", "v2", "v3"]}[nv]
    elif style == "custom":
        vdims = [["s"], ["u", "v"], ["mx", "my", "mz"], ["p", "q", "r", "s"]][nv - 1]
        labels = vdims
    else:
        # labels spelled like mesh axes, rotated by one: label c is the NAME of axis c+1, whatever it is mapped to
        if 1 < nv <= nd:
            vdims = [dims[(c + 1) % nd] for c in range(nv)]
        else:
            vdims = [["s"], ["u", "v"], ["mx", "my", "mz"], ["p", "q", "r", "s"]][nv - 1]
        labels = vdims
    if nv == 1 and labels is None and mp[0] != 0:
        vdims = ["s"]
        labels = vdims
    identity = nv == nd and all(mp[c] == c + 1 for c in range(nv))
    if labels is None:
        mapping = {}  # scalar without label: cannot carry a mapping
        arg = None
    elif all(v == 0 for v in mp):
        mapping = {} if rnd.random() < 0.5 else {labels[c]: None for c in range(nv)}
        arg = mapping
        if nv == nd:  # the default (None) would be the positional mapping, so the empty one must be explicit
            arg = mapping
    else:
        mapping = {labels[c]: (dims[mp[c] - 1] if 1 <= mp[c] <= nd else (None if mp[c] == 0 else "q9")) for c in range(nv)}
        # (for a scalar the default is *no* mapping, so the identity must be explicit there)
        arg = None if (identity and nv > 1 and rnd.random() < 0.5) else mapping
    if labels is None:
        arg = None
    # sometimes the labels are given to the field only after construction (f.vdims = ...): the mapping must follow
    rename = vdims is not None and rnd.random() < 0.3
    return dims, vdims, arg, {"dims": dims, "vdims": vdims, "mapping": mapping if labels is not None else {}, "style": style,
                              "rename": rename}


def mesh_cfg(rnd, nd, emb, nmin=3, nmax=4, pbc=None):
    sizes = (4, 8, 16) if emb.dyadic else (4, 8, 12, 20)
    return {"n": tuple(rnd.randrange(nmin, nmax + 1) for _ in range(nd)), "c": tuple(rnd.choice(sizes) for _ in range(nd)),
            "lo": tuple(4 * rnd.randrange(-10, 10) for _ in range(nd))}


def centres(mc):
    """lattice coordinates of the cell centres, array (*n, nd)"""
    axes = [np.array([mc["lo"][d] + mc["c"][d] * i + mc["c"][d] // 2 for i in range(mc["n"][d])], dtype=float)
            for d in range(len(mc["n"]))]
    return np.stack(np.meshgrid(*axes, indexing="ij"), axis=-1)


def build(df, emb, mc, dims, bc, nv, vdims, mapping, arr, valid=None, unit=None, rename=False):
    first = vdims
    if rename and vdims is not None:
        if nv > 1 and (sum(mc["n"]) + len(bc)) % 2 == 1:
            # provisional labels that are a PERMUTATION of the final ones: every new label is already a key of the old mapping
            # (seeded change C05-31 let such a label keep its old axis)
            first = [vdims[(c + 1) % nv] for c in range(nv)]
        else:
            first = [f"t{c}" for c in range(nv)]
        if mapping:
            mapping = {first[vdims.index(k)]: v for k, v in mapping.items()}
    if mapping and len(mapping) > 1 and (sum(mc["n"]) + nv) % 2 == 0:
        # a mapping is a dictionary: the order in which its keys are written must not matter (seeded change C05-2:
        # relabelling paired the new labels with the mapping's values in insertion order)
        mapping = dict(reversed(list(mapping.items())))
    car = dict(n=mc["n"], c=mc["c"], lo=mc["lo"], axis=0, dims=tuple(dims), bc=bc, nv=nv, vdims=first, unit=unit,
               dtype="f8", mapping=mapping)
    mesh = pr.build_mesh(df, emb, car)
    if valid is None:
        valid = np.ones(mc["n"], dtype=bool)
    f = pr.make_field(df, mesh, car, arr, valid)
    if first is not vdims:
        f.vdims = list(vdims)
    return fld.afterlife(f, sum(mc["n"]) + nv + len(bc))


def call_op(f, op):
    try:
        return True, getattr(f, op)
    except Exception as ex:
        return False, f"{type(ex).__name__}: {ex}"


def project(x, exact, what):
    r = np.rint(x)
    with np.errstate(invalid="ignore"):
        tol = 0.0 if exact else 1e-9 * (1.0 + np.abs(x)) + 1e-7
        if not (np.all(np.isfinite(x)) and np.all(np.abs(x - r) <= tol)):
            raise pr.Unprojectable(what)
    return r.astype(np.int64)


def mapclass(nd, nv, mp, op=None):
    if op == "grad" or (nv == 1 and op in ("laplace", "curl_grad")):
        return "scalar"
    if any(v == 0 for v in mp):
        return "unmapped"
    if any(v == nd + 1 for v in mp):
        return "foreign"
    if len(set(mp)) != len(mp):
        return "non-injective"
    if nv == 1:
        return "scalar"
    return "identity-mapping" if all(mp[c] == c + 1 for c in range(nv)) else "permuted-mapping"


# ------------------------------------------------------------------------------------- R: table states
def sym(nd, c, d):
    return 2 ** ((c - 1) * nd + (d - 1))


def r_table(df, st, emb, rnd, part):
    cfg, act, obs = st["cfg"], st["act"], st["obs"]
    nd, nv, mp, op = cfg["nd"], cfg["nv"], tuple(cfg["map"]), act[1]
    dims, vdims, arg, desc = names_for(rnd, nd, nv, mp)
    mc = mesh_cfg(rnd, nd, emb, 3, 3 if nd == 4 else 4)
    q = centres(mc)  # (*n, nd)
    power = 2 if op == "laplace" else 1
    arr = np.stack([sum(sym(nd, c + 1, d + 1) * q[..., d] ** power for d in range(nd)) for c in range(nv)], axis=-1)
    cls = mapclass(nd, nv, mp, op)
    key = lambda clause: f"{clause}/{op}/{cls}"
    wit = lambda **kw: dict(nd=nd, nv=nv, map=mp, op=op, names=desc, mesh=mc, embedding=emb.name, expected=obs, **kw)
    try:
        f = build(df, emb, mc, dims, "", nv, vdims, arg, arr, unit=rnd.choice([None, "A/m"]), rename=desc["rename"])
    except Exception as ex:
        part.violation(key("construct"), f"a field with this mapping cannot be built: {type(ex).__name__}", wit(exc=repr(ex)))
        return
    # what the harness asked for must be what the field carries (otherwise the realisation is wrong, not the library)
    got_map = dict(f.vdim_mapping)
    ok, res = call_op(f, op)
    part.count()
    part.trace()
    if obs.get("free"):
        part.note("non-injective mapping: unconstrained, not compared")
        return
    if ok != obs["ok"]:
        part.violation(key("C05_Refusals"), "operator accepted/refused differently from the specification "
                       "(refused iff components are not mapped onto the mesh axes or the dimensions do not fit)",
                       wit(got=str(res)[:200], field_mapping=got_map))
        return
    if not ok:
        if cls in ("unmapped", "foreign"):
            part.nontriv("R", op, nd, nv, mp, desc["style"], emb.name)
        return
    want = np.array(obs["v"], dtype=float) * (2.0 if op == "laplace" else 1.0)
    out = np.asarray(res.array) * (emb.quantum ** power)
    if out.shape[-1] != len(want):
        part.violation(key("C05_ResultComponents"), "result has the wrong number of components", wit(got=out.shape))
        return
    tol = 0.0 if emb.dyadic else 1e-9 * (np.abs(want) + float(np.abs(arr).max()) / min(mc["c"]) ** power)
    bad = np.abs(out - want) > tol
    if bad.any():
        i = np.argwhere(bad)[0]
        part.violation(key("C05_TextbookCombination"),
                       "operator output on a field with known slopes differs from the textbook combination through the mapping",
                       wit(cell=i.tolist(), got=out[tuple(i[:-1])].tolist(), want=want.tolist(), field_mapping=got_map))
    part.nontriv("R", op, nd, nv, mp, desc["style"], emb.name)


# ------------------------------------------------------------------------------------- R: mesh / rot states
def same_mesh(m1, m2, emb, cq):
    if tuple(int(v) for v in m1.n) != tuple(int(v) for v in m2.n):
        return False
    tol = float(emb.length(cq)) * 1e-9 + 32 * float(np.spacing(np.abs(np.concatenate([m1.region.pmin, m1.region.pmax])).max()))
    return bool(np.all(np.abs(np.asarray(m1.region.pmin) - np.asarray(m2.region.pmin)) <= tol)
                and np.all(np.abs(np.asarray(m1.region.pmax) - np.asarray(m2.region.pmax)) <= tol))


def r_mesh(df, st, emb, rnd, part):
    """identities, polynomial exactness and quarter-turn commutation of the model's small meshes on the real library"""
    cfg, act, obs = st["cfg"], st["act"], st["obs"]
    m, mp = cfg["m"], list(cfg["map"])
    n, h = tuple(m["n"]), tuple(m["h"])
    pbc = set(m["pbc"])
    nd = 3
    HL = int(np.lcm.reduce(np.array(h)))
    mc = {"n": n, "c": tuple(4 * x for x in h), "lo": (0, 0, 0)}
    kind = act[0]
    nv = 1 if kind == "curl_grad" or (kind in ("poly", "rot") and act[1] == "grad") else 3
    while True:
        dims, vdims, arg, desc = names_for(rnd, nd, nv, mp if nv == 3 else [0])
        if all(len(d) == 1 for d in dims) or not pbc:
            break
    bc = "".join(dims[d - 1] for d in sorted(pbc))
    ncell = int(np.prod(n))
    first = 8 * HL * emb.quantum          # numerator of a first-derivative operator = output * 8 HL quantum
    second = 16 * HL * HL * emb.quantum ** 2
    wit = lambda **kw: dict(mesh=dict(n=n, h=h, pbc=sorted(pbc)), map=mp, act=act, names=desc, bc=bc, embedding=emb.name, **kw)

    def impulse(k, c):
        a = np.zeros((ncell, nv))
        a[k - 1, c - 1] = 1.0
        return np.stack([a[:, j].reshape(n, order="F") for j in range(nv)], axis=-1)

    def mk(arr):
        return build(df, emb, mc, dims, bc, nv, vdims, arg, arr, rename=desc["rename"])

    def close(x, want, scale):
        tol = 0.0 if emb.dyadic else 1e-9 * scale
        return bool(np.all(np.abs(x - want) <= tol))

    part.count()
    part.trace()
    try:
        if kind == "curl_grad":
            out = np.asarray(mk(impulse(act[1], 1)).grad.curl.array) * first * first
            if not close(out, 0.0, 64.0 * HL * HL):
                part.violation("C05_CurlGradZero/curl_grad/scalar" + ("/periodic" if pbc else ""),
                               "curl(grad f) of a unit impulse is not zero", wit(got=flat(out)[:12]))
            part.nontriv("R", kind, n, h, tuple(sorted(pbc)), act[1], emb.name)
        elif kind == "div_curl":
            out = np.asarray(mk(impulse(act[1], act[2])).curl.div.array) * first * first
            if not close(out, 0.0, 64.0 * HL * HL):
                part.violation(f"C05_DivCurlZero/div_curl/{mapclass(3, 3, mp)}" + ("/periodic" if pbc else ""),
                               "div(curl v) of a unit impulse is not zero", wit(got=flat(out)[:12]))
            part.nontriv("R", kind, n, h, tuple(sorted(pbc)), tuple(mp), act[1], act[2], emb.name)
        elif kind == "poly":
            op, mono, c = act[1], act[2], act[3]
            q = centres(mc) / 2.0  # the model's doubled centre coordinate X_d = h_d (2 i_d + 1)
            col = np.ones(n)
            for d in mono:
                if d:
                    col = col * q[..., d - 1]
            arr = np.zeros(n + (nv,))
            arr[..., (0 if nv == 1 else c - 1)] = col
            ok, res = call_op(mk(arr), op)
            if not ok:
                part.violation(f"C05_Refusals/{op}/{mapclass(3, nv, mp, op)}", "operator refused a field that fits it", wit(exc=res))
                return
            out = np.asarray(res.array) * (second if op == "laplace" else first)
            want = np.array(obs["v"], dtype=float)
            want = np.stack([want[:, j].reshape(n, order="F") for j in range(want.shape[1])], axis=-1)
            if out.shape != want.shape or not close(out, want, float(np.abs(want).max()) + 1.0):
                part.violation(f"C05_PolyExactDeg2/{op}/{mapclass(3, nv, mp, op)}",
                               "operator is not exact on a monomial of degree <= 2", wit(monomial=mono, component=c, expected=obs["v"]))
            if np.any(want != 0):
                part.nontriv("R", kind, op, n, h, tuple(mp), tuple(mono), c, emb.name)
        elif kind == "rot":
            op, ab, kk, k, c = act[1], act[2], act[3], act[4], act[5]
            f = mk(impulse(k, 1 if nv == 1 else c))
            a, b = dims[ab[0] - 1], dims[ab[1] - 1]
            A = getattr(f.rotate90(a, b, k=kk), op)
            B = getattr(f, op).rotate90(a, b, k=kk)
            fac = second if op == "laplace" else first
            asym = ((ab[0] in pbc) != (ab[1] in pbc)) and kk % 2 == 1
            xa, xb = np.asarray(A.array) * fac, np.asarray(B.array) * fac
            same = xa.shape == xb.shape and bool(np.all(np.abs(xa - xb) <= 1e-9 * 16 * HL * HL)) and same_mesh(A.mesh, B.mesh, emb, max(mc["c"]))
            if not same:
                part.violation(f"C05_CommutesWithRot90/{op}/{mapclass(3, nv, mp, op)}" + ("/bc-asym" if asym else ""),
                               "op(rotate90(f)) differs from rotate90(op(f)) for a unit impulse",
                               wit(plane=[a, b], k=kk, cell=k, component=c))
            want = np.array(obs["oprot"], dtype=float) if "oprot" in obs else np.zeros((1, 1))
            n2 = tuple(obs.get("n2", (1,)))
            want = np.stack([want[:, j].reshape(n2, order="F") for j in range(want.shape[1])], axis=-1)
            part.note("R_rot_op_of_rotated_equals_model" if (xa.shape == want.shape and np.all(np.abs(xa - want) <= 1e-9 * 16 * HL * HL))
                      else "R_rot_op_of_rotated_differs_from_model")
            part.nontriv("R", kind, op, n, tuple(mp), tuple(ab), kk, k, c, emb.name)
    except pr.Unprojectable as ex:
        part.violation(f"C05_Projectable/{kind}/any", str(ex), wit())
    except Exception as ex:
        part.violation(f"C05_Defined/{kind}/raised", f"{type(ex).__name__} while replaying a model state", wit(exc=str(ex)[:300]))


# ------------------------------------------------------------------------------------- T: events
def rand_field_cfg(rnd, emb, nd=None, op=None, nmin=1, nmax=5, full=False, periodic=True):
    nd = nd or rnd.choice((1, 2, 2, 3, 3, 3, 4))
    op = op or rnd.choice(OPS)
    if op == "curl":
        nd = 3
    nv = {"grad": 1, "div": nd, "curl": 3}.get(op) or rnd.choice((1, 2, 3, 4))
    if rnd.random() < 0.12:  # misfits
        nv = rnd.choice((1, 2, 3, 4))
        if op == "curl" and rnd.random() < 0.5:
            nd = rnd.choice((1, 2, 4))
    mp = list(range(1, nv + 1)) if nv == nd else [0] * nv
    r = rnd.random()
    if nv == nd and nv > 1 and r < 0.6:
        rnd.shuffle(mp)
    elif r < 0.7:
        mp = [rnd.choice([0, nd + 1] + list(range(1, nd + 1))) for _ in range(nv)]
    elif nv != nd and r < 0.85:
        mp = [rnd.randrange(1, nd + 1) for _ in range(nv)]
    mc = mesh_cfg(rnd, nd, emb, nmin, nmax if nd < 4 else min(nmax, 3))
    dims, vdims, arg, desc = names_for(rnd, nd, nv, mp)
    bc = ""
    if periodic and all(len(d) == 1 for d in dims):
        bc = "".join(d for d in dims if rnd.random() < 0.3)
    valid = np.ones(mc["n"], dtype=bool)
    if not full and rnd.random() < 0.6:
        valid = np.array([rnd.random() < 0.8 for _ in range(int(np.prod(mc["n"])))]).reshape(mc["n"])
    return dict(nd=nd, nv=nv, op=op, map=mp, mc=mc, dims=dims, vdims=vdims, arg=arg, desc=desc, bc=bc, valid=valid)


def rand_ints(rnd, shape, lo=-9, hi=9):
    return np.array([rnd.randrange(lo, hi + 1) for _ in range(int(np.prod(shape)))], dtype=float).reshape(shape)


def hunits(mc):
    g = int(np.gcd.reduce(np.array(mc["c"])))
    return [c // g for c in mc["c"]], g


def flat(a):
    """(*n, nv) -> list over cells (first dimension fastest) of component lists"""
    nv = a.shape[-1]
    return a.reshape((-1, nv), order="F").tolist()


def ev_comb(df, emb, rnd, part):
    c = rand_field_cfg(rnd, emb)
    arr = rand_ints(rnd, tuple(c["mc"]["n"]) + (c["nv"],))
    return measure_comb(df, emb, c, arr, part)


def measure_comb(df, emb, c, arr, part):
    nd, nv, op, mc = c["nd"], c["nv"], c["op"], c["mc"]
    f = build(df, emb, mc, c["dims"], c["bc"], nv, c["vdims"], c["arg"], arr, valid=c["valid"], rename=c["desc"]["rename"])
    ok, res = call_op(f, op)
    hs, g = hunits(mc)
    HL = int(np.lcm.reduce(np.array(hs)))
    order = 2 if op == "laplace" else 1
    cls = mapclass(nd, nv, c["map"], op)
    ev = {"k": "comb", "op": op, "nd": nd, "nv": nv, "map": list(c["map"]), "h": hs, "ok": bool(ok),
          "free": cls == "non-injective" and op in ("div", "curl"), "D": [], "out": []}
    info = {"cls": cls, "names": c["desc"], "mesh": {k: list(v) for k, v in mc.items()}, "bc": c["bc"], "embedding": emb.name,
            "valid": c["valid"].astype(int).reshape(-1, order="F").tolist(), "data": flat(arr), "exc": None if ok else str(res)[:200],
            "nd": nd, "nv": nv, "map": list(c["map"]), "op": op}
    if ok:
        # the library's own directional derivatives of every component (scalar fields built from the array columns)
        exact = emb.dyadic
        D = []
        for d in range(nd):
            hd = emb.length(mc["c"][d])
            den = 2 * hd if order == 1 else hd * hd
            cols = []
            for cc in range(nv):
                s = df.Field(f.mesh, nvdim=1, value=arr[..., cc:cc + 1], valid=c["valid"])
                cols.append(np.asarray(s.diff(c["dims"][d], order=order).array)[..., 0] * den)
            D.append(project(np.stack(cols, axis=-1), exact, "directional derivative"))
        Hq = emb.length(g * HL)
        out = np.asarray(res.array) * (2 * Hq if order == 1 else Hq * Hq)
        ev["D"] = [flat(x) for x in D]
        ev["out"] = flat(project(out, exact, "operator output"))
        if np.any(np.asarray(res.array) != 0):
            part.nontriv("T", "comb", op, nd, nv, tuple(c["map"]), c["desc"]["style"], emb.name, c["bc"])
    elif cls in ("unmapped", "foreign"):
        part.nontriv("T", "refuse", op, nd, nv, tuple(c["map"]))
    return ev, info


def direct_cfg(rnd, emb, nd, nv, mp, nmin, nmax, full, periodic):
    mc = mesh_cfg(rnd, nd, emb, nmin, nmax if nd < 4 else min(nmax, 3))
    dims, vdims, arg, desc = names_for(rnd, nd, nv, mp)
    bc = ""
    if periodic and all(len(d) == 1 for d in dims):
        bc = "".join(d for d in dims if rnd.random() < 0.35)
    valid = np.ones(mc["n"], dtype=bool)
    if not full:
        valid = np.array([rnd.random() < 0.8 for _ in range(int(np.prod(mc["n"])))]).reshape(mc["n"])
    return dict(nd=nd, nv=nv, map=list(mp), mc=mc, dims=dims, vdims=vdims, arg=arg, desc=desc, bc=bc, valid=valid)


def fitting(rnd, op, nd=None):
    """(nd, nv, mapping) of a field the operator accepts"""
    nd = 3 if op == "curl" else (nd or rnd.choice((1, 2, 2, 3, 3, 3, 4)))
    if op == "grad":
        return nd, 1, [0]
    if op in ("div", "curl"):
        return nd, nd, rnd.sample(range(1, nd + 1), nd)
    nv = rnd.choice((1, nd, nd, rnd.choice((1, 2, 3, 4))))
    mp = rnd.sample(range(1, nd + 1), nd) if nv == nd else [0] * nv
    return nd, nv, mp


def ev_ident(df, emb, rnd, part):
    which = rnd.choice(("curl_grad", "div_curl"))
    nv = 1 if which == "curl_grad" else 3
    mp = [0] if nv == 1 else rnd.sample([1, 2, 3], 3)
    c = direct_cfg(rnd, emb, 3, nv, mp, 1, 5, True, True)
    mc = c["mc"]
    arr = rand_ints(rnd, tuple(mc["n"]) + (nv,), -20, 20)
    f = build(df, emb, mc, c["dims"], c["bc"], nv, c["vdims"], c["arg"], arr, rename=c["desc"]["rename"])
    try:
        res = f.grad.curl if which == "curl_grad" else f.curl.div
    except Exception as ex:
        raise pr.DiffRaised(f"{type(ex).__name__}: {ex}") from ex
    hs, g = hunits(mc)
    HL = int(np.lcm.reduce(np.array(hs)))
    Hq = emb.length(g * HL)
    out = np.asarray(res.array) * (2 * Hq) ** 2
    if emb.dyadic:
        outi = project(out, True, "identity")
    else:  # "to rounding": anything below 1e-9 of the natural scale is zero
        scale = 40.0 * (HL ** 2) * 16
        outi = np.where(np.abs(out) <= 1e-9 * scale, 0, np.sign(out) * np.maximum(1, np.rint(np.abs(out)))).astype(np.int64)
    pbcs = sorted(d + 1 for d in range(3) if len(c["dims"][d]) == 1 and c["dims"][d] in c["bc"])
    ev = {"k": "ident", "which": which, "m": {"n": list(mc["n"]), "h": hs, "pbc": pbcs}, "map": list(mp), "out": flat(outi)}
    info = {"cls": mapclass(3, nv, mp, which), "names": c["desc"], "mesh": {k: list(v) for k, v in mc.items()}, "bc": c["bc"],
            "embedding": emb.name, "data": flat(arr)}
    if np.any(arr != 0) and int(np.prod(mc["n"])) > 1:
        part.nontriv("T", "ident", which, tuple(mc["n"]), tuple(mp), c["bc"], emb.name)
    return ev, info


def ev_poly(df, emb, rnd, part):
    op = rnd.choice(OPS)
    nd, nv, mp = fitting(rnd, op)
    c = direct_cfg(rnd, emb, nd, nv, mp, 3, 5, True, False)
    mc = dict(c["mc"], lo=tuple(4 * rnd.randrange(-3, 3) for _ in range(nd)), c=tuple(rnd.choice((4, 8)) for _ in range(nd)))
    q = centres(mc)
    polys, cols = [], []
    for cc in range(nv):
        p = {"c0": rnd.randrange(-5, 6), "lin": [rnd.randrange(-4, 5) for _ in range(nd)],
             "quad": [[(rnd.randrange(-3, 4) if e >= d else 0) for e in range(nd)] for d in range(nd)]}
        col = p["c0"] + sum(p["lin"][d] * q[..., d] for d in range(nd))
        for d in range(nd):
            for e in range(d, nd):
                col = col + p["quad"][d][e] * q[..., d] * q[..., e]
        polys.append(p)
        cols.append(col)
    arr = np.stack(cols, axis=-1)
    f = build(df, emb, mc, c["dims"], "", nv, c["vdims"], c["arg"], arr, rename=c["desc"]["rename"])
    ok, res = call_op(f, op)
    if not ok:
        raise pr.DiffRaised(str(res))
    order = 2 if op == "laplace" else 1
    out = np.asarray(res.array) * emb.quantum ** order
    if emb.dyadic:
        outi = project(out, True, "polynomial derivative")
    else:
        scale = float(np.abs(arr).max()) + 1.0
        r = np.rint(out)
        if np.any(np.abs(out - r) > 1e-9 * scale):
            raise pr.Unprojectable("polynomial derivative")
        outi = r.astype(np.int64)
    ev = {"k": "poly", "op": op, "m": {"lo": list(mc["lo"]), "c": list(mc["c"]), "n": list(mc["n"])}, "poly": polys,
          "map": list(mp), "out": flat(outi)}
    info = {"cls": mapclass(nd, nv, mp, op), "names": c["desc"], "mesh": {k: list(v) for k, v in mc.items()}, "embedding": emb.name}
    part.nontriv("T", "poly", op, nd, nv, tuple(mp), emb.name, tuple(mc["n"]))
    return ev, info


def proj_field(emb, fld, factor, scale, cq):
    arr = np.asarray(fld.array) * factor
    r = np.rint(arr)
    if np.any(np.abs(arr - r) > 1e-9 * scale + (0 if emb.dyadic else 1e-9 * np.abs(arr))):
        raise pr.Unprojectable("rotated operator output")
    # corners in half lattice units; a quarter turn goes through cos(k pi/2), so a tolerance applies on every embedding
    lo, hi = [], []
    for xs, dst in ((fld.mesh.region.pmin, lo), (fld.mesh.region.pmax, hi)):
        for x in xs:
            q2 = 2 * emb.q_of(x)
            k2 = round(q2)
            if abs(q2 - k2) > 2e-9 * cq + 2 * emb.tol_q(cq, (k2,)):
                raise pr.Unprojectable("rotated mesh corners")
            dst.append(int(k2))
    return {"n": [int(v) for v in fld.mesh.n], "lo": lo, "hi": hi,
            "arr": flat(r.astype(np.int64)), "valid": np.asarray(fld.valid).reshape(-1, order="F").astype(bool).tolist()}


def ev_rot(df, emb, rnd, part, force=None):
    op = rnd.choice(OPS)
    while True:
        nd, nv, mp = fitting(rnd, op, nd=rnd.choice((2, 3, 3, 3, 4)))
        # rotating a vector field needs the two in-plane components: scalars or bijective mappings
        if nd >= 2 and (nv == 1 or nv == nd):
            break
    c = direct_cfg(rnd, emb, nd, nv, mp, 1, 4, rnd.random() < 0.5, True)
    mc, dims = c["mc"], c["dims"]
    a, b = rnd.sample(range(nd), 2)
    k = rnd.choice((1, 1, 2, 3, -1, 5))
    # periodicity: symmetric in the rotation plane, unless the event is about the asymmetric case
    bc = c["bc"].replace(dims[a], "").replace(dims[b], "") if all(len(d) == 1 for d in dims) else ""
    asym = False
    if all(len(d) == 1 for d in dims):
        if force == "asym":
            bc += dims[rnd.choice((a, b))]
            k = rnd.choice((1, 3, -1))
            asym = True
        elif rnd.random() < 0.4:
            bc += dims[a] + dims[b]
    arr = rand_ints(rnd, tuple(mc["n"]) + (nv,))
    c = dict(c, op=op, bc=bc)
    return measure_rot(df, emb, c, a, b, k, asym, arr, part)


def measure_rot(df, emb, c, a, b, k, asym, arr, part):
    nd, nv, mp, op, mc, dims, bc = c["nd"], c["nv"], c["map"], c["op"], c["mc"], c["dims"], c["bc"]
    f = build(df, emb, mc, dims, bc, nv, c["vdims"], c["arg"], arr, valid=c["valid"], rename=c["desc"]["rename"])
    try:
        A = getattr(f.rotate90(dims[a], dims[b], k=k), op)
        B = getattr(f, op).rotate90(dims[a], dims[b], k=k)
    except Exception as ex:
        raise pr.DiffRaised(f"{type(ex).__name__}: {ex}") from ex
    hs, g = hunits(mc)
    HL = int(np.lcm.reduce(np.array(hs)))
    order = 2 if op == "laplace" else 1
    Hq = emb.length(g * HL)
    factor = 2 * Hq if order == 1 else Hq * Hq
    scale = 40.0 * HL ** order
    cq = max(mc["c"])
    ev = {"k": "rot", "op": op, "m": {"n": list(mc["n"]), "h": hs, "pbc": []}, "map": list(mp),
          "oprot": proj_field(emb, A, factor, scale, cq), "rotop": proj_field(emb, B, factor, scale, cq)}
    info = {"cls": mapclass(nd, nv, mp, op), "names": c["desc"], "mesh": {k2: list(v) for k2, v in mc.items()}, "bc": bc,
            "embedding": emb.name, "plane": [dims[a], dims[b]], "k": k, "data": flat(arr),
            "valid": c["valid"].astype(int).reshape(-1, order="F").tolist(), "tag": "bc-asym" if asym else "",
            "nd": nd, "nv": nv, "map": list(mp), "op": op}
    part.nontriv("T", "rot", op, nd, nv, tuple(mp), (a, b), k % 4, bc, emb.name)
    return ev, info


GEN = {"comb": ev_comb, "ident": ev_ident, "poly": ev_poly, "rot": ev_rot}


def t_job(df, job, part):
    rnd = _rnd(job["seed"], job["id"])
    emb = job["emb"]
    try:
        if job["kind"] == "rot-asym":
            ev, info = ev_rot(df, emb, rnd, part, force="asym")
        else:
            ev, info = GEN[job["kind"]](df, emb, rnd, part)
    except pr.Unprojectable as ex:
        part.violation(f"C05_Projectable/{job['kind']}/any", f"result on integer data is not on the expected rational grid: {ex}",
                       dict(job={k: v for k, v in job.items() if k != "emb"}, embedding=emb.name))
        return None
    except pr.DiffRaised as ex:
        part.violation(f"C05_Defined/{job['kind']}/raised", "operator raised on a field that fits it",
                       dict(job={k: v for k, v in job.items() if k != "emb"}, embedding=emb.name, exc=str(ex)))
        return None
    part.count()
    part.trace()
    return {"id": job["id"], "info": info, "ev": [ev]}


def key_for(clause, ev, info):
    op = ev.get("op") or ev.get("which")
    base = clause.split("-")[0]
    k = f"{base}/{op}/{info['cls']}"
    if clause != base:
        k += "/" + clause[len(base) + 1:]
    if info.get("tag"):
        k += "/" + info["tag"]
    return k


def judge(ctx, traces):
    if not traces:
        raise core._tlc.MachineryError("no C05 traces were produced")
    nb = max(1, min(6, len(traces) // 50))
    batches = [traces[i::nb] for i in range(nb)]
    from concurrent.futures import ThreadPoolExecutor

    def one(bi):
        slim = [{"id": t["id"], "ev": t["ev"]} for t in batches[bi]]
        return ctx.trace_check("C05Trace", "C05Trace.cfg", slim, name=f"C05Trace_b{bi}")

    with ThreadPoolExecutor(max_workers=6) as ex:
        results = list(ex.map(one, range(nb)))
    byid = {t["id"]: t for t in traces}
    for b, (r, verdicts, _) in zip(batches, results):
        expect = sum(len(t["ev"]) + 1 for t in b)
        if r.distinct != expect:
            raise core._tlc.MachineryError(f"C05Trace consumed {r.distinct} states, expected {expect}")
        for _, tid, l, clause in verdicts:
            t = byid[tid]
            e = t["ev"][l - 1]
            w = dict(t["info"])
            w["event"] = {k: (v if k not in ("D", "out", "oprot", "rotop") else None) for k, v in e.items()}
            if e["k"] == "rot":
                w["op_of_rotated"] = e["oprot"]
                w["rotated_op"] = e["rotop"]
            elif "out" in e:
                w["out"] = e["out"][:8]
            ctx.violation(key_for(clause, e, t["info"]), f"recorded {e['k']} event rejected by C05Trace: {clause}", w)
    ctx.sample({"channel": "T", "trace": {"id": traces[0]["id"], "info": traces[0]["info"],
                                          "event": {k: (v if not isinstance(v, list) or len(json.dumps(v)) < 300 else "...")
                                                    for k, v in traces[0]["ev"][0].items()}}})


def run(ctx):
    df = core.import_library()
    # the algebraic core (spec/C05Core.tla): Apalache discharges commutation / linearity / cancellation / exactness for unbounded integers
    from .. import apalache
    apalache.run_stage(ctx, module="C05Core.tla", obligations=apalache.C05_OBLIGATIONS, claim=apalache.C05_CLAIM)
    embs = embed.for_tier(ctx.tier, ctx.seed)
    dy = [e for e in embs if e.dyadic]
    r = ctx.model("MC_C05", f"C05_{ctx.tier}.cfg", dump=True)
    if r.coverage:  # thorough tier runs with -coverage 1: every action must have fired (vacuity guard)
        dead = [a for a in ('QOp', 'QCurlGrad', 'QDivCurl', 'QPoly', 'QRot') if r.coverage.get(a, (0, 0))[0] == 0]
        if dead:
            raise core._tlc.MachineryError(f"actions never taken in the model: {dead}")
    states = []
    if r.ok:
        states = ctx.dump_states(r)
        if len(states) != r.distinct:
            raise core._tlc.MachineryError(f"dump has {len(states)} states, TLC reports {r.distinct}")
    # model-level witness of D15 (informational): with today's positional mapping on the Laplacian's result the model
    # itself violates the commutation clause
    w = core._tlc.run("MC_C05", "C05_d15.cfg", ctx.scratch, workers=2, tag="d15")
    ctx.notes["model_witness_D15_positional_laplace_mapping_violates_CommutesWithRot90"] = int(
        "D15_TodaysLaplaceMappingCommutes" in w.violated)
    table = [s for s in states if s["cfg"]["kind"] == "table" and s["act"][0] == "op"]
    meshst = [s for s in states if s["cfg"]["kind"] in ("mesh", "rot") and s["act"][0] != "new"]
    nvar = 2 if ctx.tier == "quick" else 4
    work = []
    for si, st in enumerate(table):
        for v in range(nvar):
            work.append(("R", (si, v)))
    for si, st in enumerate(meshst):
        work.append(("RM", (si, 0)))
    nT = {"quick": dict(comb=700, ident=160, poly=260, rot=500, asym=40),
          "thorough": dict(comb=4000, ident=800, poly=1500, rot=3000, asym=100)}[ctx.tier]
    jid = 0
    for kind, cnt in (("comb", nT["comb"]), ("ident", nT["ident"]), ("poly", nT["poly"]), ("rot", nT["rot"]), ("rot-asym", nT["asym"])):
        for i in range(cnt):
            jid += 1
            # identities and polynomials: mostly dyadic (exact), a fifth on real-world embeddings
            emb = embs[jid % len(embs)] if jid % 5 == 0 else dy[jid % len(dy)]
            work.append(("T", dict(id=jid, kind=kind, emb=emb, seed=ctx.seed * 7919 + 13)))
    evdir = os.path.join(ctx.scratch, "events")
    os.makedirs(evdir, exist_ok=True)

    def chunk(items):
        part = Part()
        out = []
        for kind, job in items:
            if kind == "R":
                si, v = job
                rnd = _rnd(ctx.seed, 5, si, v)
                emb = embs[(si + v) % len(embs)] if v else dy[si % len(dy)]
                r_table(df, table[si], emb, rnd, part)
            elif kind == "RM":
                si, v = job
                rnd = _rnd(ctx.seed, 6, si, v)
                emb = embs[(si + v) % len(embs)] if (si + v) % 4 == 3 else dy[(si + v) % len(dy)]
                r_mesh(df, meshst[si], emb, rnd, part)
            else:
                t = t_job(df, job, part)
                if t is not None:
                    out.append(t)
        if items and items[0][0] == "R":
            si, v = items[0][1]
            part.sample({"channel": "R", "state": table[si]})
        if out:
            with open(os.path.join(evdir, f"{os.getpid()}_{out[0]['id']}.json"), "w") as fh:
                json.dump(out, fh)
        return part

    ctx.pmap(chunk, work)
    traces = []
    for fn in sorted(os.listdir(evdir)):
        with open(os.path.join(evdir, fn)) as fh:
            traces += json.load(fh)
    traces.sort(key=lambda t: t["id"])
    judge(ctx, traces)
    ctx.assumptions += [
        "TLC explores every table configuration (nd, nv in 1..4, every mapping) and the listed small meshes completely",
        "a table state is realised as a linear (Laplacian: quadratic) field; exactness of Field.diff on such fields is C04's clause and is relied on here",
        "names of dimensions and components, cell sizes and offsets are seeded harness choices; periodic directions only on one-letter dimension names (mesh.bc is per character)",
        "non-injective mappings are unconstrained by the property and are not compared",
    ]
    return core.finish(ctx, rule=RULE, extra={"embeddings": [e.name for e in embs], "R_table_states": len(table),
                                              "R_mesh_states": len(meshst), "T_events": len(traces)})


def replay(ctx, path):
    df = core.import_library()
    with open(path) as fh:
        rp = json.load(fh)
    w = rp["witness"]
    print("witness:", json.dumps(w)[:3000])
    if "event" not in w and "act" in w:
        # R witness of a mesh / rot state of the model
        embs = {e.name: e for e in embed.DYADIC + embed.REAL + embed.seeded(rp.get("seed", ctx.seed), 2)}
        emb = embs.get(w["embedding"], embed.DYADIC[0])
        act = tuple(tuple(x) if isinstance(x, list) else x for x in w["act"])
        st = {"cfg": {"kind": "rot" if act[0] == "rot" else "mesh", "map": w["map"],
                      "m": {"n": w["mesh"]["n"], "h": w["mesh"]["h"], "pbc": w["mesh"]["pbc"]}},
              "act": act, "obs": {"v": w.get("expected", [])}}
        bad = 0
        for k in range(10):
            part = Part()
            r_mesh(df, st, emb, _rnd(k, 2), part)
            bad += len(part["violations"])
        print("violations over 10 realisations:", bad)
        return 1 if bad else 0
    if "event" not in w:
        # R witness: rebuild the table state
        embs = {e.name: e for e in embed.DYADIC + embed.REAL + embed.seeded(rp.get("seed", ctx.seed), 2)}
        emb = embs.get(w["embedding"], embed.DYADIC[0])
        st = {"cfg": {"kind": "table", "nd": w["nd"], "nv": w["nv"], "map": w["map"]}, "act": ("op", w["op"]),
              "obs": w["expected"]}
        bad = 0
        for k in range(20):
            part = Part()
            r_table(df, st, emb, _rnd(k, 1), part)
            bad += len(part["violations"])
        print("violations over 20 realisations:", bad)
        return 1 if bad else 0
    # T witness (comb / rot): rebuild the field from the logged data, measure again and let TLC judge
    kind = w["event"]["k"]
    if kind not in ("comb", "rot"):
        print("re-run ./check C05 with VERIF_SEED=%s to regenerate this %s event" % (rp.get("seed"), kind))
        return 1
    embs = {e.name: e for e in embed.DYADIC + embed.REAL + embed.seeded(rp.get("seed", ctx.seed), 2)}
    emb = embs.get(w["embedding"], embed.DYADIC[0])
    mc = {k: tuple(v) for k, v in w["mesh"].items()}
    nv = w["nv"]
    arr = np.array(w["data"], dtype=float)
    arr = np.stack([arr[:, j].reshape(mc["n"], order="F") for j in range(nv)], axis=-1)
    valid = np.array(w["valid"], dtype=bool).reshape(mc["n"], order="F")
    names = w["names"]
    c = dict(nd=w["nd"], nv=nv, map=w["map"], op=w["op"], mc=mc, dims=names["dims"], vdims=names["vdims"],
             arg=(names["mapping"] if (names["vdims"] is not None or nv > 1) else None), desc=names, bc=w.get("bc", ""), valid=valid)
    part = Part()
    if kind == "comb":
        ev, info = measure_comb(df, emb, c, arr, part)
    else:
        a, b = (names["dims"].index(x) for x in w["plane"])
        ev, info = measure_rot(df, emb, c, a, b, w["k"], w.get("tag") == "bc-asym", arr, part)
    judge(ctx, [{"id": 1, "info": info, "ev": [ev]}])
    for k, info in ctx.found.items():
        print("still fails:", k, info["what"])
    return 1 if ctx.found or part["violations"] else 0
