"""C04 - derivatives are exact on low-degree polynomials, linear, and blind across gaps;
a periodic direction is a ring.

M: TLC exhaustive on spec/C04.tla: for every line length L <= MaxL, every validity pattern, both
   orders, open/periodic, restrict2valid on/off the reference operator (transcription of
   operators.py) satisfies the property's predicates C04_* (spec/C04Lib.tla layer 2).
R: every dumped `diff_data` state (data whose derivative the property determines: an own
   low-degree polynomial per run, garbage on invalid cells / short runs, arbitrary data on rings)
   is executed on the real Field.diff - alone on 1-D meshes and packed as grid lines along every
   axis of 2-4-D meshes next to all the other patterns - and compared cell by cell; every dumped
   `diff_unit` state is extracted from the real library as an observed matrix, compared with the
   reference matrix (informational) and handed to T.
T: operator extraction.  The real Field.diff is probed with unit vectors and random integer fields
   on carriers larger than the model (longer lines, all axes of 1-4-D meshes, 1-3 components,
   complex/int dtype, other embeddings); spec/C04Trace.tla evaluates the predicates on the
   OBSERVED matrices (never equality with the stencil), shift commutation over orbits of rolled
   validity patterns, linearity/independence on the random responses, metadata flags.
"""
import itertools
import json
import os
import random

import numpy as np

from .. import c04_probe as pr
from .. import core, embed
from ..core import Part

META = dict(
    level="model_checking",
    level_text=("Exhaustive TLC model checking of spec/C04.tla (every line length up to the bound x all 2^L validity "
                "patterns x both derivative orders x open/periodic x restrict2valid on/off): the reference operator "
                "transcribed from operators.py is proved to satisfy the property's predicates (exact on polynomials per "
                "run, zero on short runs/invalid cells, local to runs, ring formula, commuting with cyclic shifts, "
                "linear). Binding by operator extraction: the real Field.diff is probed with unit vectors and random "
                "integer fields on 1-4-D meshes (every axis, 1-3 components, all patterns as neighbouring lines), the "
                "observed L x L matrices are judged by TLC with the same predicates (spec/C04Trace.tla); every TLC "
                "state with property-determined data is replayed on the real library."),
    level_note=("Bounds: M/R quick L<=7, thorough L<=9 (all patterns); T all patterns up to L=8 (quick) / 10 (thorough) "
                "plus random patterns with all their cyclic shifts up to L=16; cell sizes 4/8/16 lattice units "
                "(anisotropic), dyadic embeddings exact, real-world embeddings to 1e-9. 'All real field values' is "
                "covered through linearity (unit-vector matrix + random responses = matrix * data). Trusted: TLC, "
                "tlaval parser, exact float arithmetic on dyadic data, the projection observation -> integers "
                "(harness/c04_probe.py). Not decided: float rounding of the derivative on non-dyadic cell sizes "
                "beyond 1e-9 relative."),
    technique=("TLA+ reference operator + property predicates over arbitrary matrices (C04Lib.tla); TLC exhaustive; "
               "operator extraction from the real Field.diff judged by TLC (C04Trace.tla); spec states replayed into code; Apalache on the algebraic core (C04Core.tla: every stencil exact on its polynomials, unbounded)"),
    design_ref="DESIGN.md section 7 C04",
)

RULE = ("R case = (dumped state, carrier mesh, embedding); T case = one observed (pattern, matrix) pair or one random "
        "response line; non-trivial = the expected/observed result is not identically zero; distinct by "
        "(L, pattern, order, pbc, r2v, carrier kind, embedding, dtype)")

NAMES1 = [("x", "y", "z", "w"), ("a", "b", "c", "d"), ("z", "y", "x", "t"), ("p", "q", "r", "s")]
NAMESW = [("x0", "x1", "x2", "x3"), ("len", "width", "h", "t")]  # cannot be periodic (bc is per character)
POW2 = (4, 8, 16)
ANY4 = (4, 8, 12, 16, 20)


def _rnd(seed, *k):
    x = seed & 0xFFFFFFFF
    for v in k:
        x = (x * 1000003 + int(v) + 12345) & 0xFFFFFFFFFFFF
    return random.Random(x)


def _factor(K, parts, rnd):
    """split K (a power of two or any int) into `parts` factors >= 1 whose product >= K"""
    if parts == 0:
        return []
    if parts == 1:
        return [K]
    f = [1] * parts
    rest = K
    i = 0
    while rest > 1:
        p = 2 if rest % 2 == 0 else (3 if rest % 3 == 0 else rest)
        f[i % parts] *= p
        rest //= p
        i += 1
    rnd.shuffle(f)
    return f


def make_carrier(rnd, L, nd, axis, nlines, pbc, emb, nv=None, dtype="f8", bcword=None):
    trans = _factor(nlines, nd - 1, rnd)
    n = trans[:axis] + [L] + trans[axis:]
    sizes = POW2 if emb.dyadic else ANY4
    c = [rnd.choice(sizes) for _ in range(nd)]
    lo = [4 * rnd.randrange(-20, 20) for _ in range(nd)]
    if bcword:
        # a mesh with 'neumann'/'dirichlet' has no periodic direction; name the axis with a letter of the word
        letters = [ch for ch in dict.fromkeys(bcword)]
        rnd.shuffle(letters)
        dims = letters[:nd]
        bc = bcword
    else:
        dims = list(rnd.choice(NAMES1 if (pbc or rnd.random() < 0.7) else NAMESW)[:nd])
        if rnd.random() < 0.5:
            rnd.shuffle(dims)
        others = [d for k, d in enumerate(dims) if k != axis and len(d) == 1]
        bc = ""
        if pbc:
            bc = dims[axis]
        if all(len(d) == 1 for d in dims):
            for d in others:
                if rnd.random() < 0.35:
                    bc += d
            bc = "".join(rnd.sample(bc, len(bc)))
        if not pbc and bc == "" and rnd.random() < 0.2:
            # no periodic direction at all; only words none of whose letters names the axis
            for w in ("neumann", "dirichlet"):
                if all(ch not in w for d in dims for ch in d if len(d) == 1):
                    bc = w
    nv = nv or rnd.choice((1, 1, 2, 3))
    vd = {1: [None, ["s"]], 2: [None, ["u", "v"]], 3: [None, ["mx", "my", "mz"], ["p", "q", "r"]]}[nv]
    return {"n": tuple(n), "c": tuple(c), "lo": tuple(lo), "axis": axis, "dims": tuple(dims), "bc": bc, "nv": nv,
            "vdims": rnd.choice(vd), "unit": rnd.choice([None, "A/m", "T"]), "dtype": dtype}


def fill_valid(car, patterns, rnd):
    """validity array: line k (C order over the transverse index) gets patterns[k % len]"""
    nd, axis = len(car["n"]), car["axis"]
    L = car["n"][axis]
    tshape = [car["n"][d] for d in range(nd) if d != axis]
    nl = int(np.prod(tshape)) if tshape else 1
    P = np.array([patterns[k % len(patterns)] for k in range(nl)], dtype=bool).reshape(tuple(tshape) + (L,))
    return np.moveaxis(P, -1, axis)


def all_patterns(L):
    return [tuple(bool((k >> b) & 1) for b in range(L)) for k in range(2 ** L)]


def tag_of(car):
    t = []
    if car.get("dtype") == "i8":
        t.append("int-dtype")
    if car["bc"] in pr.PERIODIC_WORDS and any(ch in car["bc"] for ch in car["dims"][car["axis"]]):
        t.append("bc-word")
    return "/".join(t)


def key_of(clause, pbc, cls, tag):
    return f"{clause}/{'periodic' if pbc else 'open'}/{cls}" + (f"/{tag}" if tag else "")


def cardesc(car):
    return {k: (list(v) if isinstance(v, tuple) else v) for k, v in car.items()}


SNIPPET = ("import discretisedfield as df, numpy as np\n"
           "reg = df.Region(p1={p1}, p2={p2}, dims={dims})\n"
           "mesh = df.Mesh(region=reg, n={n}, bc={bc!r})\n"
           "# validity pattern {v} along {dim!r}; probe with unit vectors e_j:\n"
           "# f = df.Field(mesh, nvdim=1, value=e_j, valid=valid{dt}); f.diff({dim!r}, order={order}, restrict2valid={r2v})")


# ------------------------------------------------------------------------------------- R: data states
def r_data_job(df, job, part):
    """job: dict(L, order, pbc, r2v, states={(valid tuple, w): obs}, emb, kind, seed)"""
    emb = job["emb"]
    L, order, pbc, r2v = job["L"], job["order"], job["pbc"], job["r2v"]
    rnd = _rnd(job["seed"], 1)
    pats = sorted({v for v, _ in job["states"]})
    ws = sorted({w for _, w in job["states"]})
    carriers = []
    if job["kind"] == "1d":
        for v in pats:
            car = make_carrier(rnd, L, 1, 0, 1, pbc, emb, nv=len(ws))
            carriers.append((car, [v]))
    else:
        nd, axis = job["kind"]
        order_p = pats[:]
        rnd.shuffle(order_p)
        car = make_carrier(rnd, L, nd, axis, len(order_p), pbc, emb, nv=len(ws))
        carriers.append((car, order_p))
    for car, plist in carriers:
        valid = fill_valid(car, plist, rnd)
        nd, axis = len(car["n"]), car["axis"]
        vl = pr.to_lines(valid, axis, nd)
        data = np.zeros(tuple(car["n"]) + (len(ws),))
        exp = np.zeros_like(data)
        dl = np.zeros((vl.shape[0], len(ws), L))
        el = np.zeros_like(dl)
        cls = []
        for ln in range(vl.shape[0]):
            v = tuple(bool(b) for b in vl[ln])
            for ci, w in enumerate(ws):
                o = job["states"][(v, w)]
                dl[ln, ci] = o["f"]
                el[ln, ci] = o["out"]
            cls.append(job["states"][(v, ws[0])]["cls"])
        tshape = [car["n"][d] for d in range(nd) if d != axis]
        data = np.moveaxis(dl.reshape(tuple(tshape) + (len(ws), L)), -1, axis)
        try:
            out, meta = pr.apply(df, emb, car, valid, data, order, r2v)
        except pr.DiffRaised as ex:
            part.violation(key_of("C04_Defined", pbc, "raised", ""), "Field.diff raised on a well-formed request",
                           dict(carrier=cardesc(car), embedding=emb.name, order=order, r2v=r2v, exc=str(ex)))
            continue
        ol = pr.to_lines(np.real(out), axis, nd)
        for name, ok in meta.items():
            if not ok:
                part.violation(key_of("C04_KeepsMeta", pbc, name, ""), f"Field.diff does not keep {name}",
                               dict(carrier=cardesc(car), embedding=emb.name, order=order, r2v=r2v))
        scale = 1.0 + 16.0 * np.abs(dl).max(axis=2, keepdims=True)
        tol = 0.0 if emb.dyadic else 1e-9 * (np.abs(el) + scale)
        bad = np.abs(ol - el) > tol
        for ln in range(vl.shape[0]):
            v = tuple(bool(b) for b in vl[ln])
            for ci, w in enumerate(ws):
                part.trace()
                part.count(L)
                if np.any(el[ln, ci] != 0):
                    part.nontriv("R", L, v, order, pbc, r2v, w, job["kind"], emb.name)
                if not bad[ln, ci].any():
                    continue
                j = int(np.argmax(bad[ln, ci]))
                k = cls[ln][j]
                clause, cl = {"ring": ("C04_RingIsCentredWrap", "full-ring"),
                              "invalid": ("C04_InvalidZero", "periodic" if pbc else "open"),
                              "short": ("C04_ShortRunsZero", None), "run": ("C04_PolyExact", None)}[k["kind"]]
                if cl is None:
                    cl = ("run-across-seam" if k["seam"] else "run-inside") if pbc else "open"
                part.violation(key_of(clause, pbc, cl, ""),
                               "Field.diff differs from the derivative the property determines "
                               "(own polynomial per run, garbage elsewhere)",
                               dict(L=L, valid=v, order=order, pbc=pbc, r2v=r2v, variant=w, data=dl[ln, ci].tolist(),
                                    expected_numerators=el[ln, ci].tolist(), observed_numerators=ol[ln, ci].tolist(),
                                    cell=j, denominator="2h" if order == 1 else "h^2", carrier=cardesc(car),
                                    embedding=emb.name))
        part.sample({"channel": "R", "L": L, "order": order, "pbc": pbc, "r2v": r2v, "carrier": cardesc(car),
                     "embedding": emb.name, "lines": int(vl.shape[0])})


# ------------------------------------------------------------------------------------- T: extraction
def t_job(df, job, part):
    """job: dict(id, L, order, pbc, r2v, emb, seed, carriers=[(car, patterns)], ref={valid: (m, code)}|None)
    returns one trace dict"""
    emb = job["emb"]
    L, order, pbc, r2v = job["L"], job["order"], job["pbc"], job["r2v"]
    rnd = _rnd(job["seed"], 2)
    parts = []
    tag = job.get("tag", "")
    for car, plist in job["carriers"]:
        valid = fill_valid(car, plist, rnd)
        try:
            res = pr.extract(df, emb, car, valid, order, r2v, rnd)
        except pr.DiffRaised as ex:
            part.violation(key_of("C04_Defined", pbc, "raised", tag), "Field.diff raised on a well-formed request",
                           dict(carrier=cardesc(car), embedding=emb.name, order=order, r2v=r2v, exc=str(ex)))
            continue
        except pr.Unprojectable:
            part.violation(key_of("C04_Projectable", pbc, "any", tag),
                           "the response of Field.diff to integer data on this mesh is not a small rational multiple of "
                           "1/(2h) resp. 1/h^2", dict(carrier=cardesc(car), embedding=emb.name, order=order, r2v=r2v))
            continue
        parts.append(res)
        ref = job.get("ref")
        if ref:
            for v, m in res["mats"]:
                if v in ref:
                    scm = tuple(tuple(x * res["sc"] for x in row) for row in ref[v][0])
                    part.note("R_unit_equals_reference_operator" if m == scm else "R_unit_differs_from_reference_operator")
                    part.trace()
    if not parts:
        return None
    ev = pr.merge_event(parts, L, order, pbc, r2v, want_orbits=r2v)
    for m in ev["mats"]:
        part.count()
        if any(any(r) for r in m["m"]):
            part.nontriv("T", L, tuple(m["v"]), order, pbc, r2v, job["kindname"], emb.name, tag)
    part.count(len(ev["lines"]))
    part.trace(len(ev["mats"]) + len(ev["lines"]))
    return {"id": job["id"], "tag": tag, "emb": emb.name, "dy": emb.dyadic, "kind": job["kindname"],
            "carriers": [cardesc(c) for c, _ in job["carriers"]][:4], "ev": [ev]}


def witness_of(trace, ev, clause, cls, first):
    w = {"L": ev["L"], "order": ev["order"], "pbc": ev["pbc"], "r2v": ev["r2v"], "sc": ev["sc"],
         "embedding": trace["emb"], "carrier": trace["carriers"][0], "carrier_kind": trace["kind"]}
    if clause == "C04_Linear":
        ln = ev["lines"][first - 1]
        w.update(line=ln, mat=ev["mats"][ln["mi"] - 1])
    elif clause == "C04_ShiftCommutes" or clause.startswith("orbit"):
        orb = ev["orbits"][first - 1]
        w.update(orbit=[ev["mats"][i - 1] for i in orb[:3]])
    elif clause == "C04_KeepsMeta":
        w.update(meta=ev["meta"][first - 1])
    else:
        w.update(mat=ev["mats"][first - 1])
    return w


# ------------------------------------------------------------------------------------- plan
def plan_r(ctx, states, embs):
    groups = {}
    units = {}
    for st in states:
        c, act, obs = st["cfg"], st["act"], st["obs"]
        g = (c["L"], c["order"], c["pbc"], c["r2v"])
        v = tuple(c["valid"])
        if act[0] == "diff_data":
            groups.setdefault(g, {})[(v, act[1])] = {"f": obs["f"], "out": obs["out"], "cls": obs["cls"]}
        elif act[0] == "diff_unit":
            units.setdefault(g, {})[v] = (obs["m"], obs["code"])
    dy = [e for e in embs if e.dyadic]
    re = [e for e in embs if not e.dyadic]
    jobs = []
    kinds = ["1d"] + [(nd, ax) for nd in (2, 3, 4) for ax in range(nd)]
    for gi, (g, sts) in enumerate(sorted(groups.items())):
        L, order, pbc, r2v = g
        for ki, kind in enumerate(kinds):
            # every group on the first dyadic embedding; the others rotate over (group, kind)
            es = [dy[0]]
            if ctx.tier == "thorough":
                es = embs
            else:
                es = [dy[0], dy[1 + (gi + ki) % (len(dy) - 1)] if len(dy) > 1 else dy[0], re[(gi + ki) % len(re)]]
            for e in dict.fromkeys(es):
                jobs.append(dict(L=L, order=order, pbc=pbc, r2v=r2v, states=sts, emb=e, kind=kind,
                                 seed=ctx.seed * 131 + gi * 17 + ki))
    return jobs, units


def plan_t(ctx, units, embs):
    """jobs for the extraction channel"""
    jobs = []
    dy = [e for e in embs if e.dyadic]
    re = [e for e in embs if not e.dyadic]
    jid = [0]

    def add(L, order, pbc, r2v, emb, carriers, kindname, ref=None, tag=""):
        jid[0] += 1
        jobs.append(dict(id=jid[0], L=L, order=order, pbc=pbc, r2v=r2v, emb=emb, carriers=carriers, kindname=kindname,
                         ref=ref, tag=tag, seed=ctx.seed * 977 + jid[0]))

    # (a) the model's own configurations on 1-D meshes (R for the diff_unit states)
    for (L, order, pbc, r2v), pats in sorted(units.items()):
        rnd = _rnd(ctx.seed, 3, L, order, pbc, r2v)
        plist = sorted(pats)
        if not r2v:
            # the pattern must not matter: a sample of patterns is enough on the code side
            plist = [p for k, p in enumerate(plist) if k % max(1, len(plist) // 8) == 0 or all(p) or not any(p)]
        cars = [(make_carrier(rnd, L, 1, 0, 1, pbc, dy[0], nv=1), [v]) for v in plist]
        add(L, order, pbc, r2v, dy[0], cars, "1d", ref=pats)
    # (b) all patterns packed as neighbouring lines along every axis of 2-4-D meshes
    lmax = 8 if ctx.tier == "quick" else 10
    combos = [(nd, ax) for nd in (2, 3, 4) for ax in range(nd)]
    k = 0
    for L in range(1, lmax + 1):
        pats = all_patterns(L)
        for order in (1, 2):
            for pbc in (False, True):
                if ctx.tier == "thorough":
                    sel = combos if L <= 8 else [combos[(k + i * 4) % len(combos)] for i in range(2)]
                else:
                    sel = [combos[(k + i * 4) % len(combos)] for i in range(2 if L <= 7 else 1)]
                for nd, ax in sel:
                    k += 1
                    rnd = _rnd(ctx.seed, 4, k)
                    emb = dy[k % len(dy)]
                    p = pats[:]
                    rnd.shuffle(p)
                    dtype = "c16" if k % 5 == 0 else "f8"
                    add(L, order, pbc, True, emb, [(make_carrier(rnd, L, nd, ax, len(p), pbc, emb, dtype=dtype), p)],
                        f"{nd}d-axis{ax}")
                    if k % 3 == 0:
                        sub = rnd.sample(p, min(len(p), 16))
                        add(L, order, pbc, False, emb, [(make_carrier(rnd, L, nd, ax, len(sub), pbc, emb), sub)],
                            f"{nd}d-axis{ax}")
    # (c) long lines: random patterns with all their cyclic shifts
    for L in range(lmax + 1, 17):
        for order in (1, 2):
            for pbc in (False, True):
                k += 1
                rnd = _rnd(ctx.seed, 5, k)
                base = [tuple(rnd.random() < rnd.choice((0.5, 0.8, 0.9)) for _ in range(L))
                        for _ in range(6 if ctx.tier == "quick" else 24)]
                base += [tuple([True] * L), tuple([True] * (L - 1) + [False])]
                p = []
                for b in base:
                    p += [tuple(np.roll(np.array(b), s).tolist()) for s in range(L)]
                nd = rnd.choice((1, 2, 2, 3))
                if nd == 1:
                    cars = [(make_carrier(rnd, L, 1, 0, 1, pbc, dy[0]), [v]) for v in p[:3 * L]]
                else:
                    cars = [(make_carrier(rnd, L, nd, rnd.randrange(nd), len(p), pbc, dy[0]), p)]
                add(L, order, pbc, True, dy[0], cars, f"long-{nd}d")
    # (d) real-world embeddings (tolerance) on packed carriers
    for ei, emb in enumerate(re):
        for L in ((3, 5, 6) if ctx.tier == "quick" else (2, 3, 4, 5, 6, 7)):
            for order in (1, 2):
                for pbc in (False, True):
                    k += 1
                    rnd = _rnd(ctx.seed, 6, k)
                    p = all_patterns(L)
                    nd = rnd.choice((1, 2, 3))
                    if nd == 1:
                        cars = [(make_carrier(rnd, L, 1, 0, 1, pbc, emb), [v]) for v in p]
                    else:
                        cars = [(make_carrier(rnd, L, nd, rnd.randrange(nd), len(p), pbc, emb), p)]
                    add(L, order, pbc, True, emb, cars, f"real-{nd}d")
    # (e) special value/mesh classes, each under its own tag: integer dtype; a mesh whose bc is the word
    #     'neumann'/'dirichlet' (no periodic direction) and whose axis is named with a letter of that word
    for L in (3, 4, 5):
        for order in (1, 2):
            # (a periodic direction is padded into a float field first, so only open directions are affected)
            k += 1
            rnd = _rnd(ctx.seed, 7, k)
            p = all_patterns(L)
            car = make_carrier(rnd, L, 2, k % 2, len(p), False, dy[0], dtype="i8")
            add(L, order, False, True, dy[0], [(car, p)], "int-dtype", tag="int-dtype")
            for word in ("neumann", "dirichlet"):
                k += 1
                rnd = _rnd(ctx.seed, 8, k)
                p = all_patterns(L)
                car = make_carrier(rnd, L, 2, k % 2, len(p), False, dy[0], bcword=word)
                add(L, order, False, True, dy[0], [(car, p)], "bc-word", tag=tag_of(car))
    return jobs


def run(ctx):
    df = core.import_library()
    # the algebraic core (spec/C04Core.tla): Apalache discharges the exactness of every stencil for unbounded coefficients
    from .. import apalache
    apalache.run_stage(ctx, module="C04Core.tla", obligations=apalache.C04_OBLIGATIONS, claim=apalache.C04_CLAIM)
    embs = embed.for_tier(ctx.tier, ctx.seed)
    r = ctx.model("MC_C04", f"C04_{ctx.tier}.cfg", dump=True)
    if r.coverage:  # thorough tier runs with -coverage 1: every action must have fired (vacuity guard)
        dead = [a for a in ('QDiffUnit', 'QDiffData') if r.coverage.get(a, (0, 0))[0] == 0]
        if dead:
            raise core._tlc.MachineryError(f"actions never taken in the model: {dead}")
    states = []
    if r.ok:
        states = ctx.dump_states(r)
        if len(states) != r.distinct:
            raise core._tlc.MachineryError(f"dump has {len(states)} states, TLC reports {r.distinct}")
    # model-level witness of D13 (informational): the periodic algorithm the library had before fix 45dee792
    # (wrap padding of ONE cell), transcribed, violates shift commutation
    w = core._tlc.run("MC_C04", "C04_d13.cfg", ctx.scratch, workers=2, tag="d13")
    ctx.notes["model_witness_D13_wrap_pad_1_algorithm_violates_ShiftCommutes"] = int(
        "D13_TodaysCodeCommutesWithShifts" in w.violated)
    rjobs, units = plan_r(ctx, states, embs)
    tjobs = plan_t(ctx, units, embs)
    evdir = os.path.join(ctx.scratch, "events")
    os.makedirs(evdir, exist_ok=True)

    def chunk(items):
        part = Part()
        out = []
        for kind, job in items:
            if kind == "R":
                r_data_job(df, job, part)
            else:
                t = t_job(df, job, part)
                if t is not None:
                    out.append(t)
        if out:
            with open(os.path.join(evdir, f"{os.getpid()}_{out[0]['id']}.json"), "w") as fh:
                json.dump(out, fh)
        return part

    work = [("R", j) for j in rjobs] + [("T", j) for j in tjobs]
    # heavy jobs first so the pool stays busy
    work.sort(key=lambda w: -(w[1]["L"] if w[0] == "T" else 0))
    ctx.pmap(chunk, work, chunk=1)
    traces = []
    for fn in sorted(os.listdir(evdir)):
        with open(os.path.join(evdir, fn)) as fh:
            traces += json.load(fh)
    traces.sort(key=lambda t: t["id"])
    judge(ctx, traces)
    ctx.assumptions += [
        "TLC explores every (L, validity pattern, order, periodic, restrict2valid) configuration within MaxL",
        "the observed operator is extracted with unit vectors; arbitrary real data is covered through linearity, "
        "which is itself checked on random integer fields",
        "dimension names, component labels, units, cell sizes and offsets of the carrier meshes are seeded harness choices",
        "a periodic direction is one whose name is listed in mesh.bc; 'neumann'/'dirichlet' meshes have none",
    ]
    return core.finish(ctx, rule=RULE, extra={"embeddings": [e.name for e in embs], "R_jobs": len(rjobs),
                                              "T_jobs": len(tjobs), "T_traces": len(traces)})


def judge(ctx, traces, nbatch=None):
    """send the observed operators to TLC (C04Trace) and turn verdicts into violations"""
    if not traces:
        raise core._tlc.MachineryError("no extraction traces were produced")
    # split into balanced batches (one TLC run each, run concurrently; TLC reads the JSON into memory)
    weight = lambda t: sum(len(e["mats"]) * e["L"] ** 3 + len(e["lines"]) * e["L"] * 2 for e in t["ev"])
    nb = nbatch or max(1, min(8, len(traces) // 4))
    batches, loads = [[] for _ in range(nb)], [0] * nb
    for t in sorted(traces, key=lambda t: (-weight(t), t["id"])):
        k = loads.index(min(loads))
        batches[k].append(t)
        loads[k] += weight(t)
    batches = [sorted(b, key=lambda t: t["id"]) for b in batches if b]
    from concurrent.futures import ThreadPoolExecutor

    def one(bi):
        b = batches[bi]
        slim = [{"id": t["id"], "ev": t["ev"]} for t in b]
        return ctx.trace_check("C04Trace", "C04Trace.cfg", slim, name=f"C04Trace_b{bi}")

    with ThreadPoolExecutor(max_workers=8) as ex:
        results = list(ex.map(one, range(len(batches))))
    byid = {t["id"]: t for t in traces}
    infos = {"observed_operators": 0, "equal_reference_operator": 0, "equal_wrap_pad_1_algorithm_D13": 0}
    for b, (r, verdicts, _) in zip(batches, results):
        expect = sum(len(t["ev"]) + 1 for t in b)
        if r.distinct != expect:
            raise core._tlc.MachineryError(f"C04Trace consumed {r.distinct} states, expected {expect}")
        info = core.tlaval.extract_printed(r.stdout, "INFO")
        if len(info) != sum(len(t["ev"]) for t in b):
            raise core._tlc.MachineryError("C04Trace did not report every event")
        for _, tid, l, n, eq_ref, eq_code in info:
            infos["observed_operators"] += n
            infos["equal_reference_operator"] += eq_ref
            infos["equal_wrap_pad_1_algorithm_D13"] += eq_code
        for v in verdicts:
            _, tid, l, clause, cls, first, cnt = v
            t = byid[tid]
            e = t["ev"][l - 1]
            if clause in ("shape", "orbit-is-rolled-validity"):
                raise core._tlc.MachineryError(f"malformed extraction event: {clause} in trace {tid}")
            if clause == "C04_KeepsMeta":
                cls = e["meta"][first - 1]["name"]
            ctx.violation(key_of(clause, e["pbc"], cls, t["tag"]),
                          f"observed operator of Field.diff rejected by C04Trace: {clause} ({cls}), {cnt} case(s) in the batch",
                          witness_of(t, e, clause, cls, first))
    for k, v in infos.items():
        ctx.notes[k] = ctx.notes.get(k, 0) + v
    ctx.sample({"channel": "T", "trace": {k: (v if k != "ev" else [{kk: (vv if kk not in ("mats", "lines") else vv[:2])
                                                                     for kk, vv in traces[0]["ev"][0].items()}])
                                          for k, v in traces[0].items()}})


def replay(ctx, path):
    df = core.import_library()
    with open(path) as fh:
        rp = json.load(fh)
    w = rp["witness"]
    print("witness:", json.dumps(w)[:3000])
    embs = {e.name: e for e in embed.DYADIC + embed.REAL + embed.seeded(rp.get("seed", ctx.seed), 2)}
    emb = embs.get(w.get("embedding"), embed.DYADIC[0])
    car = w.get("carrier")
    if not car or "mat" not in w and "line" not in w and "orbit" not in w:
        # an R witness: re-run the data on a 1-D mesh
        if "data" in w:
            L = w["L"]
            c = dict(n=(L,), c=(4,), lo=(0,), axis=0, dims=("x",), bc="x" if w["pbc"] else "", nv=1, vdims=None,
                     unit=None, dtype="f8")
            out, _ = pr.apply(df, embed.DYADIC[0], c, np.array(w["valid"], bool), np.array(w["data"])[:, None],
                              w["order"], w["r2v"])
            got = out[:, 0].tolist()
            print("expected numerators", w["expected_numerators"], "observed now", got)
            return 0 if got == w["expected_numerators"] else 1
        return 1
    # a T witness: extract the operator again for the witnessed pattern(s) and let TLC judge
    car = {k: (tuple(v) if isinstance(v, list) else v) for k, v in car.items()}
    pats = [tuple(m["v"]) for m in ([w["mat"]] if "mat" in w else w.get("orbit", []))]
    if "orbit" in w:
        pats = [tuple(np.roll(np.array(pats[0]), s).tolist()) for s in range(w["L"])]
    L = w["L"]
    rnd = random.Random(1)
    c1 = dict(car)
    nd = len(c1["n"])
    tr = _factor(len(pats), nd - 1, rnd)
    c1["n"] = tuple(tr[:c1["axis"]] + [L] + tr[c1["axis"]:])
    part = Part()
    job = dict(id=1, L=L, order=w["order"], pbc=w["pbc"], r2v=w["r2v"], emb=emb, carriers=[(c1, pats)], kindname="replay",
               ref=None, tag=tag_of(c1), seed=1)
    t = t_job(df, job, part)
    judge(ctx, [t])
    for k, info in ctx.found.items():
        print("still fails:", k, info["what"])
    return 1 if ctx.found or part["violations"] else 0
