"""C16 - VTK output puts each value in the grid cell a VTK reader finds at that position.

M: TLC exhaustive on spec/C16.tla (MC_C16 + C16_<tier>.cfg): 3-d fields with 1-4 components, masks,
   label schemes, subregions; actions ToVTK, Write(bin|txt|xml, save_subregions), LegacyWrite, Read.
R: every dumped state is executed on the real library under the tier's coordinate embeddings and a
   value scale: Field.to_vtk() is inspected through VTK itself (vertex arrays, cell arrays by id,
   vtkRectilinearGrid.FindCell and pyvista's locator at every quarter-lattice point), files are read
   back both with VTK's own readers and with Field.from_file, legacy files come from an independent
   writer (harness/c16_vtk.py).
T: seeded random larger fields; the observed grid, FindCell results at random lattice points and
   read-back fields are logged and validated by TLC against spec/C16Trace.tla.
"""
import itertools
import json
import os
import random

import numpy as np

from .. import core, embed, lat, fld as fldmod
from .. import c16_vtk
from ..core import Part

META = dict(
    level="model_checking",
    level_text=("Exhaustive TLC model checking of spec/C16.tla (every 3-d field within the bounds of MC_C16.tla: meshes to "
                "3x2x2 / 3x3x2, 1-4 components, label schemes, validity masks, 0-2 subregions; actions ToVTK, Write in "
                "bin/txt/xml with/without side-car, LegacyWrite, Read; eight invariants C16_*). Every TLC state is replayed "
                "on the real library: the vtkRectilinearGrid returned by Field.to_vtk() is examined through VTK itself "
                "(vertex arrays, cell arrays by cell id, vtkRectilinearGrid.FindCell and pyvista's locator at every "
                "quarter-lattice point), written files are read back with VTK's own readers and with Field.from_file, legacy "
                "point-data files come from an independent writer. Seeded random larger fields are logged and validated by "
                "TLC against spec/C16Trace.tla."),
    level_note=("Bounds: quick 5 shapes up to 3x2x2 x 2 cell profiles, thorough 10 shapes up to 3x3x2 x 3 cell profiles x 3 offsets; "
                "T: meshes to 6x5x4 with random integer data, masks, labels, subregions. Length scales/offsets through the "
                "embeddings (dyadic exact, real-world with tolerance), values through value scales (1, 1/2, 1/3, 1e5/7, 3e-7). "
                "Relations named by the spec and evaluated by the harness: Same = bitwise equal floats, Dig10 = relative error "
                "<= 5e-10 per coordinate/value. The norm is compared through its square. Dimension names/units other than the "
                "defaults are used only for to_vtk (a VTK file does not carry them; not demanded). Legacy files: cell extents "
                "along single-point axes are left open by the property. Trusted: TLC, tlaval parser, VTK's FindCell/readers, "
                "pyvista, the independent legacy writer."),
    technique="TLA+ model of the rectilinear grid / file / reader (C16.tla) + TLC exhaustive; states replayed into the library with VTK as independent consumer; library traces validated by TLC (C16Trace.tla); Apalache on the integer core for meshes of any size (C16Core.tla: grid cell of a centre, read-back, x-fastest bijection)",
    design_ref="DESIGN.md section 7 C16",
)

RULE = ("a case is one (TLC state, embedding) pair executed on the library; non-trivial = the state's field has more than one "
        "cell (to_vtk / write / read / legacy states; 'new' states and refusals are trivial); distinct by (field, action, embedding); "
        "T events are non-trivial when the mesh has more than one cell")

VSCALES = [1.0, 0.5, 1.0 / 3.0, 1e5 / 7.0, 3e-7]
DIG10 = 5e-10


def _dy(emb):
    return "dyadic" if emb.dyadic else "real"


# ------------------------------------------------------------------ building the field
def build_field(df, f, emb, vs, dims=None, with_subs=True):
    """the library field for a spec field record; returns (field, subs_used?)"""
    m = f["mesh"]
    subs = None
    if with_subs and f["subs"]:
        subs = {s["name"]: lat.box_region(df, s, emb, dims=dims) for s in sorted(f["subs"], key=lambda s: s["name"])}
    mesh = lat.mesh_of(df, m, emb, dims=dims, subregions=subs)
    arr = fldmod.unflatten(f["vals"], m["n"], dtype=float) * vs
    valid = fldmod.unflatten_mask(f["valid"], m["n"])
    vd = list(f["labels"]) or None
    return fldmod.lived(df.Field(mesh, nvdim=int(f["nv"]), value=arr, vdims=vd, valid=valid), int(np.sum(mesh.n)) + int(f["nv"]) + int(np.sum(valid)))


def expected_vals(f, vs):
    """floats the library was handed, by flat cell number (= VTK id) and component"""
    return np.array(f["vals"], dtype=float).reshape(len(f["vals"]), -1) * vs


def norm_subs(f):
    """spec subregions as list of dicts (from frozenset of frozen records or list of dicts)"""
    out = []
    for s in f["subs"]:
        if not isinstance(s, dict):
            s = dict(s)
        out.append({"name": s["name"], "lo": tuple(s["lo"]), "hi": tuple(s["hi"])})
    return sorted(out, key=lambda s: s["name"])


def norm_state(st):
    st = dict(st)
    f = dict(st["fld"])
    f["subs"] = norm_subs(f)
    st["fld"] = f
    return st


# ------------------------------------------------------------------ relations named by the spec
def rel_ok(rel, got, want):
    """float relation between what was read (got) and what was written (want)"""
    got = np.asarray(got, dtype=float)
    want = np.asarray(want, dtype=float)
    if got.shape != want.shape:
        return False
    if rel == "Same":
        return bool(np.array_equal(got, want))
    return bool(np.all(np.abs(got - want) <= DIG10 * np.abs(want)))


# ------------------------------------------------------------------ observations
def observe_grid(g):
    xs, names, arrays = c16_vtk.grid_view(g)
    return xs, names, arrays


def read_back(df, path):
    try:
        return True, df.Field.from_file(path)
    except Exception as ex:
        return False, ex


def legacy_cond(f, centres):
    """condition class of a legacy file: component count; single-point axes whose assumed 1 nm cell cannot be
    resolved at the file's coordinates (the library's default cell for such an axis)"""
    import math

    cond = f"nv{f['nv']}"
    single = [d for d in range(3) if len(centres[d]) == 1]
    if single:
        cond += "+single-point-axis"
        if any(math.ulp(abs(centres[d][0])) > 1e-9 / 8 for d in single):
            cond += "@1nm-unresolvable"
    return cond


def tmp_name(scratch, tag):
    return os.path.join(scratch, f"c16_{os.getpid()}_{tag}.vtk")


def cleanup(path):
    for p in (path, path + ".subregions.json"):
        try:
            os.remove(p)
        except OSError:
            pass


# ------------------------------------------------------------------ channel R
def exec_state(df, st, emb, vs, part, scratch, sid=0):
    st = norm_state(st)
    f, act, obs = st["fld"], st["act"], st["obs"]
    m = f["mesh"]
    nd = len(m["n"])
    kind = act[0]
    cq = lat.cellq(m)
    coords = list(m["lo"]) + [m["lo"][d] + m["c"][d] * m["n"][d] for d in range(nd)]
    close = lambda x, q: emb.close(x, q, cq, coords)
    wit = lambda **kw: dict(fld=f, act=act, embedding=emb.name, vscale=vs, **kw)
    key = lambda clause, op, cond: f"{clause}/{op}/{cond}"
    part.count()
    # dimension names: renamed only where no file is involved (a VTK file carries no names)
    dims = lat.names_for(m) if kind == "to_vtk" and nd == 3 else None
    subs_cond = "+subregions" if f["subs"] else ""
    try:
        field = build_field(df, f, emb, vs, dims=dims)
    except Exception as ex:
        if f["subs"]:
            # aligned subregions refused at this scale: C14's business (D18), not C16's; go on without them
            part.note("subregions-refused-at-construction")
            if kind in ("write", "read") :
                return
            field = build_field(df, f, emb, vs, dims=dims, with_subs=False)
        else:
            part.note("construct-failed")      # building the field is the property's precondition (C01/C02), not its subject
            part.sample({"construct-failed": wit(exc=repr(ex))})
            return
    ncell = int(np.prod(m["n"]))
    E = expected_vals(f, vs)
    if kind in ("new", "legacy_write"):     # the foreign writer's file is examined in the following read state
        return
    if ncell > 1:
        part.nontriv(json.dumps(f, sort_keys=True, default=list), str(act), emb.name)

    if kind == "to_vtk":
        try:
            g = field.to_vtk()
            ok = True
        except Exception as ex:
            ok, g = False, ex
        if ok != obs["ok"]:
            part.violation(key("C16_NotThreeDRefused", "to_vtk", f"ndim{nd}"),
                           "to_vtk accepts/refuses differently from the specification (3-d only)", wit(got=repr(g)))
            return
        if not ok:
            return
        G = obs["v"]["grid"]
        xs, names, A = observe_grid(g)
        for d in range(3):
            if len(xs[d]) != len(G["xs"][d]) or not all(close(x, q) for x, q in zip(xs[d], G["xs"][d])):
                part.violation(key("C16_VerticesAreCoordinates", "to_vtk", _dy(emb)),
                               "grid coordinates are not the mesh vertices", wit(axis=d, got=xs[d], want=G["xs"][d]))
        if g.GetNumberOfCells() != ncell:
            part.violation(key("C16_VerticesAreCoordinates", "to_vtk", "cells"), "cell count differs", wit(got=g.GetNumberOfCells()))
            return
        need = ["field", "norm", "valid"] + list(G["names"])
        miss = [nm for nm in need if nm not in A]
        if miss:
            part.violation(key("C16_ValueAtLocatedCell", "arrays", "missing"), "cell array missing in the grid", wit(missing=miss, got=names))
            return
        extra = [nm for nm in names if nm not in need]
        if extra:
            part.note("extra-cell-arrays")
        fa = A["field"].reshape(ncell, -1)
        if fa.shape != E.shape or not np.array_equal(fa, E):
            part.violation(key("C16_ValueAtLocatedCell", "field", _dy(emb)),
                           "cell array 'field' does not hold, at VTK id i+nx*(j+ny*k), the value of mesh cell (i,j,k)",
                           wit(got=fa, want=E))
        n2 = np.array(G["norm2"], dtype=float) * vs * vs
        # (compared through the square because the model carries norm^2; a norm is never negative - seeded change C16-13
        # wrote the value itself as the norm of a scalar field)
        if A["norm"].shape != (ncell,) or not np.all(np.abs(A["norm"] ** 2 - n2) <= 1e-9 * np.maximum(n2, 1e-300)) or np.any(A["norm"] < 0):
            part.violation(key("C16_ValueAtLocatedCell", "norm", _dy(emb)), "cell array 'norm' is not the norm of the cell's value",
                           wit(got=A["norm"], want_squared=n2))
        for c, nm in enumerate(G["names"]):
            want = np.array(G["comps"][c], dtype=float) * vs
            if A[nm].shape != (ncell,) or not np.array_equal(A[nm], want):
                part.violation(key("C16_ValueAtLocatedCell", "comp", _dy(emb)),
                               "per-component scalar array does not hold the component of the cell at that id", wit(name=nm, got=A[nm], want=want))
        if A["valid"].shape != (ncell,) or not np.array_equal(A["valid"], np.array(G["valid"])):
            part.violation(key("C16_ValueAtLocatedCell", "valid", _dy(emb)), "cell array 'valid' is not the validity flag of the cell at that id",
                           wit(got=A["valid"], want=G["valid"]))
        # VTK's own lookup at every quarter-lattice point
        loc = obs["v"]["loc"]
        cell_of = obs["v"]["cellOf"]
        L = c16_vtk.Locator(g)
        probes = list(itertools.product(*[sorted(loc[d]) for d in range(3)]))
        pts = [emb.point(p) for p in probes]
        ids_pv = L.find_many_pv(pts)
        bad = 0
        for p, pt, idpv in zip(probes, pts, ids_pv):
            for who, cid in (("FindCell", L.find(pt)), ("pyvista", idpv)):
                part.count()
                if cid < 0:
                    good = any(-1 in loc[d][p[d]] for d in range(3))
                elif cid >= ncell:
                    good = False
                else:
                    ijk = cell_of[cid]
                    good = all(ijk[d] in loc[d][p[d]] for d in range(3))
                if not good and bad < 3:
                    bad += 1
                    part.violation(key("C16_ValueAtLocatedCell", "locate", _dy(emb)),
                                   "the cell VTK locates at p is not a mesh cell containing p", wit(point=p, consumer=who, got=cid))
        return

    path = tmp_name(scratch, f"{sid}_{emb.name.replace('/', '_')}")
    try:
        if kind == "write":
            _, r, savesub = act
            try:
                field.to_file(path, representation=r, save_subregions=savesub)
                ok = True
            except Exception as ex:
                ok, err = False, ex
            if ok != obs["ok"]:
                part.violation(key("C16_NotThreeDRefused" if nd != 3 else "C16_RoundTrip", "write-raises", f"{r}{subs_cond}"),
                               "to_file('*.vtk') accepts/refuses differently from the specification", wit(got=repr(err) if not ok else "written"))
                return
            if not ok:
                return
            G = st["file"]["grid"]
            rel = obs["v"]["rel"]
            g2, form = c16_vtk.read_grid(path)
            if form != obs["v"]["form"]:
                part.violation(key("C16_FileForm", "write", r), "file is not in the requested representation", wit(got=form))
            xs, names, A = observe_grid(g2)
            xs0 = [np.fromiter(getattr(field.mesh.vertices, dn), float) for dn in field.mesh.region.dims]
            for d in range(3):
                if len(xs[d]) != len(G["xs"][d]) or not rel_ok(rel, xs[d], xs0[d]):
                    part.violation(key("C16_RoundTrip", "file-coordinates", r), "file read with VTK's own reader has other coordinates than written",
                                   wit(axis=d, got=xs[d], want=xs0[d], rel=rel))
            need = ["field", "norm", "valid"] + list(G["names"])
            if any(nm not in A for nm in need):
                part.violation(key("C16_RoundTrip", "file-arrays", r), "cell array missing in the file", wit(got=names))
            else:
                if not rel_ok(rel, A["field"].reshape(ncell, -1), E):
                    part.violation(key("C16_RoundTrip", "file-values", r), "file read with VTK's own reader holds other values than written", wit(got=A["field"], want=E, rel=rel))
                if not np.array_equal(A["valid"], np.array(G["valid"])):
                    part.violation(key("C16_RoundTrip", "file-valid", r), "file holds another validity than written", wit(got=A["valid"]))
            side = os.path.exists(path + ".subregions.json")
            if side != st["file"]["side"]:
                part.violation(key("C16_SidecarIffSubregions", "write", f"{r}{subs_cond}"), "side-car file exists iff subregions are saved", wit(got=side))
            elif side:
                with open(path + ".subregions.json") as fh:
                    js = json.load(fh)
                want = {dict(s)["name"] for s in st["file"]["sub"]}
                if set(js) != want:
                    part.violation(key("C16_RoundTrip", "file-subregions", r), "side-car lists other subregions", wit(got=sorted(js)))
            return

        if kind == "read":
            _, fkind, r, side = act
            B = obs["v"]
            rel = B["rel"]
            if fkind == "legacy":
                centres = [[emb.x(q) for q in ax] for ax in st["file"]["grid"]["pts"]]
                c16_vtk.write_legacy(path, centres, E, int(f["nv"]))
                ok, back = read_back(df, path)
                if not ok:
                    part.violation(key("C16_LegacyOneValuePerCell", "read-raises", legacy_cond(f, centres)), "legacy point-data file is not read",
                                   wit(exc=repr(back)))
                    return
                if tuple(int(v) for v in back.mesh.n) != tuple(B["n"]) or back.nvdim != B["nv"]:
                    part.violation(key("C16_LegacyOneValuePerCell", "n", f"nv{f['nv']}"), "legacy file: not one cell per point", wit(n=back.mesh.n, nvdim=back.nvdim))
                    return
                got = fldmod.flatten(back.array)
                if not np.array_equal(got, E):
                    part.violation(key("C16_LegacyOneValuePerCell", "values", f"nv{f['nv']}"), "legacy file: cell k does not hold the k-th point's value",
                                   wit(got=got, want=E))
                # position: every point of the file lies in the cell that carries its value
                idx = lat.all_indices(tuple(B["n"]))
                for i in idx:
                    pt = tuple(centres[d][i[d]] for d in range(3))
                    try:
                        j = tuple(int(v) for v in back.mesh.point2index(pt))
                    except Exception as ex:
                        j = repr(ex)
                    if j != i:
                        part.violation(key("C16_LegacyOneValuePerCell", "position", f"nv{f['nv']}"),
                                       "legacy file: a point of the file does not lie in the cell carrying its value", wit(point=pt, index=i, got=j))
                        break
                for d in range(3):
                    ax = B["axes"][d]
                    if ax["known"] and not (close(back.mesh.region.pmin[d], ax["lo"]) and close(back.mesh.region.pmax[d], ax["hi"])):
                        part.note("silent:legacy-extent-differs")   # not demanded by the property text
                return
            savesub = side or not f["subs"]
            try:
                field.to_file(path, representation=r, save_subregions=savesub)
            except Exception as ex:
                part.violation(key("C16_RoundTrip", "write-raises", f"{r}{subs_cond}"), "to_file raised", wit(exc=repr(ex)))
                return
            ok, back = read_back(df, path)
            compare_back(part, key, wit, field, back if ok else None, back if not ok else None, B, f, r, side, emb, close, vs)
            return
    finally:
        cleanup(path)
    raise core._tlc.MachineryError(f"unknown action {act}")


def compare_back(part, key, wit, field, back, exc, B, f, r, side, emb, close, vs):
    """Field.from_file result against the specification's ReadVTK record B"""
    cond = r + ("+subregions" if side else "")
    rel = B["rel"]
    if back is None:
        part.violation(key("C16_RoundTrip", "read-raises", f"{cond}:{type(exc).__name__}"), "from_file raises on a file written by to_file", wit(exc=repr(exc)))
        return
    reg = back.mesh.region
    okreg = rel_ok(rel, reg.pmin, field.mesh.region.pmin) and rel_ok(rel, reg.pmax, field.mesh.region.pmax)
    if not okreg:
        part.violation(key("C16_RoundTrip", "region", cond), f"region read back differs (relation {rel})",
                       wit(got=[reg.pmin, reg.pmax], want=[field.mesh.region.pmin, field.mesh.region.pmax]))
    if tuple(int(v) for v in back.mesh.n) != tuple(B["n"]):
        part.violation(key("C16_RoundTrip", "n", cond), "cell counts read back differ", wit(got=back.mesh.n))
        return
    if back.nvdim != B["nv"] or not rel_ok(rel, back.array, field.array):
        part.violation(key("C16_RoundTrip", "values", cond), f"values read back differ (relation {rel})", wit(got=back.array, want=field.array))
    want_valid = fldmod.unflatten_mask(B["valid"], B["n"])
    bv = np.asarray(back.valid)
    if bv.shape != want_valid.shape or not np.array_equal(bv.astype(bool), want_valid):
        part.violation(key("C16_RoundTrip", "valid", cond), "validity read back differs", wit(got=bv, want=want_valid))
    elif bv.dtype != np.bool_:
        part.violation(key("C16_RoundTrip", "valid-dtype", r), "validity read back is not a Boolean mask (field.array[field.valid] indexes instead of masking)",
                       wit(dtype=str(bv.dtype)))
    want_labels = list(B["labels"]) or None
    got_labels = None if back.vdims is None else [str(v) for v in back.vdims]
    if got_labels != want_labels:
        lc = "scalar-labelled" if (f["nv"] == 1 and want_labels) else cond
        part.violation(key("C16_RoundTrip", "labels", lc), "component labels read back differ", wit(got=got_labels, want=want_labels))
    want_subs = {dict(x)["name"]: dict(x) for x in B["subs"]}
    got_subs = back.mesh.subregions
    good = set(got_subs) == set(want_subs)
    if good:
        for nm, s in want_subs.items():
            o = field.mesh.subregions[nm]
            if not (rel_ok(rel, got_subs[nm].pmin, o.pmin) and rel_ok(rel, got_subs[nm].pmax, o.pmax)):
                good = False
    if not good:
        part.violation(key("C16_RoundTrip", "subregions", cond), "subregions read back differ", wit(got={k: [v.pmin, v.pmax] for k, v in got_subs.items()}, want=sorted(want_subs)))


# ------------------------------------------------------------------ channel T
LABEL_POOL = {1: [[], ["s"], ["rho"]], 2: [["x", "y"], ["m_mag", "m_phase"], ["b", "a"]],
              3: [["x", "y", "z"], ["mz", "mx", "my"], ["c", "m x", "b-component"]],
              4: [["v0", "v1", "v2", "v3"], ["d", "c", "b", "a"], ["t", "x", "y", "z"]]}


def gen_field(rnd, legacy=False):
    n = [rnd.randrange(1, 7), rnd.randrange(1, 6), rnd.randrange(1, 5)]
    if rnd.random() < 0.15:
        n[rnd.randrange(3)] = 1
    m = {"lo": [rnd.randrange(-200, 200) for _ in range(3)], "c": [4 * rnd.randrange(1, 6) for _ in range(3)], "n": n}
    N = n[0] * n[1] * n[2]
    nv = rnd.choice([1, 3]) if legacy else rnd.choice([1, 2, 3, 3, 4])
    vals = [[rnd.randrange(-99, 100) for _ in range(nv)] for _ in range(N)]
    mk = rnd.random()
    valid = [True] * N if mk < 0.25 else [rnd.random() < 0.7 for _ in range(N)]
    labels = LABEL_POOL[nv][0] if legacy else rnd.choice(LABEL_POOL[nv])
    subs = []
    for nm in rnd.sample(["a", "top", "s3"], rnd.choice([0, 0, 1, 2])):
        lo, hi = [], []
        for d in range(3):
            a = rnd.randrange(0, n[d])
            b = rnd.randrange(a + 1, n[d] + 1)
            lo.append(m["lo"][d] + m["c"][d] * a)
            hi.append(m["lo"][d] + m["c"][d] * b)
        subs.append({"name": nm, "lo": lo, "hi": hi})
    return {"mesh": m, "nv": nv, "vals": vals, "valid": valid, "labels": labels, "subs": subs}


def proj_vals(arr, vs, N):
    """observed floats -> integers of the spec's value axis; exact iff float(int)*vs reproduces them"""
    a = np.asarray(arr, dtype=float).reshape(N, -1)
    k = np.rint(a / vs)
    exact = bool(np.array_equal(k * vs, a)) and bool(np.all(np.abs(k) < 2**30))
    return [[int(v) for v in row] for row in k], exact


def gen_trace(df, rnd, tid, embs, scratch):
    f = gen_field(rnd)
    emb = rnd.choice(embs)
    vs = rnd.choice(VSCALES)
    m = f["mesh"]
    n = m["n"]
    N = n[0] * n[1] * n[2]
    cq = lat.cellq(m)
    hi = [m["lo"][d] + m["c"][d] * n[d] for d in range(3)]
    coords = list(m["lo"]) + hi
    try:
        field = build_field(df, f, emb, vs)
    except Exception:
        f["subs"] = []   # aligned subregions refused at this scale (D18, C14)
        try:
            field = build_field(df, f, emb, vs)
        except Exception as exc:
            raise ConstructFailed(repr(exc))
    ev = []
    g = field.to_vtk()
    xs, names, A = observe_grid(g)
    prj = [[lat.proj_coord(emb, x, cq, coords) for x in ax] for ax in xs]
    fvals, fexact = proj_vals(A["field"], vs, N)
    comp_names = [nm for nm in names if nm not in ("field", "norm", "valid")]
    comps = []
    cexact = True
    for nm in comp_names:
        cv, ce = proj_vals(A[nm], vs, N)
        comps.append([row[0] for row in cv])
        cexact = cexact and ce
    n2 = A["norm"] ** 2 / (vs * vs)
    n2i = np.rint(n2)
    nexact = bool(np.all(np.abs(n2 - n2i) <= 1e-9 * np.maximum(n2i, 1.0)) and not np.any(A["norm"] < 0))   # a norm is never negative
    ev.append({"k": "grid", "exact": all(b for ax in prj for _, b in ax) and fexact and cexact and nexact,
               "xs": [[a for a, _ in ax] for ax in prj], "names": comp_names, "field": fvals, "comps": comps,
               "norm2": [int(v) for v in n2i], "valid": [int(v) for v in A["valid"]]})
    L = c16_vtk.Locator(g)
    for _ in range(rnd.randrange(6, 14)):
        p = []
        for d in range(3):
            r = rnd.random()
            if r < 0.12:
                p.append(m["lo"][d] + m["c"][d] * rnd.randrange(0, n[d] + 1))
            elif r < 0.18:
                p.append(rnd.choice([m["lo"][d] - rnd.randrange(1, m["c"][d]), hi[d] + rnd.randrange(1, m["c"][d])]))
            else:
                p.append(rnd.randrange(m["lo"][d], hi[d] + 1))
        cid = L.find(emb.point(p))
        if 0 <= cid < N:
            val, vexact = proj_vals(A["field"].reshape(N, -1)[cid], vs, 1)
            e = {"k": "loc", "p": p, "id": cid, "val": val[0] if vexact else [], "vf": int(A["valid"][cid]),
                 "n2": int(n2i[cid])}
        else:
            e = {"k": "loc", "p": p, "id": int(cid), "val": [], "vf": -1, "n2": -1}
        ev.append(e)
    for _ in range(rnd.choice([1, 2])):
        r = rnd.choice(["bin", "txt", "xml", "bin8"])
        savesub = rnd.random() < 0.8 or not f["subs"]
        rel = "Dig10" if r == "txt" else "Same"
        path = tmp_name(scratch, f"t{tid}")
        try:
            try:
                field.to_file(path, representation=r, save_subregions=savesub)
                wrote = True
            except Exception as exw:
                wrote, back = False, exw
            if wrote:
                _, form = c16_vtk.read_grid(path)
                side = os.path.exists(path + ".subregions.json")
                ok, back = read_back(df, path)
            else:
                form, side, ok = {"bin8": "bin"}.get(r, r), bool(savesub and f["subs"]), False
            e = {"k": "rt", "repr": r, "savesub": savesub, "form": form, "side": side, "ok": ok, "rel": rel, "back": {}, "wrote": wrote}
            if ok:
                reg = back.mesh.region
                rexact = rel_ok(rel, reg.pmin, field.mesh.region.pmin) and rel_ok(rel, reg.pmax, field.mesh.region.pmax)
                plo = [lat.proj_coord(emb, x, cq, coords) for x in reg.pmin]
                phi = [lat.proj_coord(emb, x, cq, coords) for x in reg.pmax]
                vexact = back.array.shape == field.array.shape and rel_ok(rel, back.array, field.array)
                bn = [int(v) for v in back.mesh.n]
                sub_l, sexact = [], True
                for nm, sr in back.mesh.subregions.items():
                    o = field.mesh.subregions.get(nm)
                    sexact = sexact and o is not None and rel_ok(rel, sr.pmin, o.pmin) and rel_ok(rel, sr.pmax, o.pmax)
                    sub_l.append({"name": nm, "lo": [lat.proj_coord(emb, x, cq, coords)[0] for x in sr.pmin],
                                  "hi": [lat.proj_coord(emb, x, cq, coords)[0] for x in sr.pmax]})
                bv = np.asarray(back.valid)
                e["back"] = {"exact": bool(rexact), "lo": [a for a, _ in plo], "hi": [a for a, _ in phi],
                             "n": bn, "nv": int(back.nvdim), "vexact": bool(vexact),
                             # values are logged as the spec integers of the *written* field when the float relation holds
                             "vals": f["vals"] if vexact else proj_vals(back.array.reshape((-1, back.nvdim), order="F"), vs, int(np.prod(bn)))[0],
                             "valid": [bool(v) for v in fldmod.flatten_mask(bv.astype(bool))] if bv.shape == tuple(bn) else [],
                             "vbool": bool(bv.dtype == np.bool_),
                             "labels": [] if back.vdims is None else [str(v) for v in back.vdims],
                             "subs": sub_l, "sexact": bool(sexact)}
            else:
                e["exc"] = repr(back)[:200]
                e["exct"] = type(back).__name__
            ev.append(e)
        finally:
            cleanup(path)
    tr = {"id": tid, "dy": emb.dyadic, "emb": emb.name, "vsi": VSCALES.index(vs), "fld": f, "ev": ev}
    return tr


def gen_legacy_trace(df, rnd, tid, embs, scratch):
    f = gen_field(rnd, legacy=True)
    f["valid"] = [True] * len(f["vals"])
    f["subs"] = []
    emb = rnd.choice(embs)
    vs = rnd.choice(VSCALES)
    m = f["mesh"]
    n = m["n"]
    N = n[0] * n[1] * n[2]
    E = expected_vals(f, vs)
    centres = [[emb.x(m["lo"][d] + m["c"][d] * j + m["c"][d] // 2) for j in range(n[d])] for d in range(3)]
    path = tmp_name(scratch, f"l{tid}")
    try:
        c16_vtk.write_legacy(path, centres, E, f["nv"])
        ok, back = read_back(df, path)
    finally:
        cleanup(path)
    e = {"k": "legacy", "ok": ok, "back": {}, "cond": legacy_cond(f, centres)}
    if ok:
        bn = [int(v) for v in back.mesh.n]
        vals, vexact = proj_vals(back.array.reshape((-1, back.nvdim), order="F"), vs, int(np.prod(bn)))
        pos = True
        if bn == n:
            for i in lat.all_indices(tuple(n)):
                pt = tuple(centres[d][i[d]] for d in range(3))
                try:
                    pos = pos and tuple(int(v) for v in back.mesh.point2index(pt)) == i
                except Exception:
                    pos = False
        e["back"] = {"n": bn, "nv": int(back.nvdim), "vals": vals, "vexact": vexact, "pos": bool(pos)}
    else:
        e["exc"] = repr(back)[:200]
    return {"id": tid, "dy": emb.dyadic, "emb": emb.name, "vsi": VSCALES.index(vs), "fld": f, "ev": [e]}


VERDICT_KEYS = {
    "C16_RoundTrip-read-raises": ("C16_RoundTrip", "read-raises"),
    "C16_RoundTrip-region": ("C16_RoundTrip", "region"),
    "C16_RoundTrip-n": ("C16_RoundTrip", "n"),
    "C16_RoundTrip-values": ("C16_RoundTrip", "values"),
    "C16_RoundTrip-valid": ("C16_RoundTrip", "valid"),
    "C16_RoundTrip-valid-dtype": ("C16_RoundTrip", "valid-dtype"),
    "C16_RoundTrip-labels": ("C16_RoundTrip", "labels"),
    "C16_RoundTrip-subregions": ("C16_RoundTrip", "subregions"),
}


def verdict_key(clause, t, e):
    if clause in VERDICT_KEYS:
        c, op = VERDICT_KEYS[clause]
        r = e.get("repr", "")
        cond = r + ("+subregions" if e.get("side") else "")
        if op == "valid-dtype":
            cond = r
        if op == "read-raises":
            cond += ":" + e.get("exct", "")
            if not e.get("wrote", True):
                op = "write-raises"
        if op == "labels" and t["fld"]["nv"] == 1 and t["fld"]["labels"]:
            cond = "scalar-labelled"
        return f"{c}/{op}/{cond}"
    if clause == "C16_LegacyOneValuePerCell-read-raises":
        return f"C16_LegacyOneValuePerCell/read-raises/{e['cond']}"
    if "-" in clause and clause.startswith("C16_"):
        c, op = clause.split("-", 1)
        return f"{c}/{op}/{'dyadic' if t['dy'] else 'real'}"
    return f"{clause}/{e['k']}/{'dyadic' if t['dy'] else 'real'}"


class ConstructFailed(Exception):
    """the random driver could not even build its field (precondition of the property, C01/C02's subject)"""


def core_safe(ctx, fn, *args):
    """a library call that raises inside the random driver is a finding about the library, not a harness crash"""
    import traceback

    try:
        return fn(*args)
    except core._tlc.MachineryError:
        raise
    except ConstructFailed:
        ctx.notes["T:construct-failed"] = ctx.notes.get("T:construct-failed", 0) + 1
        return None
    except Exception as ex:
        ctx.violation(f"C16_LibraryRaises/T/{type(ex).__name__}", "the library raised inside the random driver",
                      {"channel": "T", "exc": repr(ex), "traceback": traceback.format_exc()[-1500:]})
        return None


def run_traces(ctx, df, ntraces, embs):
    rnd = random.Random(ctx.seed * 7919 + 16)
    traces = []
    for t in range(ntraces):
        tr = core_safe(ctx, gen_legacy_trace if t % 5 == 4 else gen_trace, df, rnd, t + 1, embs, ctx.scratch)
        if tr is not None:
            traces.append(tr)
    r, verdicts, _ = ctx.trace_check("C16Trace", "C16Trace.cfg", traces)
    expect = sum(len(t["ev"]) + 1 for t in traces)
    if r.distinct != expect:
        raise core._tlc.MachineryError(f"C16Trace consumed {r.distinct} states, expected {expect}")
    byid = {t["id"]: t for t in traces}
    for v in verdicts:
        _, tid, l, clause = v
        t = byid[tid]
        e = t["ev"][l - 1]
        ctx.violation(verdict_key(clause, t, e), f"recorded execution rejected by C16Trace: clause {clause}",
                      {"channel": "T", "fld": t["fld"], "embedding": t["emb"], "vscale": VSCALES[t["vsi"]], "event": e})
    ctx.traces += len(traces)
    ctx.evaluations += sum(len(t["ev"]) for t in traces)
    for t in traces:
        if len(t["fld"]["vals"]) > 1:
            for i, e in enumerate(t["ev"]):
                ctx.nontriv("T", t["id"], i)
    ctx.sample({"channel": "T", "trace": {k: (v if k != "ev" else v[:3]) for k, v in traces[0].items()}})


def guard_construct(ctx, ncases):
    if ctx.notes.get("construct-failed", 0) > 0.05 * ncases:
        raise core._tlc.MachineryError(f"{ctx.notes['construct-failed']} of {ncases} cases could not even be constructed")


def run(ctx):
    df = core.import_library()
    # the integer core (spec/C16Core.tla): Apalache discharges grid, read-back and cell order for meshes of any size
    from .. import apalache
    apalache.run_stage(ctx, module="C16Core.tla", obligations=apalache.C16_OBLIGATIONS, claim=apalache.C16_CLAIM, timeout=600)
    embs = embed.for_tier(ctx.tier, ctx.seed)
    r = ctx.model("MC_C16", f"C16_{ctx.tier}.cfg", dump=True)
    if r.ok:
        states = ctx.dump_states(r)
        if len(states) != r.distinct:
            raise core._tlc.MachineryError(f"dump has {len(states)} states, TLC reports {r.distinct}")
        acts = {s["act"][0] for s in states}
        for a in ("to_vtk", "write", "read", "legacy_write"):
            if a not in acts:
                raise core._tlc.MachineryError(f"action {a} never fired in the model")
        # to_vtk states run under every embedding; in the thorough tier the file states (write / read) run under a
        # rotating third of them (file I/O dominates the replay; every embedding still meets every kind of state)
        def embs_for(k):
            if ctx.tier == "quick" or states[k]["act"][0] == "to_vtk":
                return range(len(embs))
            return [(k + j * 3) % len(embs) for j in range(max(1, len(embs) // 3))]

        work = [(k, e) for k in range(len(states)) for e in embs_for(k)]
        scratch = ctx.scratch

        def chunk(items):
            part = Part()
            for k, ei in items:
                exec_state(df, states[k], embs[ei], VSCALES[(k + ei) % len(VSCALES)], part, scratch, sid=k)
                part.trace()
            if items:
                k, ei = items[0]
                part.sample({"channel": "R", "state": {"fld": norm_state(states[k])["fld"], "act": states[k]["act"]}, "embedding": embs[ei].name})
            return part

        ctx.pmap(chunk, work)
        guard_construct(ctx, len(work))
    run_traces(ctx, df, 400 if ctx.tier == "quick" else 4000, embs)
    ctx.assumptions += [
        "TLC explores the bounded configuration space of spec/C16.tla completely (bounds in MC_C16.tla)",
        "VTK's vtkRectilinearGrid.FindCell / pyvista.find_containing_cell and VTK's file readers are trusted as the independent consumer",
        "on cell faces a consumer may locate either neighbouring cell, on the outer boundary also none (set-valued in the spec)",
        "round trips use the default dimension names/units: a VTK file does not carry them and the property does not list them",
        "text representation: relative error <= 5e-10 per coordinate/value (ten significant digits)",
    ]
    core.df_stage(ctx, df)   # mixed histories (spec/DF.tla): the clauses that come from this property's text
    return core.finish(ctx, rule=RULE, extra={"embeddings": [e.name for e in embs], "value_scales": VSCALES})


def replay(ctx, path):
    df = core.import_library()
    with open(path) as fh:
        rp = json.load(fh)
    w = rp["witness"]
    embs = {e.name: e for e in embed.DYADIC + embed.REAL + embed.seeded(rp.get("seed", ctx.seed), 2)}
    emb = embs[w["embedding"]]
    if w.get("channel") == "T":
        print("trace witness (re-run the check with the same VERIF_SEED to regenerate):", json.dumps(w)[:1500])
        return 1
    r = ctx.model("MC_C16", f"C16_{rp.get('tier', 'quick')}.cfg", dump=True)
    part = Part()
    want_f = json.dumps(core.jsonable(w["fld"]), sort_keys=True)
    for k, st in enumerate(ctx.dump_states(r)):
        ns = norm_state(st)
        if json.dumps(core.jsonable(ns["fld"]), sort_keys=True) == want_f and core.jsonable(st["act"]) == w["act"]:
            exec_state(df, st, emb, w["vscale"], part, ctx.scratch, sid=k)
    for k, what, wit in part["violations"]:
        print("still fails:", k, what)
    return 1 if part["violations"] else 0
