"""C20 - matplotlib plots draw the field's own numbers at their physical coordinates.

M: TLC exhaustive on spec/C20.tla (MC_C20 + C20_<tier>.cfg): 2-d fields with 1-3 components, all component->axis
   mappings, masks, physical scales from nm to km, an auxiliary filter/colour/lightness field on the same or a
   different resolution; actions Scalar, Contour, Vector, Lightness, Call with default/explicit multiplier.
R: every dumped state is executed on the real library with a real Agg Axes whose imshow/quiver/contour are wrapped
   to record the arguments; recorded arguments AND the resulting artists (AxesImage array/extent/origin, Quiver
   X/Y/U/V/C, axis labels) are compared with the spec's expectation; field, mesh, validity, auxiliary field are
   compared before/after.
T: seeded random larger fields and plot calls, observations logged as integers and validated by TLC against
   spec/C20Trace.tla.
"""
import json
import math
import random
from fractions import Fraction

import numpy as np

from .. import core, embed, lat, fld as fldmod
from ..core import Part

META = dict(
    level="model_checking",
    level_text=("Exhaustive TLC model checking of spec/C20.tla: what Field.mpl.scalar/vector/contour/lightness/__call__ must hand "
                "to matplotlib (image matrix with row = second axis, hidden cells, origin lower, extent = region / multiplier; quiver "
                "X, Y = centres / multiplier, U, V chosen through the reversed component->axis mapping or the given labels, C = third "
                "component / colour field resampled to the field's mesh; contour X, Y, Z; axis labels '<dim> (<prefix><unit>)'; "
                "refusals; nothing mutated) for 2-d fields with 1-3 components, every mapping, masks, scales nm..km, default and "
                "explicit multipliers, filter/colour/lightness fields on the same, a coarser or a finer mesh; six invariants and one "
                "action property C20_*. Every TLC state is replayed on the real library with a recording Agg Axes and the artists are "
                "read back; seeded random larger cases are validated by TLC against spec/C20Trace.tla."),
    level_note=("Bounds: quick meshes 3x2, 1x3, 2x2, thorough to 4x3 / 2x4 with two cell profiles; scale, name scheme and auxiliary "
                "resolution are chosen diagonally from the other parameters (Pick in C20.tla), not multiplied. T: meshes to 8x6. "
                "Coordinates are exact rationals in the spec (lattice coordinate x size of the lattice unit / 1000^j) and compared "
                "with the floats handed to matplotlib within 1e-9 cell; values must be bitwise the field's own floats. Not decided by "
                "the spec (DESIGN section 8): HLS->RGB colour values, colour bars, the in-plane angle; for lightness plots only which "
                "cells are drawn and where. Where the property is silent (no mapping and no labels, partial mapping, which third "
                "component when one arrow component is None) the model follows the library and deviations are notes. Trusted: TLC, "
                "tlaval parser, matplotlib's artists as the observation point."),
    technique="TLA+ model of the arguments handed to matplotlib (C20.tla) + TLC exhaustive; states replayed into the library with recording Agg axes; library traces validated by TLC (C20Trace.tla)",
    design_ref="DESIGN.md section 7 C20",
)

RULE = ("a case is one TLC state executed on the library under the embedding given by the state's scale; non-trivial = a plot "
        "state that is not a refusal; distinct by (field, auxiliary field, plot call); T events count when accepted")

VSCALES = [1.0, 0.5, 1.0 / 3.0, 1e5 / 7.0, 3e-7]
DFLT = 9
DEFPAIR = (-1, -1)
PREFIX_EXP = {"y": -8, "z": -7, "a": -6, "f": -5, "p": -4, "n": -3, "u": -2, "m": -1, "": 0, "k": 1, "M": 2, "G": 3, "T": 4}


def emb_of(scale):
    num, den = scale["qm"]
    return embed.Embedding(f"{num}/{den}e{3 * scale['k']}", float(Fraction(num, den)) * 10.0 ** (3 * scale["k"]), 0.0, False)


# ------------------------------------------------------------------ building
def build(df, f, aux, vs, filter_only=False):
    emb = emb_of(f["scale"])
    m = f["mesh"]
    dims, units = list(f["dims"]), list(f["units"])
    mesh = lat.mesh_of(df, m, emb, dims=dims, units=units)
    nv = int(f["nv"])
    arr = fldmod.unflatten(f["vals"], m["n"], dtype=float) * vs
    valid = fldmod.unflatten_mask(f["valid"], m["n"])
    labels = list(f["labels"]) or None
    mapping = {}
    if f["hasmap"]:
        mapping = {labels[c]: (dims[f["map"][c] - 1] if f["map"][c] else None) for c in range(nv)}
        mapping = fldmod.scramble(mapping, sum(m["n"]) + nv + len(str(f["map"])))
    field = fldmod.labelled_field(df, mesh, nv, arr, labels, mapping, sum(m["n"]) + nv + sum(f["map"]) if f["hasmap"] else 1, valid=valid)
    fldmod.lived(field, sum(m["n"]) + 2 * nv + len(labels or ()))
    afield = None
    if aux["kind"] != "none":
        am = {"lo": m["lo"], "n": aux["n"], "c": [m["c"][d] * m["n"][d] // aux["n"][d] for d in range(len(m["n"]))]}
        amesh = lat.mesh_of(df, am, emb, dims=dims, units=units)
        # every third auxiliary field carries its values at the 1e-10 scale (a displacement in metres, say): zero stays zero and
        # non-zero stays non-zero - "zero in the filter field" is not "small" (seeded change C20-23 used np.isclose(filter, 0))
        ascale = 1e-10 if (filter_only and (sum(aux["n"]) + sum(m["n"]) + nv) % 3 == 0) else 1.0   # only where it serves as a filter
        afield = df.Field(amesh, nvdim=1, value=fldmod.unflatten(aux["vals"], aux["n"], dtype=float) * ascale)
    return emb, field, afield


def snapshot(field):
    if field is None:
        return None
    reg = field.mesh.region
    return dict(array=field.array.copy(), valid=np.array(field.valid, copy=True), pmin=np.array(reg.pmin, copy=True),
                pmax=np.array(reg.pmax, copy=True), n=np.array(field.mesh.n, copy=True), dims=tuple(reg.dims), units=tuple(reg.units),
                vdims=None if field.vdims is None else list(field.vdims), mapping=dict(field.vdim_mapping), unit=field.unit,
                subs=dict(field.mesh.subregions), bc=field.mesh.bc)


def changed(field, snap):
    if field is None:
        return []
    now = snapshot(field)
    out = []
    for k in snap:
        a, b = snap[k], now[k]
        same = np.array_equal(a, b) if isinstance(a, np.ndarray) else a == b
        if isinstance(a, np.ndarray) and same and a.dtype != b.dtype:
            same = False
        if not same:
            out.append(k)
    return out


# ------------------------------------------------------------------ plotting with a recording Axes
class Recorder:
    def __init__(self, ax):
        self.calls = {}
        for name in ("imshow", "quiver", "contour"):
            self._wrap(ax, name)

    def _wrap(self, ax, name):
        real = getattr(ax, name)

        def rec(*args, **kw):
            self.calls.setdefault(name, []).append(([np.array(a, dtype=float, copy=True) for a in args], dict(kw)))
            return real(*args, **kw)

        setattr(ax, name, rec)


def call_plot(field, afield, act, colorwheel=False):
    """execute the plot call of a spec action on a fresh Agg axes; returns (ok, exc, recorder, ax, fig)"""
    import matplotlib.pyplot as plt

    fig = plt.figure(figsize=(4, 3))
    ax = fig.add_subplot(111)
    rec = Recorder(ax)
    kind = act[0]
    mo = act[1]
    emb_mult = None
    try:
        mpl = field.mpl          # refuses fields that are not 2-d
        kw = {}
        if mo != DFLT:
            kw["multiplier"] = 10.0 ** (3 * (mo + field_scale_k(field)))
        if kind == "scalar":
            if act[2]:
                kw["filter_field"] = afield
            mpl.scalar(ax=ax, **kw)
        elif kind == "contour":
            if act[2]:
                kw["filter_field"] = afield
            mpl.contour(ax=ax, **kw)
        elif kind == "vector":
            pair, col = tuple(act[2]), act[3]
            if pair != DEFPAIR:
                kw["vdims"] = [field.vdims[c - 1] if c else None for c in pair]
            if col == "off":
                kw["use_color"] = False
            elif col == "aux":
                kw["color_field"] = afield
            mpl.vector(ax=ax, **kw)
        elif kind == "lightness":
            if act[2]:
                kw["filter_field"] = afield
            if act[3]:
                kw["lightness_field"] = afield
            mpl.lightness(ax=ax, colorwheel=colorwheel, **kw)
        elif kind == "call":
            mpl(ax=ax, **kw)
        else:
            raise core._tlc.MachineryError(f"unknown plot kind {kind}")
        return True, None, rec, ax, fig
    except core._tlc.MachineryError:
        raise
    except Exception as ex:
        return False, ex, rec, ax, fig


_SCALE_K = {}


def field_scale_k(field):
    return _SCALE_K[id(field)]


def close_all():
    import matplotlib.pyplot as plt

    plt.close("all")


# ------------------------------------------------------------------ projecting what was handed over
def rat(r):
    return Fraction(int(r[0]), int(r[1]))


def close_rat(x, q, cell_mult):
    """float x handed to matplotlib vs the exact rational q (units of the multiplier)"""
    x = float(x)
    if not math.isfinite(x):
        return False
    return abs(Fraction(x) - q) <= Fraction(1, 10**9) * cell_mult + 8 * Fraction(math.ulp(max(abs(x), abs(float(q)))))


def matrix_cells(A, vs, B=None):
    """matrix handed to matplotlib -> rows of [drawn, int value]; a cell is hidden when A (or B) is NaN / masked"""
    A = np.ma.filled(np.ma.masked_invalid(np.ma.asarray(A, dtype=float)), np.nan)
    rows, exact = [], True
    for r in range(A.shape[0]):
        row = []
        for c in range(A.shape[1]):
            x = A[r, c]
            if math.isnan(x) or (B is not None and math.isnan(B[r, c])):
                row.append([0, 0])
            else:
                k = round(x / vs)
                if float(k) * vs != x or abs(k) >= 2**30:
                    exact = False
                row.append([1, int(k)])
        rows.append(row)
    return rows, exact


def flags_of_rgba(A):
    A = np.asarray(A, dtype=float)
    rows, ok = [], A.ndim == 3 and A.shape[2] == 4
    if not ok:
        return [], False
    for r in range(A.shape[0]):
        row = []
        for c in range(A.shape[1]):
            a = A[r, c, 3]
            if a not in (0.0, 1.0):
                ok = False
            row.append([1 if a == 1.0 else 0, 0])
        rows.append(row)
    return rows, ok


def observe(field, rec, ax, vs, k_scale, quantum_mant):
    """what the library handed to matplotlib, as lattice integers: returns dict for comparison / logging"""
    out = {"img": None, "quiv": None, "cont": None, "xl": ax.get_xlabel(), "yl": ax.get_ylabel(), "problems": []}
    ims = rec.calls.get("imshow", [])
    if ims:
        args, kw = ims[0]
        A = args[0]
        img = {"origin": kw.get("origin", ""), "extent": [float(v) for v in kw.get("extent", [])], "n_calls": len(ims)}
        if A.ndim == 3:
            img["rows"], img["exact"] = flags_of_rgba(A)
            img["flagsonly"] = True
        else:
            img["rows"], img["exact"] = matrix_cells(A, vs)
            img["flagsonly"] = False
        # the artist must agree with the recorded arguments
        arts = ax.get_images()
        if not arts:
            out["problems"].append("no AxesImage on the axes")
        else:
            im = arts[0]
            if [float(v) for v in im.get_extent()] != img["extent"] or im.origin != img["origin"]:
                out["problems"].append("AxesImage extent/origin differ from the imshow arguments")
            arr = im.get_array()
            if A.ndim == 2:
                got = np.ma.filled(np.ma.masked_invalid(np.ma.asarray(arr, dtype=float)), np.nan)
                if got.shape != A.shape or not np.array_equal(got, A, equal_nan=True):
                    out["problems"].append("AxesImage array differs from the imshow argument")
        out["img"] = img
    qs = rec.calls.get("quiver", [])
    if qs:
        args, kw = qs[0]
        q = {"pivot": kw.get("pivot", ""), "nargs": len(args)}
        if len(args) >= 4:
            X, Y, U, V = args[:4]
            q["X"], q["Y"] = [float(v) for v in np.ravel(X)], [float(v) for v in np.ravel(Y)]
            q["U"], e1 = matrix_cells(U, vs, V)
            q["V"], e2 = matrix_cells(V, vs, U)
            q["exact"] = e1 and e2
            q["C"] = None
            if len(args) >= 5:
                q["C_raw"] = args[4]
            from matplotlib.quiver import Quiver

            arts = [c for c in ax.collections if isinstance(c, Quiver)]
            if not arts:
                out["problems"].append("no Quiver on the axes")
            else:
                qa = arts[0]
                XX, YY = np.meshgrid(X, Y)
                if not (np.array_equal(np.asarray(qa.X), XX.ravel()) and np.array_equal(np.asarray(qa.Y), YY.ravel())):
                    out["problems"].append("Quiver X/Y differ from the quiver arguments")
                hid = np.isnan(np.ravel(U)) | np.isnan(np.ravel(V))
                um = np.broadcast_to(np.asarray(qa.Umask, dtype=bool), hid.shape)
                if um.shape != hid.shape or not np.array_equal(um, hid):
                    out["problems"].append("Quiver mask differs from the NaN pattern of the arguments")
                else:
                    uu = np.ma.filled(np.ma.asarray(qa.U, dtype=float), np.nan)
                    if not np.array_equal(uu[~hid], np.ravel(U)[~hid]):
                        out["problems"].append("Quiver U differs from the quiver argument")
        out["quiv"] = q
    cs = rec.calls.get("contour", [])
    if cs:
        args, kw = cs[0]
        c = {"nargs": len(args)}
        if len(args) >= 3:
            c["X"], c["Y"] = [float(v) for v in np.ravel(args[0])], [float(v) for v in np.ravel(args[1])]
            c["Z"], c["exact"] = matrix_cells(args[2], vs)
        out["cont"] = c
    return out


def cells_equal(got, want, free=False):
    """compare rows of [drawn, value]; returns (same_pattern, same_values, wrongly_drawn, wrongly_hidden)"""
    wd, wh, vals = [], [], True
    if len(got) != len(want) or any(len(a) != len(b) for a, b in zip(got, want)):
        return False, False, None, None
    for r, (ra, rb) in enumerate(zip(got, want)):
        for c, (a, b) in enumerate(zip(ra, rb)):
            if a[0] != b[0]:
                (wd if a[0] == 1 else wh).append((c, r))
            elif a[0] == 1 and not free and a[1] != b[1]:
                vals = False
    return not wd and not wh, vals, wd, wh


# ------------------------------------------------------------------ channel R
def exec_state(df, st, part, sid=0):
    f, aux, act, obs = st["fld"], st["aux"], st["act"], st["obs"]
    kind = act[0]
    part.count()
    if kind == "new":
        return
    vs = VSCALES[sid % len(VSCALES)]
    m = f["mesh"]
    nd = len(m["n"])
    wit = lambda **kw: dict(fld=f, aux=aux, act=core.jsonable(act), vscale=vs, **kw)
    try:
        filter_only = (kind in ("scalar", "contour") and bool(act[2])) or (kind == "lightness" and bool(act[2]) and not bool(act[3]))
        emb, field, afield = build(df, f, aux, vs, filter_only=filter_only)
    except Exception as ex:
        part.note("construct-failed")      # building the field is the property's precondition (C01/C02), not its subject
        part.sample({"construct-failed": wit(exc=repr(ex))})
        return
    _SCALE_K[id(field)] = f["scale"]["k"]
    if obs["ok"] and sid % 2 == 0:
        # the field has been plotted BEFORE, while every cell was valid and the values were others; the mask and the values
        # examined below arrive through in-place writes afterwards.  "Cells that are invalid ... are not drawn" and "exactly
        # the field's values" speak about the field at the time of the plot (seeded change C20-13 memoised the mask-as-field
        # used as the default filter and dropped it only in the `valid` setter).
        try:
            keep_v, keep_a = field.valid.copy(), field.array.copy()
            field.valid[...] = True
            field.array[...] = 1.0
            try:
                call_plot(field, afield, act, colorwheel=False)
            finally:
                field.valid[...] = keep_v
                field.array[...] = keep_a
                close_all()
        except Exception:  # noqa: BLE001  (read-only arrays: the field is left as it is)
            pass
    s0, a0 = snapshot(field), snapshot(afield)
    try:
        ok, exc, rec, ax, fig = call_plot(field, afield, act, colorwheel=(sid % 11 == 0))
        compare_plot(part, wit, f, aux, act, obs, ok, exc, rec, ax, vs, field)
        ch = changed(field, s0) + ["aux." + k for k in changed(afield, a0)]
        if ch:
            part.violation(f"C20_PlotMutatesNothing/{kind}/{'+'.join(sorted(ch))}", "plotting modified the field / mesh / validity / auxiliary field",
                           wit(changed=ch))
    finally:
        _SCALE_K.pop(id(field), None)
        close_all()
    if obs["ok"]:
        part.nontriv(json.dumps(core.jsonable([f, aux, act]), sort_keys=True))


def off_of(act, obs, f):
    """multiplier exponent offset (relative to the scale's k) the spec expects: from the expected label prefix"""
    xl = obs["xl"]
    pre = xl[xl.index("(") + 1:-1]
    unit = f["units"][0]
    pre = pre[: len(pre) - len(unit)]
    return PREFIX_EXP[pre] - f["scale"]["k"]


def raises_cond(f):
    n = f["mesh"]["n"]
    return "raises-single-cell-axis" if len(n) == 2 and min(n) == 1 else f"raises-nv{f['nv']}"


def compare_plot(part, wit, f, aux, act, obs, ok, exc, rec, ax, vs, field):
    kind = act[0]
    nv = f["nv"]
    if ok != obs["ok"]:
        if not obs["dem"]:
            part.note("silent:outcome-differs")
            return
        if obs["ok"]:
            part.violation(f"C20_Draws/{kind}/{raises_cond(f)}", "plot call raises where the property says the field is drawn", wit(exc=repr(exc)))
        else:
            reason = "ndim" if len(f["mesh"]["n"]) != 2 else f"nv{nv}"
            part.violation(f"C20_Refusals/{kind}/{reason}", "plot call accepts a field of the wrong spatial or component dimension", wit())
        return
    if not ok:
        return
    m = f["mesh"]
    o = observe(field, rec, ax, vs, f["scale"]["k"], f["scale"]["qm"])
    for p in o["problems"]:
        part.violation(f"C20_ArtistsAgree/{kind}/artist", p, wit())
    # axis labels
    if o["xl"] != obs["xl"] or o["yl"] != obs["yl"]:
        part.violation(f"C20_AxisLabels/{kind}/{'default' if act[1] == DFLT else 'explicit'}", "axis labels are not '<dim> (<prefix><unit>)'",
                       wit(got=[o["xl"], o["yl"]], want=[obs["xl"], obs["yl"]]))
    off = off_of(act, obs, f)
    qm = Fraction(*f["scale"]["qm"])
    cellm = [qm * m["c"][d] / Fraction(1000) ** off for d in range(2)]
    usefilter = kind in ("scalar", "contour", "lightness") and bool(act[2])

    def hidden_key(wd, wh):
        valid = fldmod.unflatten_mask(f["valid"], m["n"])
        if usefilter and wd and not wh and all(not valid[c, r] for c, r in wd):
            return "invalid-drawn-under-explicit-filter"
        return "wrong-cells"

    E = obs["img"]
    if E["has"]:
        g = o["img"]
        if g is None:
            part.violation(f"C20_ImageShowsCellAtPoint/{kind}/no-image", "no image was handed to matplotlib", wit())
        else:
            if g["origin"] != E["origin"]:
                part.violation(f"C20_ImageShowsCellAtPoint/{kind}/origin", "image origin is not 'lower'", wit(got=g["origin"]))
            want_ext = [rat(r) for r in E["extent"]]
            if len(g["extent"]) != 4 or not all(close_rat(x, q, cellm[i // 2]) for i, (x, q) in enumerate(zip(g["extent"], want_ext))):
                part.violation(f"C20_ImageShowsCellAtPoint/{kind}/extent", "image extent is not the region divided by the multiplier",
                               wit(got=g["extent"], want=[str(q) for q in want_ext]))
            if g["flagsonly"] != E["flagsonly"]:
                part.violation(f"C20_ImageShowsCellAtPoint/{kind}/kind", "image is of the wrong kind (RGBA vs scalar)", wit())
            else:
                same, vals, wd, wh = cells_equal(g["rows"], [[list(c) for c in row] for row in E["rows"]], free=E["free"] or E["flagsonly"])
                if wd is None:
                    part.violation(f"C20_ImageShowsCellAtPoint/{kind}/shape", "image matrix has the wrong shape (rows = second axis)", wit(got=g["rows"]))
                else:
                    if not same:
                        part.violation(f"C20_HiddenCells/{kind}/{hidden_key(wd, wh)}", "drawn cells are not exactly the valid cells that are non-zero in the filter field",
                                       wit(wrongly_drawn=wd, wrongly_hidden=wh))
                    if not vals or (not g["exact"] and not E["flagsonly"]):
                        part.violation(f"C20_ImageShowsCellAtPoint/{kind}/values", "image[row][col] is not the field's value at cell (col, row)",
                                       wit(got=g["rows"], want=E["rows"]))
    elif o["img"] is not None:
        part.violation(f"C20_ImageShowsCellAtPoint/{kind}/unexpected-image", "an image was drawn where none is expected", wit())
    E = obs["quiv"]
    if E["has"]:
        g = o["quiv"]
        if g is None or g["nargs"] < 4:
            part.violation(f"C20_ArrowsAtCentres/{kind}/no-quiver", "no quiver was handed to matplotlib", wit())
        else:
            wx, wy = [rat(r) for r in E["X"]], [rat(r) for r in E["Y"]]
            if (len(g["X"]) != len(wx) or len(g["Y"]) != len(wy) or not all(close_rat(x, q, cellm[0]) for x, q in zip(g["X"], wx))
                    or not all(close_rat(y, q, cellm[1]) for y, q in zip(g["Y"], wy))):
                part.violation(f"C20_ArrowsAtCentres/{kind}/positions", "arrow positions are not the cell centres divided by the multiplier",
                               wit(got=[g["X"], g["Y"]], want=[[str(q) for q in wx], [str(q) for q in wy]]))
            for comp in ("U", "V"):
                same, vals, wd, wh = cells_equal(g[comp], [[list(c) for c in row] for row in E[comp]])
                if wd is None:
                    part.violation(f"C20_ArrowsAtCentres/{kind}/shape", "arrow component matrix has the wrong shape", wit(got=g[comp]))
                    break
                if not same:
                    part.violation(f"C20_HiddenCells/{kind}/arrows", "arrows are drawn at invalid cells or hidden at valid ones", wit(wrongly_drawn=wd, wrongly_hidden=wh))
                    break
                if not vals or not g["exact"]:
                    part.violation(f"C20_ArrowsAtCentres/{kind}/component-{comp}", "arrow components are not those chosen through the mapping / the given labels",
                                   wit(component=comp, got=g[comp], want=E[comp]))
            if g["pivot"] != "mid":
                part.note("silent:pivot-not-mid")
            C = E["C"]
            if C["has"] != (g["nargs"] >= 5):
                part.violation(f"C20_ArrowsAtCentres/{kind}/colour-presence", "arrow colours present/absent differently from the specification", wit(nargs=g["nargs"]))
            elif C["has"] and not C["free"]:
                cvs = 1.0 if act[3] == "aux" else vs
                rows, exact = matrix_cells(g["C_raw"], cvs)
                # colour values at hidden arrows are not constrained
                want = [[list(c) for c in row] for row in C["rows"]]
                bad = False
                if len(rows) != len(want) or any(len(a) != len(b) for a, b in zip(rows, want)):
                    bad = True
                else:
                    for ra, rb in zip(rows, want):
                        for a, b in zip(ra, rb):
                            if b[0] == 1 and (a[0] != 1 or a[1] != b[1]):
                                bad = True
                if bad or not exact:
                    part.violation(f"C20_ArrowsAtCentres/{kind}/colour-{act[3]}", "arrow colours are not the third component / the colour field at the cell", wit(got=rows, want=want))
    elif o["quiv"] is not None:
        part.violation(f"C20_ArrowsAtCentres/{kind}/unexpected-quiver", "arrows were drawn where none are expected", wit())
    E = obs["cont"]
    if E["has"]:
        g = o["cont"]
        if g is None or g["nargs"] < 3:
            part.violation(f"C20_ContourAtCentres/{kind}/no-contour", "no contour was handed to matplotlib", wit())
        else:
            wx, wy = [rat(r) for r in E["X"]], [rat(r) for r in E["Y"]]
            if (len(g["X"]) != len(wx) or len(g["Y"]) != len(wy) or not all(close_rat(x, q, cellm[0]) for x, q in zip(g["X"], wx))
                    or not all(close_rat(y, q, cellm[1]) for y, q in zip(g["Y"], wy))):
                part.violation(f"C20_ContourAtCentres/{kind}/positions", "contour nodes are not the cell centres divided by the multiplier", wit(got=[g["X"], g["Y"]]))
            same, vals, wd, wh = cells_equal(g["Z"], [[list(c) for c in row] for row in E["Z"]])
            if wd is None:
                part.violation(f"C20_ContourAtCentres/{kind}/shape", "contour matrix has the wrong shape", wit(got=g["Z"]))
            else:
                if not same:
                    part.violation(f"C20_HiddenCells/{kind}/{hidden_key(wd, wh)}", "contour uses invalid / filtered cells or hides valid ones", wit(wrongly_drawn=wd, wrongly_hidden=wh))
                if not vals or not g["exact"]:
                    part.violation(f"C20_ContourAtCentres/{kind}/values", "Z[row][col] is not the field's value at cell (col, row)", wit(got=g["Z"], want=E["Z"]))


# ------------------------------------------------------------------ channel T
SCALE_POOL = [((1, 4), -3), ((25, 1), -3), ((1, 8), 0), ((250, 1), 0), ((1, 4), -2), ((2, 1), -1), ((7, 100), -3), ((3, 1), -3), ((1, 1), 0)]
MAPS = {2: [(1, 2), (2, 1), None], 3: [(1, 2, 0), (2, 1, 0), (0, 1, 2), (2, 0, 1), (1, 0, 2), (0, 2, 1), (1, 0, 0), None]}


def edge_safe(qm, k, e):
    q = Fraction(*qm)
    if k == 0 and qm[1] in (1, 2, 4, 8, 16):
        return Fraction(1, 1000) <= e * q < 10**6
    for b in (1, 1000):
        if Fraction(999, 1000) * b <= e * q <= Fraction(1001, 1000) * b:
            return False
    return Fraction(1, 1000) <= e * q < 10**6


def gen_trace(df, rnd, tid):
    while True:
        n = [rnd.randrange(1, 9), rnd.randrange(1, 7)]
        c = [12 * rnd.randrange(1, 4), 12 * rnd.randrange(1, 4)]
        qm, k = rnd.choice(SCALE_POOL)
        if all(edge_safe(qm, k, c[d] * n[d]) for d in range(2)):
            break
    m = {"lo": [12 * rnd.randrange(-10, 10), 12 * rnd.randrange(-10, 10)], "c": c, "n": n}
    N = n[0] * n[1]
    nv = rnd.choice([1, 1, 2, 2, 3, 3, 3])
    s = rnd.choice([1, 2])
    dims = ["x", "y"] if s == 1 else ["z", "x"]
    units = ["m", "m"] if s == 1 else ["m", "rad"]
    labels = [] if nv == 1 else (["x", "y", "z"][:nv] if s == 1 else ["mb", "ma", "mc"][:nv])
    mp = rnd.choice(MAPS[nv]) if nv > 1 else None
    f = {"mesh": m, "dims": dims, "units": units, "nv": nv, "vals": [[rnd.randrange(-99, 100) for _ in range(nv)] for _ in range(N)],
         "valid": [True] * N if rnd.random() < 0.3 else [rnd.random() < 0.75 for _ in range(N)], "labels": labels,
         "map": list(mp) if mp else [0] * (nv if nv > 1 else 0), "hasmap": mp is not None, "scale": {"qm": list(qm), "k": k}}
    ak = rnd.choice(["none", "same", "coarse", "fine", "skew"])
    an = {"same": n, "none": n, "coarse": [v // 2 if v % 2 == 0 else v for v in n], "fine": [3 * v for v in n], "skew": [3 * v for v in n]}[ak]
    if ak == "skew":
        # as many cells as the field's mesh, differently arranged (three times as many along one axis, a third along the other):
        # a filter that "fits" by its size alone still has to be resampled (seeded change C20-32); no field centre on an auxiliary face
        d3 = [d for d in range(2) if n[d] % 3 == 0]
        if d3:
            d = d3[rnd.randrange(len(d3))]
            an = [3 * n[0], 3 * n[1]]
            an[d] = n[d] // 3
            an[1 - d] = 3 * n[1 - d]
        ak = "fine"
    aux = {"kind": ak, "n": an, "vals": [] if ak == "none" else [[0 if rnd.random() < 0.3 else rnd.choice([-1, 1]) * rnd.randrange(1, 50)] for _ in range(an[0] * an[1])]}
    vs = rnd.choice(VSCALES)
    try:
        emb, field, afield = build(df, f, aux, vs)
    except Exception as exc:
        raise ConstructFailed(repr(exc))
    _SCALE_K[id(field)] = k
    ev = []
    try:
        for _ in range(rnd.randrange(2, 5)):
            kind = rnd.choice(["scalar", "contour", "vector", "vector", "lightness", "call"])
            mo = rnd.choice([DFLT, DFLT, -1, 0, 1])
            uf = ak != "none" and rnd.random() < 0.5
            ul = ak != "none" and not uf and rnd.random() < 0.3
            if kind in ("scalar", "contour"):
                act = (kind, mo, uf)
                if kind == "contour" and min(n) < 2:
                    continue
            elif kind == "vector":
                pair = DEFPAIR
                if nv > 1 and rnd.random() < 0.5:
                    a, b = rnd.randrange(0, nv + 1), rnd.randrange(0, nv + 1)
                    if a != b:
                        pair = (a, b)
                col = rnd.choice(["auto", "off"] + (["aux"] if ak != "none" else []))
                act = (kind, mo, pair, col)
            elif kind == "lightness":
                act = (kind, mo, uf, ul)
            else:
                act = (kind, mo)
            s0, a0 = snapshot(field), snapshot(afield)
            ok, exc, rec, ax, fig = call_plot(field, afield, act)
            e = {"k": "plot", "kind": kind, "mo": mo, "uf": bool(act[2]) if kind in ("scalar", "contour", "lightness") else False,
                 "ul": bool(act[3]) if kind == "lightness" else False,
                 "pair": list(act[2]) if kind == "vector" else list(DEFPAIR), "col": act[3] if kind == "vector" else "off", "ok": ok,
                 "unchanged": not (changed(field, s0) or changed(afield, a0)),
                 "chg": "+".join(sorted(changed(field, s0) + ["aux." + x for x in changed(afield, a0)]))}
            if ok:
                o = observe(field, rec, ax, vs, k, qm)
                e.update(log_obs(o, f, vs, act))
            else:
                e["exc"] = repr(exc)[:160]
            close_all()
            ev.append(e)
            if not e["unchanged"]:
                # a plot that modified its inputs (a finding in itself) must not contaminate the following events
                _SCALE_K.pop(id(field), None)
                emb, field, afield = build(df, f, aux, vs)
                _SCALE_K[id(field)] = k
    finally:
        _SCALE_K.pop(id(field), None)
        close_all()
    return {"id": tid, "vsi": VSCALES.index(vs), "fld": f, "aux": aux, "ev": ev}


def log_obs(o, f, vs, act):
    """observation -> integers: the multiplier is taken from the unit prefix the library printed on the axis;
    coordinates are then converted back to lattice units (must be integers)"""
    m = f["mesh"]
    qm = Fraction(*f["scale"]["qm"])
    k = f["scale"]["k"]
    out = {"xl": o["xl"], "yl": o["yl"], "artists": not o["problems"]}
    offobs, lab_ok = 0, True
    try:
        pre = o["xl"][o["xl"].index("(") + 1:-1]
        pre = pre[: len(pre) - len(f["units"][0])]
        offobs = PREFIX_EXP[pre] - k
    except Exception:
        lab_ok = False
    if abs(offobs) > 2:
        lab_ok, offobs = False, 0
    out["offobs"], out["labok"] = offobs, lab_ok
    unit = qm / Fraction(1000) ** offobs          # multiplier units per lattice unit

    def to_lat(xs, d):
        res, exact = [], True
        for x in xs:
            if not math.isfinite(x):
                return [], False
            q = Fraction(float(x)) / unit
            r = round(q)
            if abs(q - r) > Fraction(1, 10**9) * m["c"][d] + 8 * Fraction(math.ulp(abs(float(x)) or 1e-300)) / unit or abs(r) >= 2**30:
                exact = False
            res.append(int(r))
        return res, exact

    no = {"has": False, "rows": [], "ext": [], "exact": True, "origin": "", "flagsonly": False}
    g = o["img"]
    if g:
        ex, e1 = to_lat(g["extent"][:2], 0)
        ey, e2 = to_lat(g["extent"][2:], 1)
        out["img"] = {"has": True, "rows": g["rows"], "ext": ex + ey, "exact": bool(e1 and e2 and g["exact"] and len(g["extent"]) == 4),
                      "origin": g["origin"], "flagsonly": g["flagsonly"]}
    else:
        out["img"] = no
    noq = {"has": False, "X": [], "Y": [], "exact": True, "U": [], "V": [], "chas": False, "C": [], "cexact": True}
    g = o["quiv"]
    if g and g["nargs"] >= 4:
        X, e1 = to_lat(g["X"], 0)
        Y, e2 = to_lat(g["Y"], 1)
        q = {"has": True, "X": X, "Y": Y, "exact": bool(e1 and e2 and g["exact"]), "U": g["U"], "V": g["V"], "chas": g["nargs"] >= 5, "C": [], "cexact": True}
        if g["nargs"] >= 5:
            q["C"], q["cexact"] = matrix_cells(g["C_raw"], 1.0 if act[3] == "aux" else vs, np.where(np.array([[c[0] for c in row] for row in g["U"]]) == 1, 0.0, np.nan))
        out["quiv"] = q
    else:
        out["quiv"] = noq
    noc = {"has": False, "X": [], "Y": [], "Z": [], "exact": True}
    g = o["cont"]
    if g and g["nargs"] >= 3:
        X, e1 = to_lat(g["X"], 0)
        Y, e2 = to_lat(g["Y"], 1)
        out["cont"] = {"has": True, "X": X, "Y": Y, "Z": g["Z"], "exact": bool(e1 and e2 and g["exact"])}
    else:
        out["cont"] = noc
    return out


def verdict_key(clause, t, e):
    kind = e["kind"]
    if clause.startswith("C20_HiddenCells"):
        cond = clause.split("-", 1)[1] if "-" in clause else "wrong-cells"
        if cond == "filter" and e.get("uf"):
            # classify as in channel R: only invalid cells drawn while an explicit filter is given
            return f"C20_HiddenCells/{kind}/{e.get('hidcls', 'wrong-cells')}"
        return f"C20_HiddenCells/{kind}/{'arrows' if cond == 'arrows' else 'wrong-cells'}"
    if clause == "C20_Draws-raises":
        return f"C20_Draws/{kind}/{raises_cond(t['fld'])}"
    if clause == "C20_PlotMutatesNothing-changed":
        return f"C20_PlotMutatesNothing/{kind}/{e.get('chg', '')}"
    if "-" in clause:
        c, op = clause.split("-", 1)
        return f"{c}/{kind}/{op}"
    return f"{clause}/{kind}/T"


def classify_hidden(t, e):
    """for a trace event with an explicit filter: are all pattern mismatches invalid cells that were drawn?"""
    f = t["fld"]
    n = f["mesh"]["n"]
    rows = (e.get("img") or {}).get("rows") or (e.get("cont") or {}).get("Z") or []
    if not rows or not e.get("uf"):
        return "wrong-cells"
    valid = fldmod.unflatten_mask(f["valid"], n)
    if len(rows) != n[1] or any(len(row) != n[0] for row in rows):
        return "wrong-cells"
    # the filter part is decided by TLC; here only: every drawn cell that is invalid
    drawn_invalid = [(c, r) for r, row in enumerate(rows) for c, cell in enumerate(row) if cell[0] == 1 and not valid[c, r]]
    return "invalid-drawn-under-explicit-filter" if drawn_invalid else "wrong-cells"


class ConstructFailed(Exception):
    """the random driver could not even build its field (precondition of the property, C01/C02's subject)"""


def core_safe(ctx, fn, *args):
    """a library call that raises inside the random driver is a finding about the library, not a harness crash"""
    import traceback

    try:
        return fn(*args)
    except core._tlc.MachineryError:
        raise
    except ConstructFailed:
        ctx.notes["T:construct-failed"] = ctx.notes.get("T:construct-failed", 0) + 1
        return None
    except Exception as ex:
        close_all()
        ctx.violation(f"C20_LibraryRaises/T/{type(ex).__name__}", "the library raised inside the random driver",
                      {"channel": "T", "exc": repr(ex), "traceback": traceback.format_exc()[-1500:]})
        return None


def run_traces(ctx, df, ntraces):
    rnd = random.Random(ctx.seed * 7919 + 20)
    traces = [tr for tr in (core_safe(ctx, gen_trace, df, rnd, t + 1) for t in range(ntraces)) if tr is not None]
    traces = [t for t in traces if t["ev"]]
    for t in traces:
        for e in t["ev"]:
            if e.get("ok") and e.get("uf"):
                e["hidcls"] = classify_hidden(t, e)
    r, verdicts, _ = ctx.trace_check("C20Trace", "C20Trace.cfg", traces)
    expect = sum(len(t["ev"]) + 1 for t in traces)
    if r.distinct != expect:
        raise core._tlc.MachineryError(f"C20Trace consumed {r.distinct} states, expected {expect}")
    byid = {t["id"]: t for t in traces}
    for v in verdicts:
        _, tid, l, clause = v
        t = byid[tid]
        e = t["ev"][l - 1]
        if clause.startswith("silent-"):
            ctx.notes["T:" + clause] = ctx.notes.get("T:" + clause, 0) + 1
            continue
        ctx.violation(verdict_key(clause, t, e), f"recorded execution rejected by C20Trace: clause {clause}",
                      {"channel": "T", "fld": t["fld"], "aux": t["aux"], "vscale": VSCALES[t["vsi"]], "event": e})
    ctx.traces += len(traces)
    ctx.evaluations += sum(len(t["ev"]) for t in traces)
    for t in traces:
        for i, e in enumerate(t["ev"]):
            if e["ok"]:
                ctx.nontriv("T", t["id"], i)
    ctx.sample({"channel": "T", "trace": {k: (v if k != "ev" else v[:1]) for k, v in traces[0].items()}})


def run(ctx):
    df = core.import_library()
    r = ctx.model("MC_C20", f"C20_{ctx.tier}.cfg", dump=True)
    if r.ok:
        states = ctx.dump_states(r)
        if len(states) != r.distinct:
            raise core._tlc.MachineryError(f"dump has {len(states)} states, TLC reports {r.distinct}")
        acts = {s["act"][0] for s in states}
        for a in ("scalar", "contour", "vector", "lightness", "call"):
            if a not in acts:
                raise core._tlc.MachineryError(f"action {a} never fired in the model")
        n_ok = sum(1 for s in states if s["act"][0] != "new" and s["obs"]["ok"])
        n_rej = sum(1 for s in states if s["act"][0] != "new" and not s["obs"]["ok"])
        if not n_ok or not n_rej:
            raise core._tlc.MachineryError("model degenerate: no drawn or no refused plot")
        work = list(range(len(states)))

        def chunk(items):
            import matplotlib

            matplotlib.use("Agg")
            part = Part()
            for k in items:
                exec_state(df, states[k], part, sid=k)
                part.trace()
            if items:
                st = states[items[-1]]
                part.sample({"channel": "R", "state": {"fld": st["fld"], "aux": st["aux"], "act": st["act"], "obs_ok": st["obs"]["ok"]}})
            return part

        ctx.pmap(chunk, work)
        if ctx.notes.get("construct-failed", 0) > 0.05 * len(work):
            raise core._tlc.MachineryError(f"{ctx.notes['construct-failed']} of {len(work)} cases could not even be constructed")
        ctx.notes["model_plots_drawn"] = n_ok
        ctx.notes["model_plots_refused"] = n_rej
    run_traces(ctx, df, 150 if ctx.tier == "quick" else 1500)
    ctx.assumptions += [
        "TLC explores the bounded configuration space of spec/C20.tla completely (bounds in MC_C20.tla; scale, names, auxiliary resolution chosen diagonally)",
        "what matplotlib receives is observed by wrapping imshow/quiver/contour of a real Agg Axes and by reading the artists back",
        "colour values (HLS->RGB), colour bars and the in-plane angle are outside the specification; for lightness plots only the alpha pattern, extent and origin are compared",
        "colour values at hidden arrows are unconstrained",
    ]
    return core.finish(ctx, rule=RULE, extra={"value_scales": VSCALES})


def replay(ctx, path):
    df = core.import_library()
    with open(path) as fh:
        rp = json.load(fh)
    w = rp["witness"]
    if w.get("channel") == "T":
        print("trace witness (re-run the check with the same VERIF_SEED to regenerate):", json.dumps(w)[:1500])
        return 1
    r = ctx.model("MC_C20", f"C20_{rp.get('tier', 'quick')}.cfg", dump=True)
    part = Part()
    want = json.dumps([w["fld"], w["aux"], w["act"]], sort_keys=True)
    for k, st in enumerate(ctx.dump_states(r)):
        if json.dumps(core.jsonable([st["fld"], st["aux"], st["act"]]), sort_keys=True) == want:
            exec_state(df, st, part, sid=VSCALES.index(w["vscale"]))
    for k, what, wit in part["violations"]:
        print("still fails:", k, what)
    return 1 if part["violations"] else 0
