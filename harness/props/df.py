"""DF - the mixed-history model: histories that MIX the action families of the twenty properties.

M : TLC on spec/DF.tla (one heap of regions, meshes with subregions, fields with validity and value-array identity; 43 named
    actions from eleven families): every history of depth 1 over the full alphabet and four initial object graphs,
    every history of depth 2 over a reduced alphabet (depth 3 over the sharing-prone calls in thorough), plus
    `tlc -simulate` for deep random mixed histories.  State clauses DF_RegionNormal / MeshNormal / FieldShapes /
    SubregionsWellFormed / OwnValidity / Labels and thirteen step clauses (DF_OperandsUnchanged, DF_ValidityRule,
    DF_PositionsKept, DF_Persist, DF_InplaceEqualsCopy, ...), each tied to a property text.
R : every dumped state (= one history) and every simulated behaviour is re-executed call by call on real
    Region/Mesh/Field objects under a dyadic and a real-world embedding; the full projected heap (geometry, arrays,
    validity, labels, mapping, object identity via `is`, validity identity via numpy.shares_memory) is compared with
    the model's state (dump: with the state of the history and of its depth-1 prefix; simulation: after every step).
T : a seeded random driver (harness/df_trace.py) runs long mixed programs on meshes of up to 60 cells on the real
    library and logs the projected heap after every call; spec/DFTrace.tla validates every step with the SAME
    operators (DF!Apply, DF!ClauseHolds) - total verdicts, observed state adopted.
W : the design-level aliasing patterns P1 / P2 (C13) and P3 (found here) are excluded from the model by DF!AliasGuard
    and replayed as compositions of public calls (known findings).
"""
import json
import os
import random
import re
import threading
import zlib

import numpy as np

from .. import core, embed, tlaval
from .. import df_world as W
from .. import df_trace as T
from ..core import Part

META = dict(
    level="model_checking",
    level_text=("One TLA+ specification of the whole object system (regions, meshes with named subregions, fields with values, "
                "validity arrays with identity, labels and mapping; references between them) in which the public calls of seven "
                "families - geometry, selection, algebra, validity, value updates, persistence, derivative - are mixed in one "
                "history. TLC enumerates all histories to a small depth and random deep ones; each is re-executed on the real "
                "library and the complete projected object graph compared after every call; long random programs of the real "
                "library are validated call by call by the same operators. Finds defects that need a composition of features."),
    level_note=("Bounds: meshes of 4-12 cells (2x3, 2x2, 2x2x1, 3x2x2), <= 3 field variables, depth 1 full alphabet, depth 2 reduced "
                "alphabet (quick) / wider (thorough), depth 3 on 13 sharing-prone actions (thorough), simulation depth 10; channel T: "
                "meshes up to 60 cells, programs of 20-60 calls. Derivative values, bc, units of fields and dtypes are outside the model "
                "(diff enters through validity / metadata / sharing only). Persistence steps demand only the attributes the property "
                "texts list (mapping after a read is unconstrained unless it was the default). Aliasing patterns P1/P2/P3 are excluded "
                "by a guard and reported by witness runs. Trusted: TLC, tlaval, harness/df_world.py projection (coordinates to "
                "rationals with denominator <= 64 within 1e-8, values to integers within 1e-9)."),
    technique="TLA+ heap-with-references model of the mixed API (DF.tla), TLC exhaustive + simulation; histories replayed into code; random code programs validated by TLC (DFTrace.tla)",
    design_ref="DESIGN.md section 3 (DF.tla), section 4; notes/DF.md",
)

RULE = ("a case is one (history of public calls, embedding) re-executed on the real library with the projected heap compared with the "
        "model's state, or one logged call of a random program validated by DFTrace; non-trivial = the last call was accepted and "
        "produced or modified an object; distinct by (history, embedding) resp. (program id, call number)")

GEO = W.GEO
ALGEBRA = ("neg", "pos", "abs", "add", "mul", "mulnum", "comp", "lshift", "sub", "dot", "cross", "norm", "orientation", "addnum", "pow2", "angle")
SEL = ("selplane", "selrange", "getsub", "getregion", "pad", "resample")
PERSIST = ("h5", "ovf", "vtk", "xarray")
VALID_FREE = ("integrate", "mean", "integratecum")   # results whose validity no property constrains (the model follows the library: all valid)
ACTION_OF = {"translate": "Translate", "scale": "Scale", "mkfield": "MkField", "neg": "Neg", "pos": "Pos", "abs": "Abs", "add": "Add",
             "mul": "Mul", "sub": "Sub", "dot": "Dot", "cross": "Cross", "norm": "Norm", "orientation": "Orientation", "integrate": "Integrate",
             "fromfield": "FromField", "setsub": "SetSub", "q_meshclose": "QMeshClose", "q_fieldclose": "QFieldClose",
             "q_regionin": "QRegionIn", "q_aligned": "QAligned", "q_eq": "QEq", "q_mean": "QMean", "q_call": "QCall", "mean": "Mean", "setvdims": "SetVdims", "addnum": "AddNum", "pow2": "Pow2", "angle": "Angle", "integratecum": "IntegrateCum", "mulnum": "MulNum", "comp": "Comp", "lshift": "LShift", "diff": "Diff", "mutatevalid": "MutateValid",
             "updateconst": "UpdateConst", "setarray": "SetArray", "writearray": "WriteArray", "selplane": "SelPlane", "selrange": "SelRange", "getsub": "GetSub",
             "getregion": "GetRegion", "pad": "Pad", "resample": "Resample", "h5": "H5", "ovf": "Ovf", "vtk": "Vtk", "xarray": "Xarray"}
ALL_ACTIONS = sorted(set(ACTION_OF.values()) | {"MeshRotate90", "FieldRotate90", "SetValidArray", "SetValidNorm", "SetValidNone"})


def action_name(c):
    op = c["op"]
    if op == "rotate90":
        return "FieldRotate90" if c["tg"] == "self" else "MeshRotate90"
    if op == "setvalid":
        return {"array": "SetValidArray", "norm": "SetValidNorm", "none": "SetValidNone"}[c["a"]["kind"]]
    return ACTION_OF.get(op, op)


def opname(c):
    op = c["op"]
    if op in GEO:
        return f"{op}.{c['tg']}.{'inplace' if c['ip'] else 'copy'}"
    if op == "setvalid":
        return f"setvalid.{c['a']['kind']}"
    if op == "pad":
        return f"pad.{c['a']['mode']}"
    return op


def clause_of(aspect, c, is_result):
    """the clause of DF.tla a difference in `aspect` after call c belongs to"""
    op = c["op"]
    if aspect == "sharing":
        return "DF_Sharing"
    if aspect == "ownvalid":
        return "DF_OwnValidity"
    if aspect == "ownarray":
        return "DF_OwnArray"
    if aspect == "shape":
        return "DF_FieldShapes"
    if op in GEO:
        if aspect in ("geometry", "unitsdims", "counts"):
            return "DF_AffineExact"
        if aspect in ("valid", "values", "labels", "mapping") and c["tg"] == "self":
            return "DF_PositionsKept"
        return "DF_InplaceEqualsCopy" if c["ip"] else "DF_OperandsUnchanged"
    if op.startswith("q_"):
        return "DF_QueryPure"
    if op == "setsub":
        return "DF_SetSub"
    if op in ("integrate", "mean", "integratecum") and is_result:
        return "DF_Integrate"
    if op == "setvdims":
        return "DF_Relabel"
    if not is_result and op not in ("setvalid", "mutatevalid", "updateconst", "setarray", "fromfield", "writearray", "setvdims"):
        return "DF_OperandsUnchanged"
    if op in SEL:
        if aspect in ("geometry", "unitsdims", "counts"):
            return "DF_CellAligned"
        if aspect == "subnames":
            return "DF_SelSubregions"
        return "DF_PositionsKept"
    if op in PERSIST:
        return "DF_Persist"
    if op in ("setvalid", "mutatevalid"):
        return "DF_SetValid"
    if op in ("updateconst", "setarray", "fromfield", "writearray"):
        return "DF_Update"
    if op in ALGEBRA or op == "diff":
        return "DF_ValidityRule" if aspect == "valid" else "DF_Cellwise"
    return "DF_Step"


def compare_state(part, w, st, c, hist, emb, init_name):
    """observed heap after call c against the model's state st; returns True when they agree"""
    try:
        got, groots, anomalies = w.project()
    except W.OffLattice as ex:
        part.violation(f"DF_AffineExact/{opname(c)}/off-lattice", "a coordinate of a live object is not the exact image of the specification's (could not be projected)",
                       _wit(hist, emb, init_name, detail=str(ex)))
        return False
    except W.TooBig as ex:
        # the states of the model stay within the logged range: an object far beyond it is not where the model has it
        kind = ex.args[0] if ex.args else "region"
        clause = "DF_SubregionsWellFormed" if kind == "subregion" else "DF_AffineExact"
        part.violation(f"{clause}/{opname(c)}/beyond-range", f"a live {kind} has coordinates far beyond every state of the model after this history",
                       _wit(hist, emb, init_name, detail=repr(ex.args[1:])[:300]))
        return False
    want, wroots = W.spec_heap(st["heap"]), W.spec_roots(st["roots"])
    ok = True
    for o, msg in anomalies:
        part.violation(f"DF_FieldShapes/{opname(c)}/array-or-validity-shape", "a field's array / validity does not have the shape (n..., nvdim) / n with Boolean dtype",
                       _wit(hist, emb, init_name, detail=msg))
        ok = False
    res = wroots.get(c["dst"]) if c["op"] not in GEO or not c["ip"] else None
    diffs = W.diff_heaps(want, wroots, got, groots)
    if diffs and diffs[0][0] == "sharing-less":
        part.note("R_less_sharing_than_the_model:" + opname(c))   # not a violation; the history is not continued
        return False
    if c["op"] in VALID_FREE and diffs and all(a == "valid" and o == res for a, o, _ in diffs):
        # no property says which cells of an integral / a mean are valid: counted, the history is not continued
        part.note("R_validity_of_an_integral_differs_from_the_model:" + opname(c))
        return False
    for aspect, o, msg in diffs[:4]:
        is_result = (o == res) or (o and res and want.get(res, {}).get("k") == "field" and o in (want[res]["mesh"], want[want[res]["mesh"]]["region"]))
        if c["op"] in GEO and c["ip"]:
            is_result = True
        clause = clause_of(aspect, c, is_result)
        part.violation(f"{clause}/{opname(c)}/{aspect}{'' if is_result else '-other-object'}",
                       f"after the call the real objects differ from the model's state: {msg}", _wit(hist, emb, init_name, detail=msg))
        ok = False
    return ok


def _wit(hist, emb, init_name, **kw):
    return dict(scenario=init_name, history=[dict(h) for h in hist], embedding=emb.name, **kw)


def check_step(part, w, c, st, hist, emb, name):
    """one executed call against the model: outcome, return identity, projected heap; True when they agree"""
    outcome, retself, ex = w.do_call(c)
    part.count()
    if outcome != c["outcome"]:
        clause = "DF_Query" if c["op"].startswith("q_") else "DF_Accepts" if c["outcome"] == "ok" else "DF_Rejects"
        if clause == "DF_Query" and ex is None and c["outcome"] != "reject":
            part.violation(f"{clause}/{opname(c)}/answer", "the library's answer differs from the model's",
                           _wit(hist, emb, name, answered=outcome, model=c["outcome"]))
            return False
        part.violation(f"{clause}/{opname(c)}/{w.last_cond if ex is not None else 'accepted'}",
                       "the library %s a call the model %s" % (("rejected", "accepts") if c["outcome"] != "reject" else ("accepted", "requires to be rejected")),
                       _wit(hist, emb, name, exc=repr(ex)[:300]))
        return False
    if c["op"] in GEO and c["ip"] and outcome == "ok" and not retself:
        part.violation(f"DF_InplaceReturnsSelf/{opname(c)}/other-object", "the in-place form did not return the object itself", _wit(hist, emb, name))
    return compare_state(part, w, st, c, hist, emb, name)


def replay_behaviour(df, states, emb, part, scratch):
    """re-execute a behaviour of the model (list of states, the first one initial), comparing after every call"""
    hist = states[-1]["hist"]
    name = hist[0]["x"]
    w = W.World(df, states[0]["heap"], states[0]["roots"], emb, scratch)
    for i, st in enumerate(states[1:], start=1):
        c = st["hist"][-1]
        if not check_step(part, w, c, st, [x["hist"][-1] for x in states[1:i + 1]], emb, name):
            return False
        if c["outcome"] == "ok":
            part.nontriv(repr(st["hist"]), emb.name)
    return True


# ------------------------------------------------------------------------------------------------
_REC_END = re.compile(r'outcome \|-> "(?:ok|reject|true|false|[mv]:[^"]*)" \]')


def _hist_ends(block):
    i = block.index("/\\ hist = ")
    return i, [m.end() for m in _REC_END.finditer(block, i)]  # only `hist` holds records with an outcome


def _replay_dump(ctx, df, r, embs, label, every):
    """every dumped state is one history: histories are grouped by their prefix (all calls but the last); the prefix is
    executed once per group and embedding, every member continues from a copy of those objects with its last call"""
    blocks = ctx.dump_blocks(r)
    groups, shallow = {}, []
    for b in blocks:
        i, ends = _hist_ends(b)
        if len(ends) <= 2:
            shallow.append(b)
        if len(ends) >= 2:
            groups.setdefault(b[i:ends[-2]], []).append(b)
    known = {}
    for b in shallow:
        st = W.fastparse(b)
        known[json.dumps(st["hist"], sort_keys=True)] = st
    # the fast parser is part of the trusted base: it must agree with the framework's parser
    for b in shallow[:12] + blocks[-12:]:
        slow = W.canon(tlaval.parse_state_text(b))
        fast = W.fastparse(b)
        if W.spec_heap(slow["heap"]) != W.spec_heap(fast["heap"]) or slow["hist"] != fast["hist"] or W.spec_roots(slow["roots"]) != W.spec_roots(fast["roots"]):
            raise core._tlc.MachineryError("df_world.fastparse disagrees with tlaval on a dumped state")
    inits = {st["hist"][0]["x"]: st for st in known.values() if len(st["hist"]) == 1}
    items = []
    for key, members in groups.items():
        for j in range(0, len(members), 48):
            items.append((key, members[j:j + 48]))

    def chunk(work):
        part = Part()
        for key, members in work:
            prefix = W.fastparse(members[0])["hist"][:-1]
            name = prefix[0]["x"]
            init = inits[name]
            for emb in (embs if every else [embs[zlib.crc32(key.encode()) % len(embs)]]):
                base = W.World(df, init["heap"], init["roots"], emb, ctx.scratch)
                good = True
                for c in prefix[1:]:
                    outcome, _, _ex = base.do_call(c)
                    good = good and outcome == c["outcome"]
                pst = known.get(json.dumps(prefix, sort_keys=True))
                if good and pst is not None and len(prefix) > 1:
                    try:
                        got, groots, an = base.project()
                        good = not an and not W.diff_heaps(W.spec_heap(pst["heap"]), W.spec_roots(pst["roots"]), got, groots)
                    except (W.OffLattice, W.TooBig):
                        good = False
                if not good:
                    part.note("groups_skipped_prefix_deviates")  # reported by the replay of the prefix itself
                    continue
                cloneable = not base.masks_shared()
                for b in members:
                    st = W.fastparse(b)
                    c = st["hist"][-1]
                    if cloneable:
                        w = base.clone()
                    else:
                        w = W.World(df, init["heap"], init["roots"], emb, ctx.scratch)
                        for pc in prefix[1:]:
                            w.do_call(pc)
                    if check_step(part, w, c, st, st["hist"][1:], emb, name) and c["outcome"] == "ok":
                        part.nontriv(key, json.dumps(c, sort_keys=True), emb.name)
                    part.trace()
            part.note("groups")
        if work:
            st = W.fastparse(work[0][1][0])
            part.sample({"channel": "R", "source": label, "history": st["hist"][1:], "roots": st["roots"]})
        return part

    # which actions fired (every state is one history; its last call is one firing)
    fired = {}
    for b in blocks:
        i, ends = _hist_ends(b)
        if len(ends) >= 2:
            rec = b[ends[-2]:ends[-1]]
            m = re.search(r'op \|-> "(\w+)"', rec)
            op = m.group(1)
            if op == "rotate90":
                a = "FieldRotate90" if 'tg |-> "self"' in rec else "MeshRotate90"
            elif op == "setvalid":
                a = {"array": "SetValidArray", "norm": "SetValidNorm", "none": "SetValidNone"}[re.search(r'kind \|-> "(\w+)"', rec).group(1)]
            else:
                a = ACTION_OF[op]
            k = "fired:" + a + (":reject" if 'outcome |-> "reject"' in rec else "")
            fired[k] = fired.get(k, 0) + 1
    for k, v in fired.items():
        ctx.notes[k] = ctx.notes.get(k, 0) + v
    ctx.pmap(chunk, items, chunk=max(1, len(items) // 128))
    return inits


def _replay_sim(ctx, df, files, embs):
    def chunk(items):
        part = Part()
        for f in items:
            beh = tlaval.parse_behaviour(f)
            if len(beh) < 2:
                continue
            states = [W.canon(s) for _, s in beh]
            for s in states[1:]:
                part.note("sim-fired:" + action_name(s["hist"][-1]))
            emb = embs[zlib.crc32(os.path.basename(f).encode()) % len(embs)]
            replay_behaviour(df, states, emb, part, ctx.scratch)
            part.trace()
            part.note("sim_steps", len(states) - 1)
        return part

    ctx.pmap(chunk, files)


def _alias_witnesses(ctx, df, emb):
    """the aliasing patterns the model excludes (DF!AliasGuard), reached by COMPOSING public calls"""
    from .. import tlc as _tlc
    try:
        r = _tlc.run("MC_DF", "DF_alias.cfg", ctx.scratch, workers=8, timeout=900, tag="alias")
        ctx.tlc_runs.append({"cmd": r.cmd.replace(ctx.scratch, "$SCRATCH"), "generated": r.generated, "distinct": r.distinct,
                             "violated": r.violated, "purpose": "faithful references (AllowAlias = all): the model itself must violate a clause"})
        if not r.violated:
            ctx.notes["alias_model_no_longer_violates"] = 1
    except _tlc.MachineryError as ex:
        raise

    def mk():
        reg = df.Region(p1=(emb.x(0), emb.x(-3)), p2=(emb.x(8), emb.x(6)), dims=("a", "b"), units=("m", "s"))
        sub = df.Region(p1=(emb.x(0), emb.x(-3)), p2=(emb.x(4), emb.x(3)), dims=("a", "b"), units=("m", "s"))
        m = df.Mesh(region=reg, n=(2, 3), subregions={"s1": sub})
        return m, df.Field(m, nvdim=1, value=1.0)

    # P1 through algebra: the result of an operator refers to the operand's mesh object
    m, f = mk()
    g = -f
    g.rotate90("a", "b", k=1, inplace=True)
    ctx.count()
    if tuple(f.array.shape[:-1]) != tuple(int(v) for v in f.mesh.n):
        ctx.violation("DF_FieldShapes/alias-P1/neg+rotate90.self.inplace/operand-of-an-operator",
                      "g = -f refers to f's mesh object; g.rotate90(inplace=True) with odd k swaps f.mesh.n, f.array keeps its shape",
                      {"repro": "m=Mesh(p1=(0,-3),p2=(8,6),n=(2,3)); f=Field(m,1,1.0); g=-f; g.rotate90('x','y',inplace=True); f.array.shape[:-1] != tuple(f.mesh.n)",
                       "f.array.shape": f.array.shape, "f.mesh.n": f.mesh.n})
    # P2 through resample: the resampled field's mesh refers to the source's region object
    m, f = mk()
    g = f.resample((2, 3))
    g.mesh.translate((emb.length(1), 0.0), inplace=True)
    ctx.count()
    try:
        f.mesh.translate((emb.length(4), 0.0))
        bad = False
    except Exception as ex:
        bad = repr(ex)
    if bad:
        ctx.violation("DF_SubregionsWellFormed/alias-P2/resample+translate.mesh.inplace/source-mesh-has-subregions",
                      "g = f.resample(n) refers to f's region object; translating g.mesh in place moves f.mesh.region but not f.mesh.subregions",
                      {"repro": "m=Mesh(...,n=(2,3),subregions={'s1':...}); f=Field(m,1,1.0); g=f.resample((2,3)); g.mesh.translate((1,0),inplace=True); f.mesh.translate((4,0))  # ValueError",
                       "exc": bad})
    # P3 through field[name]: the extracted mesh's region IS the parent's subregion object
    m, f = mk()
    g = f["s1"]
    before = [float(v) for v in m.subregions["s1"].pmin]
    g.mesh.translate((emb.length(1), 0.0), inplace=True)
    ctx.count()
    if [float(v) for v in m.subregions["s1"].pmin] != before:
        ctx.violation("DF_SubregionsWellFormed/alias-P3/getsub+translate.mesh.inplace/parent-subregion-moved",
                      "g = f['s1'] (also mesh['s1']) returns a mesh whose region is the parent's subregion object; an in-place transformation of the "
                      "extracted mesh / field moves the parent's subregion off the parent's cell lattice",
                      {"repro": "m=Mesh(p1=(0,-3),p2=(8,6),n=(2,3),subregions={'s1':Region(p1=(0,-3),p2=(4,3))}); f=Field(m,1,1.0); g=f['s1']; "
                                "g.mesh.translate((1,0),inplace=True); m.subregions['s1'].pmin  # [1,-3]: not on m's lattice; m.translate((4,0)) raises",
                       "subregion.pmin": [float(v) for v in m.subregions["s1"].pmin]})


# ------------------------------------------------------------------------------------------------
def run_traces(ctx, df, ntraces, length, batches):
    rnd = random.Random(ctx.seed * 7919 + 31)
    embs = [embed.DYADIC[0], embed.DYADIC[0], embed.DYADIC[1], embed.REAL[0]]
    traces = []
    for k in range(ntraces):
        try:
            traces.append(T.gen_trace(df, rnd, k + 1, rnd.choice(embs), ctx.scratch, rnd.randint(length[0], length[1])))
        except W.TooBig as ex:
            # only the projection of the freshly BUILT objects lets this through (inside a program it ends the program): the mesh
            # does not hold what the constructor / the subregion setter was given
            kind = ex.args[0] if ex.args else "region"
            clause = "DF_SubregionsWellFormed" if kind == "subregion" else "DF_AffineExact"
            ctx.violation(f"{clause}/construct/beyond-range", f"a {kind} of a freshly built mesh is not where it was put (it follows an object the caller kept)",
                          {"detail": repr(ex.args[1:])[:300]})
        except W.OffLattice as ex:
            ctx.violation("DF_AffineExact/trace/off-lattice", "a coordinate of a live object is not a small rational of the lattice (could not be projected)", {"detail": str(ex)})
    traces = [t for t in traces if t["ev"]]
    for t in traces:
        for e in t["ev"]:
            for o, msg in e["anomalies"]:
                ctx.violation(f"DF_FieldShapes/{opname(e['call'])}/array-or-validity-shape", "a field's array / validity does not have the shape (n..., nvdim) / n with Boolean dtype",
                              {"program": [x["call"] for x in t["ev"]], "embedding": t["emb"], "detail": msg})
    per = max(1, (len(traces) + batches - 1) // batches)
    groups = [traces[i:i + per] for i in range(0, len(traces), per)]
    results = [None] * len(groups)
    errors = []

    def work(i):
        try:
            results[i] = ctx.trace_check("DFTrace", "DFTrace.cfg", T.strip(groups[i]), name=f"DFTrace_b{i}", timeout=1400, heap="4g")
        except Exception as ex:  # re-raised in the main thread
            errors.append(ex)

    threads = [threading.Thread(target=work, args=(i,)) for i in range(len(groups))]
    for th in threads:
        th.start()
    for th in threads:
        th.join()
    if errors:
        raise errors[0]
    byid = {t["id"]: t for t in traces}
    outside, nverd = {}, 0
    fatal = {}
    for i, (r, verdicts, _) in enumerate(results):
        for v in tlaval.extract_printed(r.stdout, "OUTSIDE"):
            outside[v[3]] = outside.get(v[3], 0) + 1
        seen = set()
        for v in verdicts:
            _, tid, l, clause = v
            if (tid, l, clause) in seen:
                continue
            seen.add((tid, l, clause))
            nverd += 1
            t = byid[tid]
            e = t["ev"][l - 1]
            if clause == "DF_FieldShapes":
                fatal[tid] = min(fatal.get(tid, l), l)
            ctx.violation(f"{clause}/{opname(e['call'])}/trace" + (":" + e["cond"] if e.get("cond") and clause == "DF_Accepts" else ""),
                          f"logged call rejected by DFTrace at step {l}: clause {clause}",
                          {"program": [dict(x["call"], outcome=x["outcome"]) for x in t["ev"][:l]], "embedding": t["emb"], "exc": e["exc"],
                           "heap0": t["heap0"], "roots0": t["roots0"]})
        expect = sum((fatal.get(t["id"], len(t["ev"])) if t["id"] in fatal else len(t["ev"])) + 1 for t in groups[i])
        if r.distinct != expect:
            raise core._tlc.MachineryError(f"DFTrace consumed {r.distinct} states, expected {expect}")
    nev = sum(len(t["ev"]) for t in traces)
    ctx.traces += len(traces)
    ctx.evaluations += nev
    ctx.notes["T_events"] = nev
    ctx.notes["T_events_outside_model"] = outside
    ctx.notes["T_events_rejected_by_library"] = sum(1 for t in traces for e in t["ev"] if e["outcome"] != "ok")
    byop = {}
    for t in traces:
        for k, e in enumerate(t["ev"]):
            a = action_name(e["call"])
            byop[a] = byop.get(a, 0) + 1
            if e["outcome"] == "ok":
                ctx.nontriv("T", t["id"], k)
    ctx.notes["T_events_by_action"] = byop
    ctx.notes["T_ended_early"] = sum(1 for t in traces if t["note"])
    if traces:
        t0 = traces[0]
        ctx.sample({"channel": "T", "embedding": t0["emb"], "program": [dict(e["call"], outcome=e["outcome"]) for e in t0["ev"][:12]]})
    return traces


# ------------------------------------------------------------------------------------------------
# Which property does a disagreement belong to?  The stage runs inside the checks of the properties whose texts the
# clauses of DF.tla come from; a check reports only what its own property states (a C13 run never raises an alarm for a
# disagreement that belongs to C08).  `./check DF` reports everything.
FAMILY = {}
for _op in GEO:
    FAMILY[_op] = "geo"
for _op in ALGEBRA:
    FAMILY[_op] = "algebra"
for _op in SEL:
    FAMILY[_op] = "sel"
FAMILY.update({"diff": "diff", "setvalid": "valid", "mutatevalid": "valid", "updateconst": "update", "setarray": "update",
               "mkfield": "update", "fromfield": "update", "writearray": "update", "integrate": "integrate", "setsub": "setsub", "q_aligned": "q_aligned", "q_meshclose": "query", "q_fieldclose": "query",
               "q_regionin": "query", "q_eq": "query", "q_mean": "integrate", "mean": "integrate", "integratecum": "integrate", "q_call": "update", "setvdims": "labels", "h5": "h5", "ovf": "ovf", "vtk": "vtk", "xarray": "xarray"})
FAMILY_OWNER = {"geo": {"C13"}, "algebra": {"C03"}, "sel": {"C07"}, "diff": {"C08"}, "valid": {"C08"}, "update": {"C02"}, "integrate": {"C06"}, "setsub": {"C14"}, "q_aligned": {"C14"}, "query": {"DF"}, "labels": {"DF"},   # allclose / `in` are beyond the twenty texts
                "h5": {"C10"}, "ovf": {"C09"}, "vtk": {"C16"}, "xarray": {"C17"}}
CLAUSE_OWNER = {
    "DF_RegionNormal": {"C13"}, "DF_MeshNormal": {"C13"}, "DF_FieldShapes": {"C13"}, "DF_RootsLive": {"C13"},
    "DF_InplaceEqualsCopy": {"C13"}, "DF_InplaceReturnsSelf": {"C13"}, "DF_AffineExact": {"C13"},
    "DF_SubregionsWellFormed": {"C14"}, "DF_SelSubregions": {"C14"},
    "DF_OwnValidity": {"C08"}, "DF_ValidityRule": {"C08"}, "DF_SetValid": {"C08"},
    "DF_Cellwise": {"C03"}, "DF_Update": {"C02"}, "DF_CellAligned": {"C07"}, "DF_Integrate": {"C06"}, "DF_SetSub": {"C14"},
}
OWNERS = ("C02", "C03", "C06", "C07", "C08", "C09", "C10", "C12", "C13", "C14", "C16", "C17")


def owners_of(key):
    """the properties whose text a violation key of this stage contradicts (a set; never empty)"""
    k = key
    for pre in ("model:MC_DF:", "trace:DFTrace:", "trace:"):
        if k.startswith(pre):
            k = k[len(pre):]
    parts = k.split("/")
    clause = parts[0]
    if clause.endswith("_S"):
        clause = clause[:-2]
    opn = parts[1] if len(parts) > 1 else ""
    aspect = parts[2] if len(parts) > 2 else ""
    op = opn.split(".")[0]
    fam = FAMILY.get(op, "")
    if "alias-P" in key:
        return {"C13"} if "alias-P1" in key else {"C14"}
    own = set(CLAUSE_OWNER.get(clause, ()))
    if not own:
        own = set(FAMILY_OWNER.get(fam, {"C13"}))
        if fam == "geo" and opn.startswith("rotate90.self"):
            own = {"C12", "C13"}
        if clause == "DF_PositionsKept":
            own = {"C12"} if fam == "geo" else {"C07"}
    # validity follows the data through every operation (C08) whichever family the operation belongs to
    if aspect.startswith("valid") or aspect.startswith("ownvalid") or clause == "DF_Validity":
        own.add("C08")
    if aspect.startswith("subnames"):
        own.add("C14")
    if fam == "geo" and clause in ("DF_OperandsUnchanged", "DF_RejectUnchanged", "DF_Rejects", "DF_Accepts", "DF_Sharing"):
        own = {"C13"}
        if clause == "DF_Sharing":
            own.add("C14")   # a mesh that shares its region with its own copy loses its subregions at the next in-place step
    if op == "getsub" and clause in ("DF_Sharing", "DF_CellAligned", "DF_Geometry"):
        own.add("C14")
    return own


def run_stage(ctx, df, owner=None, lite=False):
    """the whole pipeline (M, R, T, witness runs) on ctx; with `owner` (a property id) only the disagreements that belong to
    that property stay on ctx.  `lite` = the reduced budget used inside the quick tier of the owning checks."""
    before = set(ctx.found)
    _pipeline(ctx, df, lite)
    if owner is not None:
        other = {}
        for key in list(ctx.found):
            if key in before:
                continue
            if owner not in owners_of(key):
                info = ctx.found.pop(key)
                for o in sorted(owners_of(key)):
                    other[o] = other.get(o, 0) + info["count"]
        # what belongs to another property is reported by that property's check, here it is only counted
        ctx.notes["DF_stage_disagreements_owned_by_other_properties"] = other
    ctx.notes["DF_stage"] = "lite" if lite else ctx.tier


def _pipeline(ctx, df, lite):
    quick = ctx.tier == "quick"
    embs = [embed.DYADIC[0], embed.REAL[0]] if quick else [embed.DYADIC[0], embed.DYADIC[1], embed.REAL[0], embed.REAL[1]]
    cfgs = [("DF_d1.cfg", True), ("DF_quick.cfg", False)] if quick else [("DF_d1.cfg", True), ("DF_thorough.cfg", False), ("DF_d3.cfg", False)]
    if lite:
        cfgs = cfgs[:1]
    import time
    tick = [time.time()]

    def lap(name):
        ctx.notes["wall_" + name] = round(time.time() - tick[0], 1)
        tick[0] = time.time()

    for cfg, every in cfgs:
        r = ctx.model("MC_DF", cfg, dump=True, coverage=False, heap="8g")
        lap("M_" + cfg)
        if r.ok:
            _replay_dump(ctx, df, r, embs if every else embs[:2], cfg, every)
        lap("R_" + cfg)
    # deep random mixed histories from the specification, replayed step by step
    exhaustive = ctx.exhaustive
    if not lite:
        nsim = 48 if quick else 1600
        rs, files = ctx.simulate("MC_DF", "DF_sim.cfg", num=nsim, depth=10 if quick else 14)
        lap("M_sim")
        _replay_sim(ctx, df, files, embs[:2])
        lap("R_sim")
    ctx.exhaustive = False if ctx.prop == "DF" else exhaustive
    _alias_witnesses(ctx, df, embs[0])
    lap("W_alias")
    run_traces(ctx, df, (40 if lite else 60) if quick else 900, (20, 60), 4 if quick else 12)
    lap("T")
    # per-action coverage: every action must fire (TLC's -coverage cannot be used on this module: its cost model
    # expands operators at every call site and exhausts the heap before the first state, see notes/DF.md)
    fired = {a: 0 for a in ALL_ACTIONS}
    for k, v in ctx.notes.items():
        if k.startswith("fired:"):
            a = k.split(":")[1]
            fired[a] = fired.get(a, 0) + v
    ctx.coverage_actions.update({f"MC_DF.{a}": n for a, n in fired.items()})
    silent = [a for a, n in fired.items() if n == 0]
    if silent and not lite:
        raise core._tlc.MachineryError(f"actions that never fired in the exhaustive runs: {silent}")
    ctx.assumptions += [
        "DF stage: object identity in the model = `is` on the real objects; validity identity = numpy.shares_memory of the masks",
        "DF stage: new objects are numbered region, subregions, mesh, field after the largest live id - in the model and in the projection",
        "DF stage: coordinates are projected to rationals (denominator <= 64) within 1e-8 relative; values to integers within 1e-9",
        "DF stage: the aliasing pattern P1 / P2 (user-made sharing, C13) is excluded from the model by DF!AliasGuard and checked by witness runs",
        "DF stage: `+f` is explored as f = +f only, so that `+f is f` (documented, known finding of C08) and a copy are the same history",
        "DF stage: a result that shares LESS than the model predicts (its own mesh / region object) is counted, not reported; the history ends there",
    ]


def run(ctx):
    df = core.import_library()
    run_stage(ctx, df, owner=None, lite=False)
    embs = 2 if ctx.tier == "quick" else 4
    return core.finish(ctx, rule=RULE, extra={"embeddings": embs})


def _detuple(v):
    if isinstance(v, list):
        return tuple(_detuple(x) for x in v)
    if isinstance(v, dict):
        return {k: _detuple(x) for k, x in v.items()}
    return v


def replay(ctx, path):
    """re-execute the recorded history / program on the current tree and print what the library does"""
    df = core.import_library()
    with open(path) as fh:
        rp = json.load(fh)
    w = rp["witness"] or {}
    print("key:", rp["key"])
    print("what:", rp["what"])
    embs = {e.name: e for e in embed.DYADIC + embed.REAL}
    emb = embs.get(w.get("embedding"), embed.DYADIC[0])
    if "history" in w:
        r = ctx.model("MC_DF", "DF_d0.cfg", dump=True, coverage=False)
        inits = {s["hist"][0]["x"]: s for s in ctx.dump_states(r)}
        init = inits[w["scenario"]]
        world = W.World(df, init["heap"], init["roots"], emb, ctx.scratch)
        calls = [_detuple(c) for c in w["history"]]
    elif "program" in w:
        world = W.World(df, _detuple(w["heap0"]), {x: o for x, o in w["roots0"]}, emb, ctx.scratch)
        calls = [_detuple(c) for c in w["program"]]
    else:
        print("(witness run finding: see the `repro` line)", w.get("repro"))
        return 1
    calls = [{k: v for k, v in c.items() if k != "outcome"} for c in calls]
    h0, r0, _an = world.project()
    t = {"id": 1, "heap0": W.jsonable_heap(h0), "roots0": [[x, o] for x, o in sorted(r0.items())], "ev": []}
    for c in calls:
        outcome, retself, ex = world.do_call(c)
        print(f"  {opname(c):32s} x={c['x']} y={c['y']} dst={c['dst']} a={json.dumps(core.jsonable(c['a']))[:80]} -> {outcome} {type(ex).__name__ if ex else ''}")
        h, r_, _an = world.project()
        t["ev"].append({"call": core.jsonable(c), "outcome": outcome, "post": W.jsonable_heap(h), "rpost": [[x, o] for x, o in sorted(r_.items())]})
    print("final variables:", r_)
    for o in sorted(h):
        print(f"  {o}: " + json.dumps(core.jsonable({k: v for k, v in h[o].items() if k not in ('vx', 'mx')}))[:300])
    # the verdict is TLC's: the re-executed program is validated by DFTrace with the operators of DF.tla
    _, verdicts, _ = ctx.trace_check("DFTrace", "DFTrace.cfg", [t])
    for v in verdicts:
        print("still fails:", v)
    return 1 if verdicts else 0


def selftest(ctx):
    """binding by corruption: a logged program with one altered value must be rejected by DFTrace, a dumped state with one
    altered expected value must be rejected by the replay; the unaltered ones must be accepted"""
    import copy
    df = core.import_library()
    rnd = random.Random(11)
    traces = [T.gen_trace(df, rnd, k + 1, embed.DYADIC[0], ctx.scratch, 8, big=False) for k in range(12)]
    traces = [t for t in traces if t["ev"]]
    _, v0, _ = ctx.trace_check("DFTrace", "DFTrace.cfg", T.strip(traces), name="DFTrace_clean")
    v0 = [v for v in v0 if not any(e["cond"] and "nvdim-is" in e["cond"] for e in traces[v[1] - 1]["ev"][v[2] - 1:v[2]])]
    res = [("clean programs accepted by DFTrace", len(v0) == 0)]
    for what in ("valid", "lo", "mesh"):
        bad = copy.deepcopy(traces)
        hit = None
        for t in bad:
            for l, e in enumerate(t["ev"]):
                if e["outcome"] != "ok":
                    continue
                for o, rec in e["post"]:
                    if what == "valid" and rec["k"] == "field":
                        rec["valid"][0] = not rec["valid"][0]
                        hit = (t["id"], l + 1)
                    elif what == "lo" and rec["k"] == "region":
                        rec["lo"][0] = [rec["lo"][0][0] + rec["lo"][0][1], rec["lo"][0][1]]
                        hit = (t["id"], l + 1)
                    elif what == "mesh" and rec["k"] == "field" and e["call"]["op"] in ("neg", "abs", "mulnum", "diff", "comp"):
                        rec["vo"] = min(oo for oo, rr in e["post"] if rr["k"] == "field")  # the result shares a mask with an older field
                        hit = (t["id"], l + 1) if rec["vo"] != o else None
                    if hit:
                        break
                if hit:
                    break
            if hit:
                break
        if hit is None:
            res.append((f"corruption '{what}' could be applied", what == "mesh"))
            continue
        _, v1, _ = ctx.trace_check("DFTrace", "DFTrace.cfg", T.strip(bad), name="DFTrace_bad_" + what)
        res.append((f"program with one altered {what} rejected by DFTrace at the altered step", any((v[1], v[2]) == hit for v in v1)))
    # spec -> code
    r = ctx.model("MC_DF", "DF_d1.cfg", dump=True, coverage=False)
    blocks = ctx.dump_blocks(r)
    sts = [W.fastparse(b) for b in blocks if _depth(b) <= 1]
    inits = {s["hist"][0]["x"]: s for s in sts if len(s["hist"]) == 1}
    st = next(s for s in sts if len(s["hist"]) == 2 and s["hist"][1]["op"] == "selrange" and s["hist"][1]["outcome"] == "ok")
    init = inits[st["hist"][0]["x"]]
    part = Part()
    replay_behaviour(df, [init, st], embed.DYADIC[0], part, ctx.scratch)
    st2 = copy.deepcopy(st)
    heap = W.heap_dict(st2["heap"])
    oid = max(o for o, rec in heap.items() if rec["k"] == "field")
    heap[oid]["valid"][0] = not heap[oid]["valid"][0]
    st2["heap"] = heap
    part2 = Part()
    replay_behaviour(df, [init, st2], embed.DYADIC[0], part2, ctx.scratch)
    res += [("dumped history accepted by the replay", not part["violations"]),
            ("dumped history with one altered expected validity bit rejected", bool(part2["violations"]))]
    return res
