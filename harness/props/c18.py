"""C18 - arbitrary rotations (FieldRotator) rotate the vectors and resample the positions consistently.

M: TLC exhaustive on spec/C18.tla (MC_C18 + C18_<tier>.cfg): programs of rotate()/clear_rotation() calls with
   rotations from SO(3,Q) (quarter turns and Pythagorean rotations about the coordinate axes), invariants C18_*.
R: every dumped state (original field, program, expected region / n / per-cell class and value) is executed on the
   real FieldRotator under several float embeddings, every generator fed through the input forms quaternion, matrix,
   rotation vector, Euler angle, vector alignment; quarter-turn states are also compared with Field.rotate90.
T: seeded random programs with *general-axis* rational rotations (integer quaternions), random meshes, default or
   explicit target resolution, logged and validated by TLC against spec/C18Trace.tla.
"""
import json
import math
import random
from fractions import Fraction as Fr

import numpy as np

from .. import core, embed, lat
from .. import fld as fldmod
from ..core import Part

META = dict(
    level="model_checking",
    level_text=("Exhaustive TLC model checking of spec/C18.tla (programs of FieldRotator.rotate / clear_rotation with rotations "
                "from SO(3,Q): quarter turns and Pythagorean rotations (3/5,4/5; 4/5,3/5; 5/13,12/13) about the coordinate axes, "
                "accumulated by left multiplication; rational bounding box; exact classification of every back-rotated target "
                "centre as outside / at least one cell inside / band; invariants C18_ProperRotation, C18_Composition, "
                "C18_ClearRestores, C18_Refusals, C18_BoundingBox, C18_Classes, C18_UniformBecomesUniform, "
                "C18_QuarterTurnEqualsRotate90, C18_Interp). Every TLC state is replayed on the real FieldRotator under float "
                "embeddings with each generator fed through five input forms and permuted component-to-axis mappings; seeded "
                "random programs with general-axis rational rotations (integer quaternions) are validated by TLC (C18Trace.tla)."),
    level_note=("Bounds: quick depth<=2 over 6 generators, thorough depth<=3 over 9 generators, common denominator <=125; source meshes "
                "6x5x4 / 4x6x5 (cubic and anisotropic cells), explicit target n; T: meshes 4..8 cells/axis, |quaternion|^2<=30, "
                "default and explicit n. Not decided by the spec (DESIGN 8): irrational angles, the default target resolution for "
                "non-lattice rotations (only observed and fed back), values in the band less than one cell from the boundary. "
                "All comparisons use tolerances (rotation introduces non-dyadic factors on every embedding). Trusted: TLC, "
                "harness/tlaval.py, exact Fractions in the adapter, scipy's conversion of the five input forms."),
    technique="TLA+ model over SO(3,Q) (C18.tla) + TLC exhaustive; spec states replayed into code; code traces validated by TLC (C18Trace.tla)",
    design_ref="DESIGN.md section 7 C18",
)

RULE = ("states: every reachable (original field, program, last call) of C18.tla within the cfg bounds; a case is one "
        "(state, embedding, input-form assignment); non-trivial = the accumulated rotation is not the identity and at least "
        "one target cell is constrained; distinct by (state, embedding, forms)")

FORMS = ["quat", "matrix", "rotvec", "euler", "align"]
DIMS3 = ("x", "y", "z")


# ------------------------------------------------------------------ building inputs
def gen_call(g, form):
    """how to call FieldRotator.rotate for generator record g = {spec: (axis, c, s, den), rot: {m, d}};
    returns (method, args, kwargs) or None when the form cannot express the rotation."""
    ax, c, s, den = g["spec"]
    e = [0.0, 0.0, 0.0]
    e[ax - 1] = 1.0
    theta = math.atan2(s, c)
    M = np.array(g["rot"]["m"], dtype=float) / g["rot"]["d"]
    if form == "quat":  # scalar-last, unnormalised: (axis * sin, 1 + cos) is parallel to (axis sin(t/2), cos(t/2))
        q = e + [0.0] if (s == 0 and c < 0) else [x * s for x in e] + [float(den + c)]
        return "from_quat", (q,), {}
    if form == "matrix":
        return "from_matrix", (M,), {}
    if form == "rotvec":
        return "from_rotvec", ([theta * x for x in e],), {}
    if form == "euler":
        return "from_euler", ("xyz"[ax - 1], theta), {}
    if form == "align":
        if s == 0:
            return None  # identity / half turn: initial x final = 0
        ini = [0.0, 0.0, 0.0]
        ini[ax % 3] = 1.0
        return "align_vector", (), {"initial": ini, "final": [float(v) for v in M @ np.array(ini)]}
    raise ValueError(form)


def quat_call(q, form):
    """how to call rotate for the rotation with integer quaternion q = (x, y, z, w) (general axis)."""
    x, y, z, w = q
    nrm = math.sqrt(x * x + y * y + z * z + w * w)
    vn = math.sqrt(x * x + y * y + z * z)
    M = quat_matrix(q)
    if form == "quat":
        return "from_quat", ([float(v) for v in q],), {}
    if form == "matrix":
        return "from_matrix", (M,), {}
    if form == "rotvec":
        if vn == 0:
            return "from_rotvec", ([0.0, 0.0, 0.0],), {}
        ang = 2 * math.atan2(vn, w)
        return "from_rotvec", ([ang * v / vn for v in (x, y, z)],), {}
    if form == "align":
        if vn == 0 or w == 0:
            return None
        # any vector perpendicular to the axis and its image
        axis = np.array([x, y, z], dtype=float) / vn
        k = int(np.argmin(abs(axis)))
        t = np.zeros(3)
        t[k] = 1.0
        ini = np.cross(axis, t)
        ini /= np.linalg.norm(ini)
        return "align_vector", (), {"initial": [float(v) for v in ini], "final": [float(v) for v in M @ ini]}
    return None


def quat_matrix(q):
    x, y, z, w = [float(v) for v in q]
    d = x * x + y * y + z * z + w * w
    return np.array([[w * w + x * x - y * y - z * z, 2 * (x * y - w * z), 2 * (x * z + w * y)],
                     [2 * (x * y + w * z), w * w - x * x + y * y - z * z, 2 * (y * z - w * x)],
                     [2 * (x * z - w * y), 2 * (y * z + w * x), w * w - x * x - y * y + z * z]]) / d


def dims_for(nd):
    return {1: ("x",), 2: ("x", "y"), 3: DIMS3, 4: ("x", "y", "z", "w")}[nd]


def src_array(me, f):
    """values of the original field as an integer array (*n, nv)"""
    n = tuple(me["n"])
    nd = len(n)
    if f["kind"] == "vec":
        return np.broadcast_to(np.array(f["v"], dtype=float), n + (f["nv"],)).copy()
    if f["kind"] == "aff":
        idx = np.indices(n)
        out = np.full(n, float(f["b"]))
        for j in range(min(nd, 3)):
            out += f["a"][j] * (2 * idx[j] + 1 - n[j]) * me["c"][j]
        return out[..., None]
    return fldmod.unflatten(f["src"], n, dtype=float)


def build_field(df, me, f, emb, alt=0):
    nd = len(me["n"])
    dims = dims_for(nd)
    mesh = lat.mesh_of(df, me, emb, dims=dims)
    nv = f["nv"]
    kw = {}
    mp = tuple(f["map"])
    if nv > 1 and nd == 3 and mp:
        if mp == (1, 2, 3) and alt % 2 == 0:
            pass  # default labels x, y, z and the default mapping
        elif all(v == 0 for v in mp):
            kw = dict(vdims=["a", "b", "c", "d"][:nv], vdim_mapping={})
        else:
            names = ["a", "b", "c", "d"][:nv]
            foreign = None if alt % 2 else "q"
            kw = dict(vdims=names, vdim_mapping=fldmod.scramble(
                {names[k]: (dims[mp[k] - 1] if mp[k] else foreign) for k in range(nv)}, alt // 2 + mp[0]))
    arr = src_array(me, f)
    if (alt + sum(me["n"]) + nv) % 3 == 0 and np.all(np.isfinite(arr)) and np.array_equal(arr, np.rint(arr)) and float(np.max(np.abs(arr))) < 2**40:
        # whole numbers given as an INTEGER field (dtype stated): the rotated field interpolates and mixes components, its
        # values are not whole numbers (seeded change C18-13 gave the rotated field the dtype of the original)
        arr = np.rint(arr).astype(np.int64)
        kw["dtype"] = np.int64
    if kw.get("vdim_mapping"):
        return fldmod.labelled_field(df, mesh, nv, arr, kw["vdims"], kw["vdim_mapping"], alt + sum(mp), **({"dtype": kw["dtype"]} if "dtype" in kw else {}))
    return df.Field(mesh, nvdim=nv, value=arr, **kw)


def seasoned_rotator(df, field, salt):
    """FieldRotator(field) - for every second `salt` a rotator with a PAST: it has already rotated the field while the field's
    array held other values (zeros), was cleared, and the values were written back in place.  "Clearing restores the original"
    and "rotations always start from the original field": nothing of the earlier rotation may survive.  (Seeded changes
    C18-11 kept the inverse rotation across clear_rotation, C18-12 memoised the interpolator of a scalar field.)"""
    rotor = df.FieldRotator(field)
    if int(salt) % 2:
        return rotor
    try:
        keep = field.array.copy()
        field.array[...] = 0
        try:
            rotor.rotate("from_euler", "z", 0.3, n=(2, 2, 2))
            rotor.clear_rotation()
        finally:
            field.array[...] = keep
    except Exception:  # noqa: BLE001  (judged by the calls that follow)
        return df.FieldRotator(field)
    return rotor


def centre_q(me):
    return [Fr(me["lo"][j]) + Fr(me["c"][j] * me["n"][j], 2) for j in range(len(me["n"]))]


def frac(p):
    return Fr(p[0], p[1])


# ------------------------------------------------------------------ channel R
def _tols(emb, me, half):
    cen = centre_q(me)
    coords = [emb.x(cen[j] - half[j]) for j in range(3)] + [emb.x(cen[j] + half[j]) for j in range(3)] + [emb.origin]
    big = max(abs(v) for v in coords)
    return 1e-9 * abs(emb.quantum) * max(me["c"]) + 64 * math.ulp(big)


def compare_field(part, key, wit, emb, me, f, obs, rf, clause_vals):
    """compare FieldRotator.field rf with the expected observation obs; returns class counts"""
    tn = tuple(obs["n"])
    if tuple(int(v) for v in rf.mesh.n) != tn:
        part.violation(key("C18_Region", "n"), "the rotated mesh does not have the requested resolution", wit(got_n=rf.mesh.n))
        return None
    half = [frac(h) for h in obs["half"]]
    cen = centre_q(me)
    tolx = _tols(emb, me, half)
    pmin, pmax = np.asarray(rf.mesh.region.pmin, float), np.asarray(rf.mesh.region.pmax, float)
    for j in range(3):
        if abs(pmin[j] - emb.x(cen[j] - half[j])) > tolx or abs(pmax[j] - emb.x(cen[j] + half[j])) > tolx:
            part.violation(key("C18_BoundingBox", "region"),
                           "the new region is not the bounding box of the rotated region about the same centre",
                           wit(got_pmin=pmin, got_pmax=pmax, want_half=[str(h) for h in half]))
            break
    if rf.nvdim != f["nv"]:
        part.violation(key(clause_vals, "nvdim"), "component count changed", wit(got=rf.nvdim))
        return None
    arr = fldmod.flatten(rf.array)
    scale = max(1.0, float(np.max(np.abs(src_array(me, f)))))
    tolv = 1e-7 * scale
    counts = {0: 0, 1: 0, 2: 0, 3: 0, 4: 0}
    bad = {}
    for k, c in enumerate(obs["cells"]):
        cls = c["cls"]
        counts[cls] += 1
        if not c["val"]:
            continue
        want = [float(frac(v)) for v in c["val"]]
        got = arr[k]
        if not all(abs(got[i] - want[i]) <= tolv for i in range(len(want))):
            name = {0: "outside", 1: "inside", 3: "on-centre"}[cls]
            if name not in bad:
                bad[name] = (k, [float(x) for x in got], want)
    for name, (k, got, want) in bad.items():
        cl = "C18_ZeroOutside" if name == "outside" else clause_vals
        part.violation(key(cl, name + "/" + f["kind"]),
                       {"outside": "a cell whose back-rotated centre lies outside the original region is not zero",
                        "inside": "a cell at least one cell inside does not carry Q applied to the interpolated original",
                        "on-centre": "a cell whose back-rotated centre is a source cell centre does not carry Q applied to that cell"}[name],
                       wit(cell=k, got=got, want=want))
    return counts


def exec_state(df, gens, st, emb, variant, part):
    me, f, prog, act, obs = st["mesh"], st["fld"], st["prog"], st["act"], st["obs"]
    kindcls = "dyadic" if emb.dyadic else "real"
    forms = []
    wit = lambda **kw: dict(mesh=me, fld={k: v for k, v in f.items() if k != "src"}, prog=prog, act=act,
                            embedding=emb.name, forms=forms, variant=variant, **kw)
    key = lambda clause, what: f"{clause}/{what}"
    part.count()
    # ---- refusals
    try:
        field = build_field(df, me, f, emb, alt=variant)
    except Exception as ex:
        raise core._tlc.MachineryError(f"cannot build the original field for {me} {f['kind']}: {ex!r}")
    refused, where = False, None
    try:
        rotor = seasoned_rotator(df, field, variant + sum(me["n"]) + f["nv"]) if obs["ok"] else df.FieldRotator(field)
    except Exception as ex:
        refused, where = True, "constructor:" + type(ex).__name__
    if not obs["ok"]:
        if not refused and obs["at"] == "constructor":
            why = ("ndim" if len(me["n"]) != 3 else "nvdim" if f["nv"] not in (1, 3) else "mapping")
            part.violation(key("C18_Refusals", why + "/constructor"), "FieldRotator(field) accepted a field that is not scalar/3-vector "
                           "on a 3-d mesh with every component mapped to an axis", wit())
        if not refused:
            try:
                rotor.rotate("from_euler", "z", 0.3, n=(2, 2, 2))
            except Exception as ex:
                refused, where = True, "rotate:" + type(ex).__name__
        if not refused:
            why = ("ndim" if len(me["n"]) != 3 else "nvdim" if f["nv"] not in (1, 3) else "mapping")
            part.violation(key("C18_Refusals", why), "a field that is not scalar/3-vector on a 3-d mesh with a complete "
                           "component-to-axis mapping was not refused", wit())
        part.nontriv("refusal", str(me), str(f["map"]), f["nv"], emb.name)
        part.note("refusals_checked")
        return
    if refused:
        part.violation(key("C18_Refusals", "accepts"), "a rotatable field was refused", wit(where=where))
        return
    # ---- run the program
    since = []
    for k, g in enumerate(prog):
        last = k == len(prog) - 1
        if g == "clear":
            rotor.clear_rotation()
            since = []
            forms.append("clear")
            continue
        call = None
        for off in range(len(FORMS)):
            form = FORMS[(variant + k + off) % len(FORMS)]
            call = gen_call(gens[g], form)
            if call is not None:
                break
        forms.append(form)
        part.note("form_" + form)
        method, args, kwargs = call
        n_arg = tuple(act[2]) if last else (None if (variant + k) % 2 == 0 else (3, 4, 3))
        try:
            rotor.rotate(method, *args, n=n_arg, **kwargs)
        except Exception as ex:
            part.violation(key("C18_Rotate", "raises"), f"rotate raised {type(ex).__name__}", wit(step=k, exc=repr(ex)))
            return
        since.append(g)
    rf = rotor.field
    depth = len(since)
    if act[0] in ("new", "clear"):
        same = rf is field or (rf.mesh == field.mesh and np.array_equal(rf.array, field.array))
        if not same:
            part.violation(key("C18_ClearRestores", act[0]), "the rotator does not show the original field", wit())
        counts = compare_field(part, key, wit, emb, me, f, obs, rf, "C18_ClearRestores")
        if act[0] == "clear":
            part.nontriv("clear", str(me), f["kind"], str(prog), emb.name)
        return
    clause = "C18_Values" if depth <= 1 else "C18_Composition"
    counts = compare_field(part, key, wit, emb, me, f, obs, rf, clause)
    if counts is None:
        return
    part.note("cls_outside", counts[0])
    part.note("cls_inside", counts[1] + counts[4])
    part.note("cls_band", counts[2])
    part.note("cls_on_centre", counts[3])
    part.note("cls_inside_undecided", counts[4])
    if f["kind"] == "cells" and st["rot"]["d"] > 1:
        part.note("interp_cells_compared", counts[1])
    # labels and mapping say what the components mean: they must be the original's
    if f["nv"] == 3 and (list(rf.vdims) != list(field.vdims) or dict(rf.vdim_mapping) != dict(field.vdim_mapping)):
        part.violation(key(clause, "mapping"), "component labels / component-to-axis mapping changed", wit(got=rf.vdim_mapping))
    if counts[0] + counts[1] + counts[3] > 0:
        part.nontriv(str(me), f["kind"], str(f["map"]), str(prog), str(act), emb.name, variant)
    # ---- quarter turns on cubic cells coincide with Field.rotate90
    lattice = all(gens[g]["rot"]["d"] == 1 for g in since)
    cubic = len(set(me["c"])) == 1
    if lattice and cubic and counts[2] == 0 and counts[4] == 0:
        ref = field
        for g in since:
            ax, c, s, den = gens[g]["spec"]
            a1, a2 = DIMS3[ax % 3], DIMS3[(ax + 1) % 3]
            kq = {(0, 1): 1, (-1, 0): 2, (0, -1): 3}[(c, s)]
            ref = ref.rotate90(a1, a2, k=kq)
        tolx = _tols(emb, me, [frac(h) for h in obs["half"]])
        ok = (tuple(ref.mesh.n) == tuple(rf.mesh.n)
              and np.all(np.abs(np.asarray(ref.mesh.region.pmin) - np.asarray(rf.mesh.region.pmin)) <= tolx)
              and np.all(np.abs(np.asarray(ref.mesh.region.pmax) - np.asarray(rf.mesh.region.pmax)) <= tolx))
        if ok:
            scale = max(1.0, float(np.max(np.abs(ref.array))))
            ok = bool(np.all(np.abs(ref.array - rf.array) <= 1e-7 * scale))
        if not ok:
            part.violation(key("C18_QuarterTurnEqualsRotate90", f"explicit-n/{f['kind']}"),
                           "on cubic cells a quarter-turn rotation differs from Field.rotate90", wit(rotate90_n=ref.mesh.n))
        # the same with the default target resolution
        rot2 = df.FieldRotator(field)
        for k, g in enumerate(since):
            method, args, kwargs = gen_call(gens[g], FORMS[(variant + k + 1) % 4])
            rot2.rotate(method, *args, **kwargs)
        r2 = rot2.field
        ok = tuple(r2.mesh.n) == tuple(ref.mesh.n)
        if ok:
            ok = bool(np.all(np.abs(ref.array - r2.array) <= 1e-7 * max(1.0, float(np.max(np.abs(ref.array))))))
        if not ok:
            part.violation(key("C18_QuarterTurnEqualsRotate90", f"default-n/{f['kind']}"),
                           "on cubic cells a quarter-turn rotation with the default resolution differs from Field.rotate90",
                           wit(rotate90_n=ref.mesh.n, got_n=r2.mesh.n))
        part.note("quarter_turn_vs_rotate90")
        part.count()


# ------------------------------------------------------------------ channel T driver
def _qpool():
    pool = []
    rng = range(-3, 4)
    for x in rng:
        for y in rng:
            for z in rng:
                for w in rng:
                    d = x * x + y * y + z * z + w * w
                    if 0 < d <= 30 and (x, y, z) != (0, 0, 0) and math.gcd(math.gcd(abs(x), abs(y)), math.gcd(abs(z), abs(w))) == 1:
                        pool.append((x, y, z, w))
    return pool


QPOOL = _qpool()
DMAX_T = 60


def _proj(x, den, tol):
    """project float x onto the grid of multiples of 1/den: (reduced [num, den], on-grid?)"""
    k = round(x * den)
    fr = Fr(k, den)
    return [fr.numerator, fr.denominator], bool(abs(x - k / den) <= tol)


def gen_trace(df, rnd, tid, embs):
    me = {"lo": [rnd.randrange(-20, 21) for _ in range(3)], "c": [rnd.randrange(1, 3) for _ in range(3)],
          "n": [rnd.randrange(4, 9) for _ in range(3)]}
    emb = rnd.choice(embs)
    if rnd.random() < 0.55:
        v = [0, 0, 0]
        while not any(v):
            v = [rnd.randrange(-3, 4) for _ in range(3)]
        mp = [1, 2, 3]
        rnd.shuffle(mp)
        f = {"kind": "vec", "nv": 3, "v": v, "map": mp, "a": [0, 0, 0], "b": 0, "src": []}
    else:
        a = [0, 0, 0]
        while not any(a):
            a = [rnd.randrange(-1, 2) for _ in range(3)]
        f = {"kind": "aff", "nv": 1, "v": [], "map": [], "a": a, "b": rnd.randrange(-3, 4), "src": []}
    alt = rnd.randrange(2)
    field = build_field(df, me, f, emb, alt=alt)
    rotor = seasoned_rotator(df, field, alt + sum(me["n"]))
    cen = centre_q(me)
    sumE = sum(me["c"][j] * me["n"][j] for j in range(3))
    maxE = max(me["c"][j] * me["n"][j] for j in range(3))
    scale = max(1.0, float(np.max(np.abs(src_array(me, f)))))
    D, ev, depth = 1, [], 0
    for step in range(rnd.randrange(1, 4)):
        if ev and depth and rnd.random() < 0.2:
            rotor.clear_rotation()
            rf = rotor.field
            ev.append({"op": "clear", "same": bool(rf is field or (rf.mesh == field.mesh and np.array_equal(rf.array, field.array)))})
            D, depth = 1, 0
            continue
        cand = [q for q in rnd.sample(QPOOL, 40) if D * sum(c * c for c in q) <= DMAX_T]
        if not cand:
            break
        q = cand[0]
        form = rnd.choice(["quat", "matrix", "rotvec", "align"])
        call = quat_call(q, form) or quat_call(q, "quat")
        method, args, kwargs = call
        nreq = [rnd.randrange(4, 8) for _ in range(3)] if rnd.random() < 0.5 else []
        e = {"op": "rotate", "q": list(q), "form": form, "nreq": nreq, "ok": True, "n": nreq or [1, 1, 1],
             "half": [[0, 1]] * 3, "halfok": False, "cells": []}
        try:
            rotor.rotate(method, *args, n=(tuple(nreq) if nreq else None), **kwargs)
        except Exception as ex:
            e["ok"] = False
            e["exc"] = repr(ex)
            ev.append(e)
            break
        D *= sum(c * c for c in q)
        depth += 1
        rf = rotor.field
        tn = [int(v) for v in rf.mesh.n]
        e["n"] = tn
        L = math.lcm(*tn)
        pmin, pmax = np.asarray(rf.mesh.region.pmin, float), np.asarray(rf.mesh.region.pmax, float)
        tolx = 1e-9 * max(me["c"]) + 64 * math.ulp(max(abs(emb.origin), float(np.max(np.abs(pmax))), float(np.max(np.abs(pmin))))) / abs(emb.quantum)
        hok = True
        half = []
        for j in range(3):
            h = float(Fr(float(pmax[j])) - Fr(float(pmin[j]))) / 2 / emb.quantum
            pr, ok = _proj(h, 2 * D, tolx)
            mid = float((Fr(float(pmax[j])) + Fr(float(pmin[j]))) / 2 - Fr(emb.x(cen[j]))) / emb.quantum
            hok = hok and ok and abs(mid) <= tolx
            half.append(pr)
        e["half"], e["halfok"] = half, bool(hok)
        # numbers TLC will form stay below 2^30 ?
        amax = (sum(abs(x) for x in f["a"]) + abs(f["b"]) + 1) if f["kind"] == "aff" else 1
        bound = 3 * D * (D * sumE) * (L // min(tn)) * (2 * max(tn)) * amax
        if bound < 2**30 and D * D * L * maxE * amax < 2**30 and rf.nvdim == f["nv"]:
            arr = rf.array
            idx = [tuple(rnd.randrange(tn[j]) for j in range(3)) for _ in range(32)]
            den = D if f["kind"] == "vec" else D * D * L
            for t in sorted(set(idx)):
                vals, oks = [], []
                for comp in arr[t]:
                    pr, ok = _proj(float(comp), den, 1e-7 * scale)
                    vals.append(pr)
                    oks.append(ok)
                e["cells"].append({"t": list(t), "val": vals, "ok": oks})
        # labels / mapping kept (what the components mean)
        if f["nv"] == 3 and (list(rf.vdims) != list(field.vdims) or dict(rf.vdim_mapping) != dict(field.vdim_mapping)):
            e["ok"] = False
            e["exc"] = "mapping changed"
        ev.append(e)
    return {"id": tid, "emb": emb.name, "alt": alt, "mesh": me, "fld": f, "ev": ev}


def run_traces(ctx, df, ntraces, embs):
    rnd = random.Random(ctx.seed * 104729 + 18)
    traces = [gen_trace(df, rnd, t + 1, embs) for t in range(ntraces)]
    traces = [t for t in traces if t["ev"]]
    r, verdicts, done = ctx.trace_check("C18Trace", "C18Trace.cfg", traces)
    expect = sum(len(t["ev"]) + 1 for t in traces)
    if r.distinct != expect:
        raise core._tlc.MachineryError(f"C18Trace consumed {r.distinct} states, expected {expect}")
    byid = {t["id"]: t for t in traces}
    for v in verdicts:
        _, tid, l, clause = v
        t = byid[tid]
        e = dict(t["ev"][l - 1])
        e["cells"] = e.get("cells", [])[:6]
        what = t["fld"]["kind"] if clause != "C18_ClearRestores" else "clear"
        ctx.violation(f"trace:{clause}/{what}", f"recorded execution rejected by C18Trace: clause {clause}",
                      {"mesh": t["mesh"], "fld": t["fld"], "embedding": t["emb"], "event": e,
                       "program": [x.get("q", "clear") for x in t["ev"][:l]]})
    nin = sum(d[3] for d in done)
    nout = sum(d[4] for d in done)
    nband = sum(d[5] for d in done)
    if traces and (nin == 0 or nout == 0) and not ctx.found:
        raise core._tlc.MachineryError(f"vacuity guard (T): inside={nin} outside={nout}")
    ctx.notes["T_cls_inside"] = nin
    ctx.notes["T_cls_outside"] = nout
    ctx.notes["T_cls_band"] = nband
    ctx.traces += len(traces)
    ctx.evaluations += sum(len(e.get("cells", [])) + 1 for t in traces for e in t["ev"])
    for t in traces:
        for k, e in enumerate(t["ev"]):
            if e["op"] == "rotate" and e["cells"]:
                ctx.nontriv("T", t["id"], k)
    ctx.sample({"channel": "T", "trace": {**traces[0], "ev": [{**e, "cells": e.get("cells", [])[:3]} for e in traces[0]["ev"]]}})


# ------------------------------------------------------------------ run
def embs_for(tier, seed):
    if tier == "quick":
        # (the nanometre embedding matters: seeded change C18-22 placed the guard nodes of the interpolation an ABSOLUTE 1e-9
        # beyond the faces, which is invisible on unit-sized cells and a whole cell at the nanometre scale)
        return [embed.DYADIC[1], embed.REAL[0], embed.REAL[4]] + embed.seeded(seed, 1)
    return [embed.DYADIC[1], embed.DYADIC[3], embed.REAL[0], embed.REAL[2], embed.REAL[4]] + embed.seeded(seed, 1)


def read_gens(r):
    printed = core.tlaval.extract_printed(r.stdout, "GENS")
    if not printed:
        raise core._tlc.MachineryError("MC_C18 did not print the generator table")
    return printed[0][1]


def collect(ctx):
    """everything except the final matching against known findings; returns the extra evidence dict"""
    df = core.import_library()
    embs = embs_for(ctx.tier, ctx.seed)
    r = ctx.model("MC_C18", f"C18_{ctx.tier}.cfg", dump=True, coverage=(ctx.tier == "quick" and None), timeout=3000)
    if ctx.tier == "thorough":  # per-action coverage from the small configuration (coverage slows the big run a lot)
        rc = core._tlc.run("MC_C18", "C18_quick.cfg", ctx.scratch, coverage=True, tag="C18_cov")
        for a, c in rc.coverage.items():
            ctx.coverage_actions[f"MC_C18.{a}"] = c[0]
    if r.ok:
        gens = read_gens(r)
        states = ctx.dump_states(r)
        if len(states) != r.distinct:
            raise core._tlc.MachineryError(f"dump has {len(states)} states, TLC reports {r.distinct}")
        nvar = 2
        work = []
        for si, s in enumerate(states):
            for ei in range(len(embs)):
                for v in range(nvar):
                    work.append((si, ei, (si + 2 * ei + 3 * v) % 5 if v else (si + ei) % 5))

        def chunk(items):
            part = Part()
            for si, ei, v in items:
                exec_state(df, gens, states[si], embs[ei], v, part)
                part.trace()
            if items:
                s = states[items[0][0]]
                part.sample({"channel": "R", "mesh": s["mesh"], "prog": s["prog"], "act": s["act"], "rot": s["rot"],
                             "embedding": embs[items[0][1]].name})
            return part

        ctx.pmap(chunk, work)
        for cls in ("cls_inside", "cls_outside", "cls_band", "interp_cells_compared"):
            if not ctx.notes.get(cls) and not ctx.found:  # (a violation may have cut the comparison short)
                raise core._tlc.MachineryError(f"vacuity guard: no target cell of class {cls} was compared")
    run_traces(ctx, df, 200 if ctx.tier == "quick" else 3000, embs)
    ctx.assumptions += [
        "TLC explores the bounded program space of spec/C18.tla completely (bounds in MC_C18.tla and the cfg)",
        "rotations are rational (SO(3,Q)); irrational angles and the band less than one cell from the boundary are not decided",
        "refused = FieldRotator(field) raises, or its first rotate() raises",
    ]
    return {"embeddings": [e.name for e in embs], "input_forms": FORMS}


def run(ctx):
    extra = collect(ctx)
    return core.finish(ctx, rule=RULE, extra=extra)


def replay(ctx, path):
    """re-execute the recorded run (same tier and seed, deterministic) against the current tree and report whether the
    recorded violation key is still produced"""
    with open(path) as fh:
        rp = json.load(fh)
    ctx.tier = rp.get("tier", ctx.tier)
    ctx.seed = rp.get("seed", ctx.seed)
    collect(ctx)
    hit = ctx.found.get(rp["key"])
    if hit:
        print(f"still fails: {rp['key']}: {hit['what']} (x{hit['count']})")
        print("witness:", json.dumps(hit["witness"])[:2000])
        return 1
    print(f"not reproduced: {rp['key']}")
    return 0
