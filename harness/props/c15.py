"""C15 - setting a norm rescales non-zero vectors only; orientation is the unit field.

M: TLC exhaustive on spec/C15.tla (MC_C15 + C15_<tier>.cfg): histories of norm assignments / value updates / queries
   over vectors of integer length, eight invariants C15_* and one action property.
R: every dumped state's history is re-executed on ONE real Field object under magnitude classes of the value axis
   (1e-6 ... 1e150) and float embeddings of the coordinate axis; array, norm and orientation are compared with the
   exact rationals of the specification.
T: seeded random fields (more vectors, larger meshes, random targets) driven through random histories; the observed
   arrays are projected to exact rationals and validated by TLC against spec/C15Trace.tla (clauses evaluated on the
   observed values, Normed() recomputed).
"""
import json
import math
import random
from fractions import Fraction

import numpy as np

from .. import core, embed, lat
from .. import fld as fldmod
from ..core import Part

META = dict(
    level="model_checking",
    level_text=("Exhaustive TLC model checking of spec/C15.tla: all histories (quick: 2, thorough: 3 modifying calls) of "
                "Field(..., norm=, valid='norm'), norm assignment (constant, per-cell array, array with zeros in places, affine "
                "function of position, None), value updates and the norm/orientation getters over fields of 1-4 components whose "
                "cells hold vectors of integer Euclidean length (so lengths, directions and unit vectors are exact rationals) "
                "including exact zeros; clauses C15_NonzeroGetLength, DirectionKept (all 2x2 minors vanish, dot > 0), "
                "ZeroStaysZero, NormIsEuclidean, OrientationUnitOrZero, OrientationTimesNorm, NoReapply, CtorOrder, NoneIsNoop. "
                "Every state's history is replayed on one real Field object under eight magnitude classes of the value axis "
                "(1e-6, 1, 1e150, dyadic) and compared per cell; seeded random histories on larger fields are projected to exact "
                "rationals and validated by TLC (C15Trace.tla)."),
    level_note=("Bounds: quick 4 meshes (1-3-D, <=6 cells), thorough 18 meshes (<=12 cells, 1-4-D), nvdim 1-4, 5-6 pool vectors per "
                "nvdim, 6 norm specifications. 'Exactly that length' is compared with relative tolerance 1e-12 (the library divides "
                "and multiplies in floating point); zero cells must be exactly zero. Magnitudes (1e-6 .. 1e150, squares within "
                "range) are harness-side embeddings of the value axis; behaviour of squares near under/overflow is outside the "
                "specification (DESIGN section 8). Orientation of a scalar field: only checked if the library returns one. "
                "Negative norm targets and integer dtypes are outside the property's quantifier and not probed."),
    technique="TLA+ model (Rat/Cells/C15.tla, exact rationals over integer-length vectors) + TLC exhaustive; histories replayed into code; code traces validated by TLC (C15Trace.tla)",
    design_ref="DESIGN.md section 7 C15",
)

RULE = ("states: all histories within the cfg bounds; a case is one (state, magnitude class, coordinate embedding) triple whose "
        "whole history is executed on one Field object; non-trivial = at least one modifying call or a query on a field with "
        "more than one distinct vector; distinct by (mesh, nvdim, pattern, validity, history, act, magnitude, embedding)")

REL = Fraction(1, 10**12)

# magnitude classes (value axis): name, factor for raw values, factor for norm targets
MAGS = [
    ("1/1", 1.0, 1.0),
    ("1e-6/1", 1e-6, 1.0),
    ("1e150/1", 1e150, 1.0),
    ("1/1e-6", 1.0, 1e-6),
    ("1/1e150", 1.0, 1e150),
    ("1e150/1e150", 1e150, 1e150),
    ("1e-6/1e-6", 1e-6, 1e-6),
    ("2^-20/2^30", 2.0**-20, 2.0**30),
    ("1e150/1e-6", 1e150, 1e-6),
    ("3e-6/7e149", 3e-6, 7e149),
]


def _U(mag, MV, MN):
    return MV if mag == "V" else MN


def norm_value(ns, t, m, emb, MN, variant, off):
    """Python object for a norm specification; targets `t` come from the specification"""
    n = tuple(m["n"])
    k = ns["k"]
    if k == "const":
        return ns["t"] * MN if variant % 2 == 0 else float(ns["t"]) * MN
    if k in ("array", "zeros"):
        a = (np.array(t, dtype=float) * MN).reshape(n, order="F")
        if variant % 3 == 0:
            return a[..., None]
        if variant % 3 == 1:
            return a
        return a[..., None].tolist()
    if k == "func":
        nd = len(n)
        cq = lat.cellq(m)
        coords = list(m["lo"]) + [m["lo"][d] + m["c"][d] * m["n"][d] for d in range(nd)]

        def cb(point):
            p = np.atleast_1d(np.asarray(point, dtype=float))
            q = []
            for d in range(nd):
                kq, ok = lat.proj_coord(emb, p[d], cq, coords)
                if not ok:
                    off.append([float(x) for x in p])
                q.append(kq)
            return (ns["t"] + sum(ns["a"][d] * (q[d] - m["lo"][d]) for d in range(nd))) * MN

        return cb
    raise ValueError(k)


def raw_array(vecs, n, MV):
    return fldmod.unflatten(np.array(vecs, dtype=float) * MV, n)


def cell_diff(got_rows, val, U):
    """compare observed rows with the model's cells [v, s]; -> (index, got, want) of the first bad cell or None"""
    FU = Fraction(U)
    for q, x in enumerate(val):
        num, den = x["s"]
        want = [Fraction(v * num, den) * FU for v in x["v"]]
        scale = max(abs(w) for w in want)
        for c, w in enumerate(want):
            g = got_rows[q][c]
            if not math.isfinite(g):
                return q, got_rows[q].tolist(), [float(w) for w in want]
            if scale == 0:
                if g != 0:
                    return q, got_rows[q].tolist(), [0.0] * len(want)
            elif abs(Fraction(float(g)) - w) > REL * scale:
                return q, got_rows[q].tolist(), [float(w) for w in want]
    return None


def exec_state(df, st, emb, magc, part, variant=0):
    m, nv, val, mag, valid, hist, act, obs = (st[k] for k in ("mesh", "nv", "val", "mag", "valid", "hist", "act", "obs"))
    mname, MV, MN = magc
    n = tuple(m["n"])
    names = lat.names_for(m)

    def wit(**kw):
        return dict(mesh=m, nv=nv, v0=st["v0"], valid=valid, hist=hist, act=act, magnitude=mname, embedding=emb.name,
                    variant=variant, val=val, mag=mag, obs=obs, **kw)

    def key(clause, op, cond):
        return f"{clause}/{op}/{cond}"

    mesh = lat.mesh_of(df, m, emb, dims=names)
    mask = np.array(valid, dtype=bool).reshape(n, order="F")
    off = []
    part.count()
    steps = list(hist)
    try:
        if steps and steps[0][0] == "mknormed":
            _, ns, t = steps[0]
            f = df.Field(mesh, nvdim=nv, value=raw_array(st["v0"], n, MV), norm=norm_value(ns, t, m, emb, MN, variant, off),
                         valid="norm", unit="A/m")
            steps = steps[1:]
            lastop = "ctor-norm-" + ns["k"]
            got_valid = fldmod.flatten_mask(f.valid)
            if list(map(bool, got_valid)) != list(valid):
                part.violation(key("C15_CtorOrder", lastop, "valid-norm"),
                               "Field(value, norm, valid='norm'): validity is not 'non-zero after the norm was applied'",
                               wit(got_valid=got_valid.tolist()))
        else:
            f = df.Field(mesh, nvdim=nv, value=raw_array(st["v0"], n, MV), valid=mask, unit="A/m")
            lastop = "new"
        before_last = None
        for j, h in enumerate(steps):
            if j == len(steps) - 1:
                before_last = f.array.copy()
            if h[0] == "setnorm":
                f.norm = norm_value(h[1], h[2], m, emb, MN, variant + j, off)
                lastop = "setnorm-" + h[1]["k"]
            elif h[0] == "setnone":
                f.norm = None
                lastop = "setnone"
            elif h[0] == "update":
                if (variant + j) % 3 == 0:
                    f.update_field_values(raw_array(h[2], n, MV))
                elif (variant + j) % 3 == 1:
                    f.array = raw_array(h[2], n, MV)
                else:
                    # a history with reads in between: norm and orientation are read, then the values are written
                    # IN PLACE through the array the getter returns (seeded change C15-2: a cached norm went stale)
                    f.norm.array, f.orientation.array
                    f.array[...] = raw_array(h[2], n, MV)
                lastop = "update"
            else:
                raise core._tlc.MachineryError(f"unknown history step {h}")
    except core._tlc.MachineryError:
        raise
    except Exception as ex:
        part.violation(key("history", "raises", mname), f"a call of the history raises {type(ex).__name__}", wit(exc=repr(ex)))
        return
    if off:
        part.violation(key("C15_NonzeroGetLength", "setnorm-func", "point-off-lattice"),
                       "the norm function was evaluated at a point that is not a cell centre", wit(points=off[:4]))
    U = _U(mag, MV, MN)
    if f.array.shape != n + (nv,):
        part.violation(key("shape", lastop, mname), "array shape changed", wit(got=f.array.shape))
        return
    rows = fldmod.flatten(f.array)
    bad = cell_diff(rows, val, U)
    prev = [h[0] for h in hist]
    if bad:
        q, g, w = bad
        x = val[q]
        zero_now = x["s"][0] == 0 or not any(x["v"])
        if lastop == "setnone" and before_last is not None and before_last.shape == f.array.shape \
                and np.array_equal(before_last, f.array, equal_nan=True):
            # norm = None changed nothing: the deviation stems from the call before it
            prev = prev[:-1]
            h = [x for x in hist if x[0] != "setnone"]
            lastop = "new" if not h else ("update" if h[-1][0] == "update" else
                                          ("ctor-norm-" if h[-1][0] == "mknormed" else "setnorm-") + h[-1][1]["k"])
        if lastop == "update":
            clause = "C15_NoReapply"
        elif lastop == "setnone":
            clause = "C15_NoneIsNoop"
        elif lastop == "new":
            clause = "construct"
        elif zero_now:
            clause = "C15_ZeroStaysZero"
        else:
            clause = "C15_NonzeroGetLength"
        after = "after-" + "-".join(prev[:-1]) if len(prev) > 1 else "first"
        part.violation(key(clause, lastop, f"{after}/{mname}"),
                       "after the history the array is not direction * requested length (zero cells zero)",
                       wit(cell=q, got=g, want=w))
        return
    if hist:
        part.nontriv(str(m), nv, str(st["v0"]), str(valid), str(hist), str(act), mname, emb.name)

    if act[0] == "norm":
        g = f.norm
        ok_meta = (g.nvdim == 1 and g.mesh == f.mesh and g.unit == f.unit and g.array.shape == n + (1,))
        if not ok_meta:
            part.violation(key("C15_NormIsEuclidean", "norm", "metadata"), "norm is not a one-component field on the same mesh with the same unit",
                           wit(nvdim=g.nvdim, unit=g.unit, shape=g.array.shape))
            return
        if list(map(bool, fldmod.flatten_mask(g.valid))) != list(obs["valid"]):
            part.violation(key("C15_NormIsEuclidean", "norm", "validity"), "norm does not carry the field's validity", wit(got=g.valid))
        grow = fldmod.flatten(g.array)
        FU = Fraction(U)
        for q, (num, den) in enumerate(obs["norm"]):
            w = Fraction(num, den) * FU
            gq = grow[q][0]
            if (w == 0 and gq != 0) or not math.isfinite(gq) or abs(Fraction(float(gq)) - w) > REL * w:
                part.violation(key("C15_NormIsEuclidean", "norm", f"{'scalar' if nv == 1 else 'vector'}/{mname}"),
                               "norm is not the Euclidean length of the cell's vector", wit(cell=q, got=gq, want=float(w)))
                break
        part.count()
        part.nontriv(str(m), nv, str(st["v0"]), str(valid), str(hist), "norm", mname, emb.name)
        # the same vectors as an INTEGER field (dtype given explicitly) whose squared lengths leave the integer range: the
        # norm is still the Euclidean length (seeded change C15-13 computed the sum of squares in the array's own dtype)
        if not hist and mname == "1/1" and variant % 2 == 0:
            for dt, scale in ((np.int32, 10000), (np.int64, 10**9)):
                try:
                    fi = df.Field(mesh, nvdim=nv, value=(np.array(st["v0"], dtype=np.int64) * scale).astype(dt).reshape((-1, nv)).reshape(
                        tuple(reversed(n)) + (nv,)).transpose(tuple(range(len(n) - 1, -1, -1)) + (len(n),)), dtype=dt)
                    gi = fldmod.flatten(fi.norm.array)
                except Exception as ex:  # noqa: BLE001
                    part.violation(key("C15_NormIsEuclidean", "norm", f"integer-dtype-raises/{dt.__name__}"),
                                   "norm of an integer-typed field raises", wit(exc=repr(ex)))
                    break
                for q, (num, den) in enumerate(obs["norm"]):
                    w = Fraction(num, den) * scale
                    gq = gi[q][0]
                    if (w == 0 and gq != 0) or not math.isfinite(gq) or abs(Fraction(float(gq)) - w) > Fraction(1, 10**9) * w:
                        part.violation(key("C15_NormIsEuclidean", "norm", f"{'scalar' if nv == 1 else 'vector'}/integer-dtype-{dt.__name__}"),
                                       "norm of an integer-typed field is not the Euclidean length of the cell's vector",
                                       wit(cell=q, got=gq, want=float(w), scale=scale))
                        break
                part.count()
    elif act[0] == "orientation":
        try:
            o = f.orientation
        except Exception as ex:
            if nv == 1:
                part.note("orientation_of_scalar_field_raises")
                return
            part.violation(key("C15_OrientationUnitOrZero", "orientation", "raises"), f"orientation raises {type(ex).__name__}", wit(exc=repr(ex)))
            return
        if o.array.shape != n + (nv,) or not o.mesh == f.mesh:
            part.violation(key("C15_OrientationUnitOrZero", "orientation", "shape"), "orientation is not a field of the same shape on the same mesh", wit(got=o.array.shape))
            return
        orow = fldmod.flatten(o.array)
        for q, r in enumerate(obs):
            nz = any(r["num"])
            want = [Fraction(x, r["den"]) for x in r["num"]]
            for c, w in enumerate(want):
                gq = orow[q][c]
                if (not nz and gq != 0) or not math.isfinite(gq) or abs(Fraction(float(gq)) - w) > REL:
                    part.violation(key("C15_OrientationUnitOrZero", "orientation", f"{'nonzero' if nz else 'zero'}-cell/{mname}"),
                                   "orientation is not the unit vector of a non-zero cell / zero for a zero cell",
                                   wit(cell=q, got=orow[q].tolist(), want=[float(x) for x in want]))
                    break
            else:
                continue
            break
        # orientation * norm reproduces the field (the library's own product)
        try:
            prod = fldmod.flatten((o * f.norm).array)
            bad = cell_diff(prod, val, U)
            if bad:
                part.violation(key("C15_OrientationTimesNorm", "orientation*norm", mname), "orientation * norm does not reproduce the field",
                               wit(cell=bad[0], got=bad[1], want=bad[2]))
        except Exception as ex:
            part.violation(key("C15_OrientationTimesNorm", "orientation*norm", "raises"), f"orientation * norm raises {type(ex).__name__}", wit(exc=repr(ex)))
        part.count()
        part.nontriv(str(m), nv, str(st["v0"]), str(valid), str(hist), "orientation", mname, emb.name)
        # the same directions with lengths that differ by nine orders of magnitude WITHIN the field (1e6 next to 1e-3): the
        # orientation of a cell depends on that cell only (seeded change C15-21 made the zero threshold relative to the
        # largest vector of the field)
        if not hist and mname == "1/1" and nv > 1 and variant % 2 == 1:
            try:
                scales = np.where(np.arange(len(obs)) % 2 == 0, 1e6, 1e-3)
                mixed = raw_array(st["v0"], n, 1.0) * fldmod.unflatten([[s] * nv for s in scales], n)
                om = fldmod.flatten(df.Field(mesh, nvdim=nv, value=mixed, valid=mask).orientation.array)
                for q, r in enumerate(obs):
                    want = [Fraction(x, r["den"]) for x in r["num"]]
                    if any((not any(r["num"]) and om[q][c] != 0) or not math.isfinite(om[q][c]) or abs(Fraction(float(om[q][c])) - w) > REL
                           for c, w in enumerate(want)):
                        part.violation(key("C15_OrientationUnitOrZero", "orientation", "mixed-magnitudes-in-one-field"),
                                       "orientation of a cell depends on the lengths of other cells", wit(cell=q, got=om[q].tolist(), want=[float(x) for x in want]))
                        break
            except Exception as ex:  # noqa: BLE001
                part.violation(key("C15_OrientationUnitOrZero", "orientation", "mixed-magnitudes-raises"), f"orientation raises {type(ex).__name__}", wit(exc=repr(ex)))
            part.count()


def _embs(tier, seed):
    if tier == "quick":
        return [embed.DYADIC[0], embed.REAL[0], embed.REAL[2]]
    return [embed.DYADIC[0], embed.DYADIC[1], embed.REAL[0], embed.REAL[1], embed.REAL[2], embed.REAL[3]] + embed.seeded(seed, 1)


def plan(states, embs, tier):
    per = 2 if tier == "quick" else 4
    work = []
    for si in range(len(states)):
        for r in range(per):
            work.append((si, (si + r) % len(embs), (si * per + r * 3 + si // 7) % len(MAGS), si + r))
    return work


# ------------------------------------------------------------------ channel T driver
PRIM = {
    1: [[1], [-1], [2], [-3], [7]],
    2: [[3, 4], [4, -3], [0, 1], [-1, 0], [5, 12], [8, 15], [-20, 21], [12, -5]],
    3: [[3, 4, 0], [0, 0, 1], [2, 3, 6], [1, 2, 2], [-4, 0, 3], [4, 4, 7], [2, 6, 9], [1, 4, 8], [6, -2, 3], [0, -1, 0], [2, -10, 11]],
    4: [[1, 1, 1, 1], [1, 2, 2, 4], [2, 4, 5, 6], [0, 3, 4, 0], [0, 0, 0, -1], [1, 1, 3, 5], [2, 2, 4, 5], [-1, 3, 3, 9], [4, 0, -3, 0]],
}


def _isqrt_exact(x):
    r = math.isqrt(x)
    if r * r != x:
        raise core._tlc.MachineryError(f"driver vector has no integer length: {x}")
    return r


def _rand_vecs(rnd, nv, ncell):
    rows = []
    for _ in range(ncell):
        if rnd.random() < 0.2:
            rows.append([0] * nv)
            continue
        v = list(rnd.choice(PRIM[nv]))
        rnd.shuffle(v)
        v = [x * rnd.choice([1, -1]) for x in v]
        k = rnd.choice([1, 1, 2])
        rows.append([x * k for x in v])
    return rows


def _project_cells(rows, U, dens):
    """observed float rows -> cells [v ints, s = <<1, den>>] reduced; exact?"""
    cells, exact = [], True
    FU = Fraction(U)
    for q in range(len(rows)):
        den = max(1, int(dens[q]))
        nums = []
        for g in rows[q]:
            if not math.isfinite(g):
                exact = False
                nums.append(0)
                continue
            x = Fraction(float(g)) / FU * den
            k = round(x)
            if abs(x - k) > REL * max(1, abs(k)):
                exact = False
            nums.append(int(k))
        gg = math.gcd(den, *[abs(a) for a in nums])
        if gg > 1:
            nums = [a // gg for a in nums]
            den //= gg
        if any(abs(a) > 3000 for a in nums):
            exact = False
            nums = [0 for _ in nums]
        cells.append({"v": nums, "s": [1, den]})
    return cells, exact


def _len_int(cell):
    return _isqrt_exact(sum(a * a for a in cell["v"]))


def _int_lengths(cells):
    for c in cells:
        x = sum(a * a for a in c["v"])
        if math.isqrt(x) ** 2 != x:
            return False
    return True


def gen_trace(df, rnd, tid, embs):
    nd = rnd.choice([1, 1, 2, 2, 3, 4])
    cap = {1: 30, 2: 8, 3: 4, 4: 3}[nd]
    m = {"lo": [4 * rnd.randrange(-20, 20) for _ in range(nd)], "c": [4 * rnd.randrange(1, 4) for _ in range(nd)],
         "n": [rnd.randrange(1, cap + 1) for _ in range(nd)]}
    n = tuple(m["n"])
    ncell = int(np.prod(n))
    nv = rnd.choice([1, 2, 3, 3, 4])
    emb = rnd.choice(embs)
    mname, MV, MN = rnd.choice(MAGS)
    names = lat.names_for(m)
    mesh = lat.mesh_of(df, m, emb, dims=names)
    vecs = _rand_vecs(rnd, nv, ncell)
    maskl = [rnd.random() < 0.8 for _ in range(ncell)]
    mask = np.array(maskl, dtype=bool).reshape(n, order="F")
    tr = {"id": tid, "emb": emb.name, "mag": mname, "mesh": m, "nv": nv, "v0": vecs, "valid": maskl, "ev": []}

    def targets(ns):
        k = ns["k"]
        if k == "const":
            return [ns["t"]] * ncell
        if k == "array":
            return [rnd.randrange(1, 21) for _ in range(ncell)]
        if k == "zeros":
            return [0 if rnd.random() < 0.4 else rnd.randrange(1, 21) for _ in range(ncell)]
        # func: affine form relative to pmin, evaluated on the lattice by the driver (an input, not an expectation)
        out = []
        for i in lat.all_indices(n):
            out.append(ns["t"] + sum(ns["a"][d] * (m["c"][d] * i[d] + m["c"][d] // 2) for d in range(nd)))
        return out

    def rand_ns():
        k = rnd.choice(["const", "array", "zeros", "func"])
        a = [rnd.randrange(0, 2) for _ in range(nd)] if k == "func" else [0] * nd
        ns = {"k": k, "t": rnd.randrange(1, 21) if k != "func" else rnd.randrange(1, 4), "a": a}
        t = targets(ns)
        if max(t) > 60:
            ns = {"k": "const", "t": rnd.randrange(1, 21), "a": [0] * nd}
            t = targets(ns)
        return ns, t

    try:
        return _drive(df, rnd, tid, tr, mesh, m, n, ncell, nv, emb, MV, MN, vecs, mask, targets, rand_ns)
    except core._tlc.MachineryError:
        raise
    except Exception as ex:  # a library call of the history raised: that is an observation, not a harness failure
        tr["ev"].append({"k": "raise", "exc": type(ex).__name__, "msg": str(ex)[:200]})
        return tr


def _drive(df, rnd, tid, tr, mesh, m, n, ncell, nv, emb, MV, MN, vecs, mask, targets, rand_ns):
    off = []
    cur_mag = "V"
    if rnd.random() < 0.3:
        ns, t = rand_ns()
        f = df.Field(mesh, nvdim=nv, value=raw_array(vecs, n, MV), norm=norm_value(ns, t, m, emb, MN, tid, off), valid="norm", unit="T")
        dens = [max(1, _isqrt_exact(sum(a * a for a in v))) for v in vecs]
        cells, ex = _project_cells(fldmod.flatten(f.array), MN, dens)
        tr["ev"].append({"k": "ctor", "ns": ns, "t": t, "post": cells, "exact": ex, "offlat": bool(off),
                         "valid": [bool(x) for x in fldmod.flatten_mask(f.valid)]})
        cur_mag = "N"
    else:
        f = df.Field(mesh, nvdim=nv, value=raw_array(vecs, n, MV), valid=mask, unit="T")
        cells = [{"v": list(v), "s": [1, 1]} for v in vecs]
        ex = True
    if not ex or not _int_lengths(cells):
        return tr
    for step in range(rnd.randrange(3, 8)):
        U = MV if cur_mag == "V" else MN
        r = rnd.random()
        if r < 0.4:
            ns, t = rand_ns()
            off = []
            f.norm = norm_value(ns, t, m, emb, MN, tid + step, off)
            dens = [max(1, _len_int(c)) for c in cells]
            post, ex = _project_cells(fldmod.flatten(f.array), MN, dens)
            tr["ev"].append({"k": "setnorm", "ns": ns, "t": t, "post": post, "exact": ex, "offlat": bool(off)})
            if not ex or not _int_lengths(post):
                break
            cells, cur_mag = post, "N"
        elif r < 0.5:
            f.norm = None
            post, ex = _project_cells(fldmod.flatten(f.array), U, [c["s"][1] for c in cells])
            tr["ev"].append({"k": "setnone", "post": post, "exact": ex})
            if not ex or not _int_lengths(post):
                break
            cells = post
        elif r < 0.65:
            vecs2 = _rand_vecs(rnd, nv, ncell)
            how = rnd.random()
            if how < 0.35:
                f.update_field_values(raw_array(vecs2, n, MV))
            elif how < 0.7:
                f.array = raw_array(vecs2, n, MV)
            else:
                f.norm.array, f.orientation.array      # reads in between, then an in-place write
                f.array[...] = raw_array(vecs2, n, MV)
            post, ex = _project_cells(fldmod.flatten(f.array), MV, [1] * ncell)
            tr["ev"].append({"k": "update", "vecs": vecs2, "post": post, "exact": ex})
            if not ex or not _int_lengths(post):
                break
            cells, cur_mag = post, "V"
        elif r < 0.85:
            g = f.norm
            meta = bool(g.nvdim == 1 and g.mesh == f.mesh and g.unit == f.unit and g.array.shape == n + (1,))
            vals, ex = [], True
            if meta:
                grow = fldmod.flatten(g.array)
                for q, c in enumerate(cells):
                    x = Fraction(float(grow[q][0])) / Fraction(U) * c["s"][1] if math.isfinite(grow[q][0]) else None
                    if x is None:
                        ex = False
                        vals.append([0, 1])
                        continue
                    k = round(x)
                    if abs(x - k) > REL * max(1, abs(k)):
                        ex = False
                    fr = Fraction(int(k), c["s"][1])
                    if abs(fr.numerator) > 30000 or fr.denominator > 30000:
                        # far from any length this driver can produce: report it as inexact (a verdict) instead of
                        # letting TLC's 32-bit arithmetic overflow (a machinery error)
                        ex = False
                        vals.append([0, 1])
                        continue
                    vals.append([fr.numerator, fr.denominator])
            tr["ev"].append({"k": "norm", "meta": meta, "norm": vals, "exact": ex,
                             "valid": [bool(x) for x in fldmod.flatten_mask(g.valid)] if meta else [],
                             "fvalid": [bool(x) for x in fldmod.flatten_mask(f.valid)]})
        else:
            try:
                o = f.orientation
            except Exception:
                if nv == 1:
                    continue
                tr["ev"].append({"k": "orient", "ok": False, "o": [], "exact": True, "prod": True})
                continue
            orow = fldmod.flatten(o.array)
            out, ex = [], bool(o.array.shape == n + (nv,))
            if ex:
                for q, c in enumerate(cells):
                    L = max(1, _len_int(c))
                    nums = []
                    for gq in orow[q]:
                        x = Fraction(float(gq)) * L if math.isfinite(gq) else Fraction(10**6)
                        k = round(x)
                        if abs(x - k) > REL * L:
                            ex = False
                        nums.append(int(k) if abs(k) < 10**6 else 0)
                    out.append({"num": nums, "den": L})
            try:
                prod = fldmod.flatten((o * f.norm).array)
                pr = bool(np.allclose(prod, fldmod.flatten(f.array), rtol=1e-12, atol=0.0))
            except Exception:
                pr = False
            tr["ev"].append({"k": "orient", "ok": True, "o": out, "exact": ex, "prod": pr})
    return tr


def run_traces(ctx, df, ntraces, embs):
    rnd = random.Random(ctx.seed * 7919 + 15)
    traces = [gen_trace(df, rnd, t + 1, embs) for t in range(ntraces)]
    traces = [t for t in traces if t["ev"]]
    r, verdicts, _ = ctx.trace_check("C15Trace", "C15Trace.cfg", traces)
    expect = sum(len(t["ev"]) + 1 for t in traces)
    if r.distinct != expect:
        raise core._tlc.MachineryError(f"C15Trace consumed {r.distinct} states, expected {expect}")
    byid = {t["id"]: t for t in traces}
    for v in verdicts:
        _, tid, l, clause = v
        t = byid[tid]
        e = t["ev"][l - 1]
        if clause.startswith("driver-"):
            raise core._tlc.MachineryError(f"C15 trace driver produced an inconsistent event: {clause} {json.dumps(e)[:600]}")
        op = e["k"] + ("-" + e["ns"]["k"] if "ns" in e else "")
        ctx.violation(f"trace:{clause}/{op}/{t['mag']}", f"recorded execution rejected by C15Trace: clause {clause}",
                      {"mesh": t["mesh"], "nv": t["nv"], "v0": t["v0"], "magnitude": t["mag"], "embedding": t["emb"],
                       "events_so_far": t["ev"][:l]})
    ctx.traces += len(traces)
    ctx.evaluations += sum(len(t["ev"]) for t in traces)
    for t in traces:
        for e in t["ev"]:
            ctx.nontriv("T", t["id"], json.dumps(e, sort_keys=True)[:4000])
    ctx.sample({"channel": "T", "trace": {k: v for k, v in traces[0].items() if k != "ev"}, "first_event": traces[0]["ev"][0]})
    ctx.notes["T_events"] = sum(len(t["ev"]) for t in traces)


def run(ctx):
    df = core.import_library()
    embs = _embs(ctx.tier, ctx.seed)
    r = ctx.model("MC_C15", f"C15_{ctx.tier}.cfg", dump=True)
    if r.ok:
        states = ctx.dump_states(r)
        if len(states) != r.distinct:
            raise core._tlc.MachineryError(f"dump has {len(states)} states, TLC reports {r.distinct}")
        work = plan(states, embs, ctx.tier)
        random.Random(ctx.seed).shuffle(work)

        def chunk(items):
            part = Part()
            with np.errstate(all="ignore"):
                for si, ei, mi, variant in items:
                    exec_state(df, states[si], embs[ei], MAGS[mi], part, variant)
                    part.trace()
            if items:
                si, ei, mi, _ = items[0]
                st = states[si]
                part.sample({"channel": "R", "mesh": st["mesh"], "nv": st["nv"], "hist": st["hist"], "act": st["act"],
                             "magnitude": MAGS[mi][0], "embedding": embs[ei].name})
            return part

        ctx.pmap(chunk, work)
    with np.errstate(all="ignore"):
        run_traces(ctx, df, 500 if ctx.tier == "quick" else 6000, embs)
    ctx.assumptions += [
        "TLC explores the bounded history space of spec/C15.tla completely (bounds in MC_C15.tla)",
        "vectors have integer Euclidean length so that every length, direction and unit vector is an exact rational",
        "'exactly that length' / 'unit length' are compared with relative tolerance 1e-12; zero cells must be exactly zero",
        "magnitude classes 1e-6 .. 1e150 are embeddings of the value axis; squares stay inside the float64 range",
    ]
    return core.finish(ctx, rule=RULE, extra={"embeddings": [e.name for e in embs], "magnitude_classes": [x[0] for x in MAGS]})


def _back(v):
    if isinstance(v, list):
        return tuple(_back(x) for x in v)
    if isinstance(v, dict):
        return {k: _back(x) for k, x in v.items()}
    return v


def replay(ctx, path):
    df = core.import_library()
    with open(path) as fh:
        rp = json.load(fh)
    w = rp["witness"]
    if "events_so_far" in w:
        print("trace witness (re-run ./check C15 with VERIF_SEED=%s to regenerate):" % rp.get("seed"))
        print(json.dumps(w)[:3000])
        return 1
    embs = {e.name: e for e in embed.DYADIC + embed.REAL + embed.seeded(rp.get("seed", ctx.seed), 2)}
    mags = {x[0]: x for x in MAGS}
    st = {"mesh": w["mesh"], "nv": w["nv"], "v0": _back(w["v0"]), "valid": _back(w["valid"]), "hist": _back(w["hist"]),
          "act": _back(w["act"]), "val": _back(w["val"]), "mag": w["mag"], "obs": _back(w["obs"])}
    part = Part()
    with np.errstate(all="ignore"):
        exec_state(df, st, embs[w["embedding"]], mags[w["magnitude"]], part, w.get("variant", 0))
    for k, what, _ in part["violations"]:
        print("still fails:", k, what)
    return 1 if part["violations"] else 0
