"""C11 - field FFTs are the discrete Fourier transform at the k-mesh's frequencies.

M: TLC exhaustive on spec/C11.tla (MC_C11 + C11_<tier>.cfg): every mesh of 1-4 dimensions within the bounds
   (every mix of even, odd and single-cell axes, anisotropic integer cell sizes) x Mesh.fftn / Mesh.ifftn (with
   and without a shape, wrong shapes) x Field.fftn / rfftn of every delta (cell, component), of a dense
   (Gaussian-)integer field and of a linear combination, x the three inverse-after-forward round trips.
   Spectrum values are exact: sparse sums coef * w^t, w = exp(-2 pi i / lcm(n)).
R: every dumped state is executed on the real library under the tier's float embeddings; k-cell centres,
   counts, names and units, every spectrum value (the harness only turns coef * w^t into a complex number),
   labels and mapping, recovered meshes and values are compared with the state's `obs`.
T: seeded random executions on larger meshes (to 8x7x5): observed k-cell centres, phases of delta transforms
   (projected to the exponent t), zero-frequency cells, exact Gaussian-integer spectra on meshes with n in
   {1,2,4}, real-vs-full matches, round trips and labels are logged as integers and validated by TLC against
   spec/C11Trace.tla (the property's predicates evaluated on the observed values).
"""
import cmath
import json
import math
import random

import numpy as np

from .. import core, embed, fld, lat
from ..core import Part

META = dict(
    level="model_checking",
    level_text=("Exhaustive TLC model checking of spec/C11.tla (every 1-4-dimensional mesh within the bounds of MC_C11.tla, "
                "every mix of even, odd and single-cell axes, anisotropic cells; Mesh.fftn/ifftn, Field.fftn/rfftn of every "
                "delta input, of dense Gaussian-integer fields and linear combinations, inverse-after-forward round trips; "
                "spectrum values exact as sums of roots of unity; eight invariants C11_*), every TLC state replayed on the real "
                "library under dyadic and real-world float embeddings, plus seeded random executions on meshes to 8x7x5 whose "
                "observed k-centres, phases, zero-frequency cells, exact spectra (n in {1,2,4}), round trips and labels are "
                "validated by TLC against spec/C11Trace.tla."),
    level_note=("Bounds: quick n<=8/5/3/2 (1-4-D) and <=20 cells, thorough n<=12/6/5/3 and <=48 cells; values: deltas, one dense "
                "pattern of Gaussian integers in -6..6 and one linear combination per configuration (R), random integers on "
                "larger meshes (T). Absolute spectrum values of arbitrary float fields are covered only through linearity + the "
                "phase table (DESIGN 8); scipy's ifftn/irfftn are trusted to invert fftn/rfftn for the length they are given (the "
                "model checks the shift bookkeeping and the mesh, the round trip itself is observed on the code). Spectrum floats "
                "are compared with |z - sum coef*w^t| <= 1e-10 * sum|values|. Trusted: TLC, harness/tlaval.py, the embedding "
                "adapter. Not compared (not stated by the property): unit, validity of the results."),
    technique=("TLA+ k-lattice / phase-table model (C11.tla) + TLC exhaustive; spec states replayed into code; code traces "
               "validated by TLC (C11Trace.tla); Apalache on the index core for axes of any length (C11Core.tla: frequency range, shift, inverse shift)"),
    design_ref="DESIGN.md section 7 C11",
)

RULE = ("states: all configurations within the cfg bounds x every action; a case is one (state, embedding) pair; every compared "
        "k-cell value / centre counts as an evaluation; non-trivial = the mesh has more than one cell; distinct by "
        "(mesh, nv, mapping, action, embedding)")

SCHEMES = [("x", "y", "z", "t"), ("z", "y", "x", "w"), ("b", "a", "d", "c")]
UNITS = [("m", "m", "m", "m"), ("nm", "s", "K", "rad"), ("a", "b", "c", "d")]
# labels beginning with f, t or _ on purpose: stripping the ft_ prefix must not eat them (seeded change C11-3)
VDIMS = {2: ("theta", "f"), 3: ("fx", "ty", "mz"), 4: ("t0", "f1", "a2", "tf")}
DEFAULT_VDIMS = {2: ("x", "y"), 3: ("x", "y", "z"), 4: ("v0", "v1", "v2", "v3")}
KSUF = ")$^{-1}$"


def embs_for(tier, seed):
    """one C11 lattice unit = four quanta of the shared embeddings"""
    return [embed.Embedding(e.name, 4 * e.quantum, e.origin, e.dyadic) for e in embed.for_tier(tier, seed)]


def scheme_of(m, nv):
    k = (sum(m["n"]) + m["c"][0] + abs(m["lo"][0]) + nv) % 3
    nd = len(m["n"])
    return SCHEMES[k][:nd], UNITS[(k + nv) % 3][:nd]


def vdims_of(m, nv):
    """(labels passed to the constructor or None, labels the field then carries)"""
    if nv == 1:
        return None, None
    if (sum(m["n"]) + nv) % 2 == 0:
        return list(VDIMS[nv]), list(VDIMS[nv])
    return None, list(DEFAULT_VDIMS[nv])


def to_complex(arr):
    """flat array of components of Gaussian integers -> complex numpy (ncell, nv)"""
    return np.array([[complex(x[0], x[1]) for x in row] for row in arr], dtype=complex)


def make_field(df, m, emb, carr, names, units, vdims_arg, labels, vmap, real):
    """carr: complex (ncell, nv) array in iteration order"""
    mesh = lat.mesh_of(df, m, emb, dims=list(names), units=list(units))
    nv = carr.shape[1]
    n = tuple(int(v) for v in m["n"])
    a = np.stack([carr[:, c].reshape(n, order="F") for c in range(nv)], axis=-1)
    if real:
        a = a.real.copy()
    if vmap:
        mapping = fld.scramble({labels[c]: names[vmap[c] - 1] for c in range(nv)}, sum(n) + vmap[0])
    else:
        mapping = {}
    return fld.lived(fld.labelled_field(df, mesh, nv, a, vdims_arg, mapping, sum(n) + nv + (vmap[0] if vmap else 1)), sum(n) + 3 * nv)


# ------------------------------------------------------------------ names <-> <<prefix count, id>>
def parse_dim(s, names):
    cnt = 0
    while s.startswith("k_"):
        s = s[2:]
        cnt += 1
    return [cnt, names.index(s) + 1 if s in names else 0]


def parse_unit(s, units, axis):
    cnt = 0
    while s.startswith("(") and s.endswith(KSUF):
        s = s[1:-len(KSUF)]
        cnt += 1
    return [cnt, axis if 0 < axis <= len(units) and s == units[axis - 1] else 0]


def parse_label(s, labels):
    cnt = 0
    while s.startswith("ft_"):
        s = s[3:]
        cnt += 1
    return [cnt, labels.index(s) + 1 if s in labels else 0]


def observe_names(f_or_mesh, names, units, labels):
    """project dims / units (and for fields labels / mapping) to the spec's <<count, id>> pairs"""
    mesh = f_or_mesh.mesh if hasattr(f_or_mesh, "mesh") else f_or_mesh
    dims = [parse_dim(s, list(names)) for s in mesh.region.dims]
    out = {"dims": dims, "units": [parse_unit(s, list(units), dims[i][1]) for i, s in enumerate(mesh.region.units)]}
    if hasattr(f_or_mesh, "mesh"):
        f = f_or_mesh
        vd = f.vdims
        out["vdims"] = [] if vd is None else [parse_label(s, list(labels or [])) for s in vd]
        vm = f.vdim_mapping or {}
        if vm and vd is not None and all(v in vm for v in vd) and all(isinstance(vm[v], str) for v in vd):
            out["vmap"] = [parse_dim(vm[v], list(names)) for v in vd]
        elif vm:
            out["vmap"] = [[-1, 0]]
        else:
            out["vmap"] = []
    return out


def tup(x):
    return tuple(tuple(p) for p in x)


# ------------------------------------------------------------------ k-mesh observation
def k_tol(emb, m):
    nd = len(m["n"])
    if emb.dyadic:
        return 1e-9
    coords = [m["lo"][d] for d in range(nd)] + [m["lo"][d] + m["c"][d] * m["n"][d] for d in range(nd)]
    return 1e-9 + 2 * max(float(emb.tol_q(m["c"][d], coords)) / m["c"][d] for d in range(nd))


def observe_kmesh(kmesh, m, emb):
    """counts and centres in half units of 1/(n c) per axis; (dict, exact?)"""
    nd = len(m["n"])
    tol = k_tol(emb, m)
    ok = kmesh.region.ndim == nd
    cen2 = []
    for d in range(min(nd, kmesh.region.ndim)):
        unit = 1.0 / (m["n"][d] * m["c"][d] * emb.quantum)
        xs = np.asarray(kmesh.cells[d], dtype=float) / unit * 2.0
        r = np.rint(xs)
        if not np.all(np.abs(xs - r) <= tol * np.maximum(1.0, np.abs(r))):
            ok = False
        cen2.append([int(v) for v in r])
    return {"n": [int(v) for v in kmesh.n], "cen2": cen2}, bool(ok)


def kmesh_condition(obs_km, exp_km, m):
    """condition class of a k-mesh disagreement, or None"""
    nd = len(m["n"])
    if tuple(obs_km["n"]) != tuple(exp_km["n"]) or len(obs_km["cen2"]) != nd:
        return "counts"
    bad = [d for d in range(nd) if tuple(obs_km["cen2"][d]) != tuple(exp_km["cen2"][d])]
    if not bad:
        return None
    if all(m["n"][d] == 1 for d in bad):
        if all(tuple(obs_km["cen2"][d]) == (1,) for d in bad):
            return "single-cell-axis-half"      # centre 1/(2 cell) instead of the DFT frequency 0 (D11)
        return "single-cell-axis-other"
    return "centres"


# ------------------------------------------------------------------ spectrum values
def root(t, L):
    t %= L
    if (4 * t) % L == 0:
        return (1, -1j, -1, 1j)[(4 * t) // L]
    return cmath.exp(-2j * math.pi * t / L)


def eval_terms(terms, L):
    z = 0j
    for t, re, im in terms:
        z += complex(re, im) * root(t, L)
    return z


def expected_spectrum(v, L, kn, nv):
    """spec's flat array of per-component term sets -> complex array (*kn, nv)"""
    flat = np.array([[eval_terms(cell[c], L) for c in range(nv)] for cell in v], dtype=complex)
    kn = tuple(int(x) for x in kn)
    return np.stack([flat[:, c].reshape(kn, order="F") for c in range(nv)], axis=-1)


def scale_of(carr):
    return max(1.0, float(np.abs(carr).sum(axis=0).max()))


VTOL = 1e-10


class Case:
    """one (state, embedding) execution: carries the witness and files violations"""

    def __init__(self, part, st, emb, names, units, labels):
        self.part, self.st, self.emb = part, st, emb
        self.names, self.units, self.labels = names, units, labels

    def viol(self, clause, opn, cond, what, **kw):
        st = self.st
        self.part.violation(f"{clause}/{opn}/{cond}", what,
                            dict(mesh=st["mesh"], nv=st["nv"], vmap=st["vmap"], act=st["act"], embedding=self.emb.name,
                                 dims=self.names, units=self.units, labels=self.labels, **kw))


def check_kmesh(case, kmesh, exp, m, opn):
    """C11_KCentres on a library k-mesh against the spec's record exp (with km, dims, units)"""
    obs_km, exact = observe_kmesh(kmesh, m, case.emb)
    case.part.count(sum(len(c) for c in obs_km["cen2"]))
    if not exact:
        case.viol("C11_KCentres", opn, "off-lattice", "k-cell centres are not multiples of 1/(2 n cell)", observed=obs_km)
        return False
    cond = kmesh_condition(obs_km, exp["km"], m)
    if cond:
        case.viol("C11_KCentres", opn, cond,
                  "k-cell centres are not the shifted DFT sample frequencies for n samples of spacing cell",
                  observed=obs_km, expected={"n": exp["km"]["n"], "cen2": exp["km"]["cen2"]})
    nm = observe_names(kmesh, case.names, case.units, None)
    if tup(nm["dims"]) != tup(exp["dims"]) or tup(nm["units"]) != tup(exp["units"]):
        case.viol("C11_KCentres", opn, "names", "k-mesh dimension names / units are not k_<dim> / (<unit>)$^{-1}$",
                  observed=dict(dims=list(kmesh.region.dims), units=list(kmesh.region.units)))
    return cond is None


def check_fft(case, df, f, kind, exp, m, nv, S, clause, opn):
    real = kind == "rfftn"
    try:
        g = f.rfftn() if real else f.fftn()
    except Exception as ex:
        case.viol(clause, opn, "raises", "the transform raised", exc=repr(ex))
        return None
    kn_ok = check_kmesh(case, g.mesh, exp, m, opn)
    nm = observe_names(g, case.names, case.units, case.labels)
    if tup(nm["vdims"]) != tup(exp["vdims"]) or tup(nm["vmap"]) != tup(exp["vmap"]):
        case.viol("C11_LabelsRenamed", opn, "labels", "component labels / mapping of the transform are not ft_<label> -> k_<dim>",
                  observed=dict(vdims=g.vdims, vdim_mapping=g.vdim_mapping), expected=dict(vdims=exp["vdims"], vmap=exp["vmap"]))
    kn = tuple(exp["km"]["n"])
    if tuple(int(v) for v in g.mesh.n) != kn or g.array.shape != kn + (nv,):
        if kn_ok:
            case.viol(clause, opn, "shape", "transform array does not have the k-mesh's shape", observed=g.array.shape)
        return g
    want = expected_spectrum(exp["v"], exp["L"], kn, nv)
    err = np.abs(g.array - want)
    case.part.count(int(err.size))
    if not np.all(err <= VTOL * S):
        idx = np.unravel_index(int(np.argmax(err)), err.shape)
        case.viol(clause, opn, "values",
                  "a k-cell does not hold sum over cells of value*exp(-2 pi i k.r) with k the cell's centre",
                  k_index=[int(i) for i in idx], got=complex(g.array[idx]), want=complex(want[idx]))
    return g


def exec_state(df, st, emb, part, arrays):
    m, nv, vmap, act, obs = st["mesh"], st["nv"], st["vmap"], st["act"], st["obs"]
    nd = len(m["n"])
    kind = act[0]
    names, units = scheme_of(m, nv)
    vdims_arg, labels = vdims_of(m, nv)
    case = Case(part, st, emb, names, units, labels)
    AC, BC = arrays[cfg_key(st)]
    part.count()
    mk = lambda carr, real: make_field(df, m, emb, carr, names, units, vdims_arg, labels, vmap, real)
    if kind == "new":
        f = mk(AC, False)
        if f.array.shape != tuple(m["n"]) + (nv,):
            case.viol("construct", "new", "shape", "Field does not hold an array of shape (*n, nvdim)")
        return
    mesh = lat.mesh_of(df, m, emb, dims=list(names), units=list(units))
    if kind == "mesh_fftn":
        try:
            km = mesh.fftn(rfft=bool(act[1]))
        except Exception as ex:
            case.viol("C11_KCentres", "mesh_fftn", "raises", "Mesh.fftn raised", exc=repr(ex))
            return
        check_kmesh(case, km, obs, m, "mesh_fftn" + ("_r" if act[1] else ""))
    elif kind == "mesh_ifftn":
        rf, sarg = bool(act[1]), act[2]
        shape = {"none": None, "orig": list(m["n"]), "last_plus2": list(m["n"][:-1]) + [m["n"][-1] + 2],
                 "first_plus1": [m["n"][0] + 1] + list(m["n"][1:]), "short": list(m["n"]) + [1]}[sarg]
        demanded = (sarg == "orig" and rf) or (sarg == "none" and (not rf or m["n"][-1] % 2 == 0))
        try:
            km = mesh.fftn(rfft=rf)
        except Exception as ex:
            case.viol("C11_KCentres", "mesh_fftn", "raises", "Mesh.fftn raised", exc=repr(ex))
            return
        try:
            # an EARLIER result of the same inverse transform is moved in place first (the recentring the docstring of
            # Mesh.ifftn recommends): the result examined below is a mesh of its own (seeded change C11-11 handed the same
            # cached Mesh object to every inverse transform of one k-mesh)
            try:
                first = km.ifftn(rfft=rf, shape=shape)
                first.translate(tuple(3.0 * float(e) for e in first.region.edges), inplace=True)
            except Exception:  # noqa: BLE001  (judged on the call below)
                pass
            back = km.ifftn(rfft=rf, shape=shape)
            ok = True
        except Exception as ex:
            ok, back = False, repr(ex)
        res = None
        if ok:
            res = observe_mesh_back(back, m, emb)
        good = (ok == obs["ok"]) and (not ok or (res["exact"] and tuple(res["n"]) == tuple(obs["n"])
                                                 and tuple(res["edge"]) == tuple(obs["edge"]) and res["centred"]))
        if not good:
            if demanded:
                case.viol("C11_InverseUndoes", "mesh_ifftn", "raises" if not ok else "mesh",
                          "Mesh.ifftn of the k-mesh does not give the original counts and cell size centred at the origin",
                          observed=res or back, expected=obs)
            else:
                part.note("silent:mesh_ifftn differs from the model where the property makes no claim")
    elif kind in ("fft_basis", "fft_dense", "fft_linear"):
        tk = act[1]
        real = tk == "rfftn"
        if kind == "fft_basis":
            r, c0 = act[2], act[3]
            carr = np.zeros((int(np.prod(m["n"])), nv), dtype=complex)
            carr[int(np.ravel_multi_index(tuple(r), tuple(m["n"]), order="F")), c0 - 1] = 1.0
            f = mk(carr, real)
            S, clause = 1.0, "C11_PhaseTable"
        elif kind == "fft_dense":
            carr = AC.real.astype(complex) if real else AC
            f = mk(carr, real)
            S, clause = scale_of(carr), "C11_PhaseTable"
        else:
            a, b = act[2]
            fa = mk(AC.real.astype(complex) if real else AC, real)
            fb = mk(BC.real.astype(complex) if real else BC, real)
            f = a * fa + b * fb         # built through the public field algebra (keeps labels and mapping)
            carr = a * (AC.real if real else AC) + b * (BC.real if real else BC)
            S, clause = scale_of(carr), "C11_Linear"
        check_fft(case, df, f, tk, obs, m, nv, S, clause, kind + ("_r" if real else ""))
    elif kind == "zero_freq":
        tk = act[1]
        real = tk == "rfftn"
        carr = AC.real.astype(complex) if real else AC
        f = mk(carr, real)
        try:
            g = f.rfftn() if real else f.fftn()
        except Exception as ex:
            case.viol("C11_PhaseTable", "zero_freq" + ("_r" if real else ""), "raises", "the transform raised", exc=repr(ex))
            return
        idx = tuple(obs["idx"])
        if tuple(int(v) for v in g.mesh.n) != tuple(obs["kn"]):
            return  # reported by the fft_* states
        got = g.array[idx]
        want = np.array([complex(s[0], s[1]) for s in obs["sum"]])
        part.count(nv)
        if not np.all(np.abs(got - want) <= VTOL * scale_of(carr)):
            case.viol("C11_ZeroFreqIsSum", "zero_freq" + ("_r" if real else ""), "values",
                      "the zero-frequency cell does not hold the plain sum of the field", got=got, want=want, k_index=idx)
        # the cell the library itself finds at k = 0
        try:
            lib = tuple(int(v) for v in g.mesh.point2index(tuple(0.0 for _ in range(nd))))
        except Exception as ex:
            lib = repr(ex)
        if lib != idx:
            cond = "single-cell-axis" if isinstance(lib, tuple) and all(m["n"][d] == 1 or lib[d] == idx[d] for d in range(nd)) else "index"
            case.viol("C11_ZeroFreqIsSum", "zero_freq" + ("_r" if real else ""), cond,
                      "the k-cell containing k = 0 is not the zero-frequency cell", got=lib, want=idx)
    elif kind == "real_half":
        carr = AC.real.astype(complex)
        f = mk(carr, True)
        try:
            gr, gf = f.rfftn(), f.fftn()
        except Exception as ex:
            case.viol("C11_PhaseTable", "real_half", "raises", "the transform raised", exc=repr(ex))
            return
        rn, fn = tuple(obs["rn"]), tuple(obs["fn"])
        if tuple(int(v) for v in gr.mesh.n) != rn or tuple(int(v) for v in gf.mesh.n) != fn:
            return  # reported by the fft_* states
        R = fld.flatten(gr.array)
        Fu = fld.flatten(gf.array)
        pick = np.array([k - 1 for k in obs["match"]], dtype=int)
        err = np.abs(R - Fu[pick])
        part.count(int(err.size))
        if not np.all(err <= VTOL * scale_of(carr)):
            k = int(np.argmax(err.max(axis=1)))
            case.viol("C11_RealIsHalfOfFull", "real_half", "values", "the real transform is not the matching half of the full one",
                      real_flat_index=k, full_flat_index=int(pick[k]), got=R[k], want=Fu[pick[k]])
    elif kind == "round_trip":
        way = act[1]
        real = way != "full"
        carr = AC.real.astype(complex) if real else AC
        f = mk(carr, real)
        demanded = way != "real" or m["n"][-1] % 2 == 0
        try:
            F = f.fftn() if way == "full" else f.rfftn()
            inv = (lambda: F.ifftn()) if way == "full" else (lambda: F.irfftn(shape=f.mesh.n)) if way == "real_shape" else (lambda: F.irfftn())
            try:
                first = inv()   # an earlier result whose mesh is then moved in place (see mesh_ifftn above)
                first.mesh.translate(tuple(3.0 * float(e) for e in first.mesh.region.edges), inplace=True)
            except Exception:  # noqa: BLE001
                pass
            h = inv()
            ok = True
        except Exception as ex:
            ok, h = False, repr(ex)
        if not demanded:
            if ok != obs["ok"]:
                part.note("silent:irfftn without shape on an odd last axis differs from the model (no claim)")
            return
        if not ok:
            case.viol("C11_InverseUndoes", "round_trip_" + way, "raises", "inverse(forward(f)) raised", exc=h)
            return
        res = observe_mesh_back(h.mesh, m, emb)
        if not (res["exact"] and tuple(res["n"]) == tuple(obs["n"]) and tuple(res["edge"]) == tuple(obs["edge"]) and res["centred"]):
            case.viol("C11_InverseUndoes", "round_trip_" + way, "mesh",
                      "inverse(forward(f)) is not on a mesh of the original counts and cell size centred at the origin",
                      observed=res, expected=dict(n=obs["n"], edge=obs["edge"]))
            return
        want = np.stack([carr[:, c].reshape(tuple(m["n"]), order="F") for c in range(nv)], axis=-1)
        err = np.abs(h.array - want)
        part.count(int(err.size))
        if h.array.shape != want.shape or not np.all(err <= 1e-9 * scale_of(carr)):
            case.viol("C11_InverseUndoes", "round_trip_" + way, "values", "inverse(forward(f)) does not return the original values",
                      max_error=float(err.max()) if h.array.shape == want.shape else None)
        nm = observe_names(h, names, units, labels)
        if (tup(nm["dims"]) != tup(obs["dims"]) or tup(nm["units"]) != tup(obs["units"])
                or tup(nm["vdims"]) != tup(obs["vdims"]) or tup(nm["vmap"]) != tup(obs["vmap"])):
            case.viol("C11_LabelsRenamed", "round_trip_" + way, "labels",
                      "inverse(forward(f)) does not carry the original dimension names, units, labels and mapping",
                      observed=dict(dims=list(h.mesh.region.dims), units=list(h.mesh.region.units), vdims=h.vdims,
                                    vdim_mapping=h.vdim_mapping))
    else:
        raise core._tlc.MachineryError(f"unknown action {act}")
    if int(np.prod(m["n"])) > 1:
        part.nontriv(str(m), nv, str(vmap), str(act), emb.name)


def observe_mesh_back(mesh, m, emb):
    """counts, edge lengths (lattice units) and centring of a recovered real-space mesh"""
    nd = len(m["n"])
    out = {"n": [int(v) for v in mesh.n], "edge": [], "exact": mesh.region.ndim == nd, "centred": True}
    tol = k_tol(emb, m)
    for d in range(mesh.region.ndim):
        e = (float(mesh.region.pmax[d]) - float(mesh.region.pmin[d])) / emb.quantum
        r = round(e)
        if abs(e - r) > tol * max(1.0, abs(r)):
            out["exact"] = False
        out["edge"].append(int(r))
        mid = (float(mesh.region.pmax[d]) + float(mesh.region.pmin[d])) / emb.quantum
        if abs(mid) > tol * max(1.0, abs(r)):
            out["centred"] = False
    return out


def cfg_key(st):
    m = st["mesh"]
    return (tuple(m["lo"]), tuple(m["c"]), tuple(m["n"]), st["nv"], st["pat"])


# ------------------------------------------------------------------ channel T driver
def _rand_mesh(rnd, exact_only=False):
    nd = rnd.choice([1, 2, 2, 3, 3, 3, 4])
    if exact_only:
        n = [rnd.choice([1, 2, 4]) for _ in range(nd)]
    else:
        caps = {1: [16], 2: [8, 7], 3: [8, 7, 5], 4: [3, 4, 3, 2]}[nd]
        n = [rnd.choice([1, rnd.randrange(1, cap + 1), rnd.randrange(2, cap + 1)]) for cap in caps]
        rnd.shuffle(n)
    cs = rnd.sample(range(1, 8), nd)
    return {"lo": [rnd.randrange(-60, 60) for _ in range(nd)], "c": cs, "n": n}


def _gauss_to_ints(z, tol):
    """complex array -> (re ints, im ints, exact?)"""
    re, im = np.rint(z.real), np.rint(z.imag)
    ok = bool(np.all(np.abs(z.real - re) <= tol) and np.all(np.abs(z.imag - im) <= tol))
    return re.astype(int), im.astype(int), ok


def gen_trace(df, rnd, tid, embs):
    exact_only = rnd.random() < 0.3
    m = _rand_mesh(rnd, exact_only)
    nd = len(m["n"])
    ncell = int(np.prod(m["n"]))
    nv = rnd.choice([1, 1, 2, 3, 3, 4])
    emb = rnd.choice(embs)
    names = SCHEMES[rnd.randrange(3)][:nd]
    units = UNITS[rnd.randrange(3)][:nd]
    if nv == 1:
        vdims_arg, labels = None, None
    elif rnd.random() < 0.5:
        vdims_arg, labels = list(VDIMS[nv]), list(VDIMS[nv])
    else:
        vdims_arg, labels = None, list(DEFAULT_VDIMS[nv])
    vmap = []
    if nv > 1 and nv <= nd and rnd.random() < 0.6:
        vmap = rnd.sample(range(1, nd + 1), nv)
    L = 1
    for x in m["n"]:
        L = L * x // math.gcd(L, x)
    A = [[[rnd.randrange(-9, 10), rnd.randrange(-9, 10)] for _ in range(nv)] for _ in range(ncell)]
    B = [[[rnd.randrange(-9, 10), rnd.randrange(-9, 10)] for _ in range(nv)] for _ in range(ncell)]
    AC, BC = to_complex(A), to_complex(B)
    mk = lambda carr, real: make_field(df, m, emb, carr, names, units, vdims_arg, labels, vmap, real)
    ev = []

    def fwd(f, real):
        return f.rfftn() if real else f.fftn()

    for _ in range(rnd.randrange(3, 7)):
        r = rnd.random()
        real = rnd.random() < 0.5
        try:
            _one_event(df, rnd, r, real, ev, locals())
        except Exception as ex:     # a demanded call raised: recorded, judged by the trace specification
            ev.append({"k": "raised", "real": real, "exc": f"{type(ex).__name__}: {ex}"[:200]})
    return {"id": tid, "dy": emb.dyadic, "emb": emb.name, "mesh": m, "nv": nv, "vmap": vmap, "haslab": nv > 1, "a": A, "b": B,
            "dims": list(names), "units": list(units), "labels": labels or [], "ev": ev}


def _one_event(df, rnd, r, real, ev, env):
    m, nd, ncell, nv, emb, names, units, labels, L = (env[k] for k in ("m", "nd", "ncell", "nv", "emb", "names", "units", "labels", "L"))
    AC, BC, mk, fwd, exact_only = (env[k] for k in ("AC", "BC", "mk", "fwd", "exact_only"))
    if True:
        if r < 0.15:
            mesh = lat.mesh_of(df, m, emb, dims=list(names), units=list(units))
            km = mesh.fftn(rfft=real)
            o, exact = observe_kmesh(km, m, emb)
            nm = observe_names(km, names, units, None)
            ev.append({"k": "kmesh", "real": real, "km": o, "exact": exact, "dims": nm["dims"], "units": nm["units"]})
        elif r < 0.4:
            cell = [rnd.randrange(0, x) for x in m["n"]]
            c0 = rnd.randrange(1, nv + 1)
            carr = np.zeros((ncell, nv), dtype=complex)
            carr[int(np.ravel_multi_index(tuple(cell), tuple(m["n"]), order="F")), c0 - 1] = 1.0
            g = fwd(mk(carr, real), real)
            o, exact = observe_kmesh(g.mesh, m, emb)
            arr = g.array
            kn = arr.shape[:-1]
            probes, amp_ok = [], True
            # every other component must be zero everywhere, the delta's component of modulus one
            other = np.delete(arr, c0 - 1, axis=-1)
            if other.size and np.abs(other).max() > VTOL:
                amp_ok = False
            if np.abs(np.abs(arr[..., c0 - 1]) - 1.0).max() > VTOL:
                amp_ok = False
            for _ in range(min(12, int(np.prod(kn)))):
                j = [rnd.randrange(0, x) for x in kn]
                z = arr[tuple(j) + (c0 - 1,)]
                tt = (-cmath.phase(z)) / (2 * math.pi) * L
                t = round(tt)
                if abs(tt - t) > 1e-7 * L:
                    amp_ok = False
                probes.append([j, int(t) % L])
            ev.append({"k": "basis", "real": real, "r": cell, "c": c0, "km": o, "exact": exact and amp_ok, "L": L,
                       "probes": probes})
        elif r < 0.55:
            carr = AC.real.astype(complex) if real else AC
            g = fwd(mk(carr, real), real)
            try:
                idx = [int(v) for v in g.mesh.point2index(tuple(0.0 for _ in range(nd)))]
            except Exception:
                idx = []
            if idx:
                z = g.array[tuple(idx)]
                re, im, ok = _gauss_to_ints(z, 1e-9 * scale_of(carr))
            else:
                re, im, ok = np.zeros(nv, int), np.zeros(nv, int), False
            ev.append({"k": "zero", "real": real, "idx": idx, "kn": [int(v) for v in g.mesh.n],
                       "v": [[int(a), int(b)] for a, b in zip(re, im)], "exact": ok})
        elif r < 0.7 and exact_only:
            a, b = rnd.randrange(-3, 4), rnd.randrange(-3, 4)
            carr = a * (AC.real if real else AC) + b * (BC.real if real else BC)
            f = a * mk(AC.real.astype(complex) if real else AC, real) + b * mk(BC.real.astype(complex) if real else BC, real)
            g = fwd(f, real)
            flat = fld.flatten(g.array)
            re, im, ok = _gauss_to_ints(flat, 1e-9 * scale_of(carr))
            ev.append({"k": "exact", "real": real, "a": a, "b": b, "kn": [int(v) for v in g.mesh.n],
                       "v": [[[int(x), int(y)] for x, y in zip(rr, ii)] for rr, ii in zip(re, im)], "exact": ok})
        elif r < 0.8:
            way = rnd.choice(["full", "real_shape", "real"])
            rl = way != "full"
            carr = AC.real.astype(complex) if rl else AC
            f = mk(carr, rl)
            try:
                h = f.fftn().ifftn() if way == "full" else (f.rfftn().irfftn(shape=f.mesh.n) if way == "real_shape" else f.rfftn().irfftn())
                ok = True
            except Exception:
                ok = False
            e = {"k": "round", "way": way, "ok": ok, "n": [], "edge": [], "centred": False, "exact": True, "vexact": True, "v": [],
                 "dims": [], "units": [], "vdims": [], "vmap": []}
            if ok:
                res = observe_mesh_back(h.mesh, m, emb)
                e.update(n=res["n"], edge=res["edge"], centred=res["centred"], exact=res["exact"])
                flat = fld.flatten(h.array)
                re, im, okv = _gauss_to_ints(flat.astype(complex), 1e-8 * scale_of(carr))
                e["vexact"] = okv
                e["v"] = [[[int(x), int(y)] for x, y in zip(rr, ii)] for rr, ii in zip(re, im)]
                e.update(observe_names(h, names, units, labels))
            ev.append(e)
        elif r < 0.9:
            # real vs full: match k-cells through the library's own point2index on the real cell's centre
            carr = AC.real.astype(complex)
            f = mk(carr, True)
            gr, gf = f.rfftn(), f.fftn()
            probes = []
            for _ in range(min(10, int(np.prod(gr.mesh.n)))):
                j = [rnd.randrange(0, int(x)) for x in gr.mesh.n]
                p = gr.mesh.index2point(tuple(j))
                try:
                    jf = [int(v) for v in gf.mesh.point2index(p)]
                    same = bool(np.all(np.abs(gr.array[tuple(j)] - gf.array[tuple(jf)]) <= VTOL * scale_of(carr)))
                except Exception:
                    jf, same = [], True
                probes.append([j, jf, same])
            ev.append({"k": "half", "probes": probes})
        elif r < 0.95:
            a, b = rnd.randrange(-3, 4), rnd.randrange(-3, 4)
            x = AC.real.astype(complex) if real else AC
            y = BC.real.astype(complex) if real else BC
            fa, fb = mk(x, real), mk(y, real)
            ga, gb, gc = fwd(fa, real), fwd(fb, real), fwd(a * fa + b * fb, real)
            res = np.abs(gc.array - (a * ga.array + b * gb.array)).max()
            ev.append({"k": "lin", "real": real, "a": a, "b": b, "ok": bool(res <= VTOL * (abs(a) * scale_of(x) + abs(b) * scale_of(y) + 1))})
        else:
            g = fwd(mk(AC.real.astype(complex) if real else AC, real), real)
            e = {"k": "labels", "real": real}
            e.update(observe_names(g, names, units, labels))
            ev.append(e)


def _event_opn(e):
    k = e["k"]
    suf = "_r" if e.get("real") else ""
    return {"kmesh": "mesh_fftn", "basis": "fft_basis", "zero": "zero_freq", "exact": "fft_exact", "round": "round_trip",
            "half": "real_half", "lin": "fft_linear", "labels": "fft_labels", "raised": "fft"}[k] + (("_" + e["way"]) if k == "round" else suf)


def run_traces(ctx, df, ntraces, embs):
    rnd = random.Random(ctx.seed * 7919 + 11)
    traces = [gen_trace(df, rnd, t + 1, embs) for t in range(ntraces)]
    r, verdicts, _ = ctx.trace_check("C11Trace", "C11Trace.cfg", traces)
    expect = sum(len(t["ev"]) + 1 for t in traces)
    if r.distinct != expect:
        raise core._tlc.MachineryError(f"C11Trace consumed {r.distinct} states, expected {expect}")
    byid = {t["id"]: t for t in traces}
    for v in verdicts:
        _, tid, l, name = v
        clause, cond = name
        t = byid[tid]
        e = t["ev"][l - 1]
        ctx.violation(f"trace:{clause}/{_event_opn(e)}/{cond}",
                      f"recorded execution rejected by C11Trace: clause {clause} ({cond})",
                      {k: t[k] for k in ("mesh", "nv", "vmap", "emb", "dims", "units", "labels")} | {"event": e})
    ctx.traces += len(traces)
    ctx.evaluations += sum(len(t["ev"]) for t in traces)
    for t in traces:
        for i, e in enumerate(t["ev"]):
            ctx.nontriv("T", t["id"], i, e["k"])
    ctx.sample({"channel": "T", "trace": {k: traces[0][k] for k in ("id", "emb", "mesh", "nv", "vmap")},
                "first_event": traces[0]["ev"][0]})


# ------------------------------------------------------------------ entry points
def run(ctx):
    df = core.import_library()
    # the index core (spec/C11Core.tla): Apalache discharges the shift / frequency arithmetic for axes of any length
    from .. import apalache
    apalache.run_stage(ctx, module="C11Core.tla", obligations=apalache.C11_OBLIGATIONS, claim=apalache.C11_CLAIM)
    embs = embs_for(ctx.tier, ctx.seed)
    r = ctx.model("MC_C11", f"C11_{ctx.tier}.cfg", dump=True)
    if r.ok:
        states = ctx.dump_states(r)
        if len(states) != r.distinct:
            raise core._tlc.MachineryError(f"dump has {len(states)} states, TLC reports {r.distinct}")
        arrays = {cfg_key(s): (to_complex(s["obs"]["ac"]), to_complex(s["obs"]["bc"])) for s in states if s["act"][0] == "new"}
        if ctx.tier == "thorough":
            for a, n in r.coverage.items():
                if a.startswith("Q") and n[0] == 0:
                    raise core._tlc.MachineryError(f"action {a} never fired")
        # value states are compared under fewer embeddings than geometry states (the spectrum does not depend on the embedding)
        geo = {"mesh_fftn", "mesh_ifftn", "round_trip", "new"}
        nval = 2 if ctx.tier == "quick" else 4
        work = []
        for i, s in enumerate(states):
            if s["act"][0] in geo:
                work += [(s, e) for e in range(len(embs))]
            else:
                work += [(s, (i + j * 3) % len(embs)) for j in range(nval)]

        def chunk(items):
            part = Part()
            for st, ei in items:
                exec_state(df, st, embs[ei], part, arrays)
                part.trace()
            if items:
                st = items[0][0]
                part.sample({"channel": "R", "mesh": st["mesh"], "nv": st["nv"], "act": st["act"],
                             "embedding": embs[items[0][1]].name})
            return part

        ctx.pmap(chunk, work)
    run_traces(ctx, df, 300 if ctx.tier == "quick" else 4000, embs)
    ctx.assumptions += [
        "TLC explores the bounded configuration space of spec/C11.tla completely (bounds in MC_C11.tla)",
        "scipy.fft.ifftn / irfftn invert fftn / rfftn for the output length they are given (the round trip is observed on the code)",
        "dimension names, units and component labels per configuration are harness-level choices (harness/props/c11.py)",
        "spectrum floats are compared with |z - sum coef*w^t| <= 1e-10 * sum|values|; k-coordinates with a relative tolerance",
    ]
    return core.finish(ctx, rule=RULE, extra={"embeddings": [e.name for e in embs]})


def replay(ctx, path):
    df = core.import_library()
    with open(path) as fh:
        rp = json.load(fh)
    w = rp["witness"]
    print("witness:", json.dumps(w)[:3000])
    if "event" in w:
        print("trace witness: re-run ./check C11 with VERIF_SEED=%s" % rp.get("seed"))
        return 1
    # re-execute the single-state witnesses that do not need the dumped arrays
    cand = embs_for("thorough", rp.get("seed", ctx.seed)) + embs_for("quick", rp.get("seed", ctx.seed))
    emb = {e.name: e for e in cand}[w["embedding"]]
    m = w["mesh"]
    act = w["act"]
    if act[0] == "mesh_fftn":
        mesh = lat.mesh_of(df, m, emb, dims=list(w["dims"]), units=list(w["units"]))
        o, exact = observe_kmesh(mesh.fftn(rfft=bool(act[1])), m, emb)
        cond = kmesh_condition(o, {"n": w["expected"]["n"], "cen2": [tuple(x) for x in w["expected"]["cen2"]]}, m) if "expected" in w else None
        print("replay:", "still " + cond if cond else "k-mesh agrees with the specification")
        return 1 if cond else 0
    return 1
