"""C14 - subregions always stay inside, aligned with and measured in cells of their mesh.

M: TLC exhaustive on spec/C14.tla (MC_C14 + C14_<tier>.cfg): every mesh in the bounds x four subregion layouts x
   every single transformation step (translate / scale / rotate90, in-place and copying) and short histories, and on
   the reached states the queries set_subregions (accepted / rejected-and-kept), plane and range selection, extraction
   by name, is_aligned over quarter-lattice offsets, save+reload; invariants C14_* and the action property
   C14_TransformKeepsCells.
R: every dumped state is rebuilt in the real library (initial mesh + the recorded history of steps) under the tier's
   float embeddings; the library's mesh and subregions after the history, and the result of every query, are compared
   with the specification's.
T: seeded random histories on larger meshes with random (overlapping) subregions, arbitrary integer vectors /
   reference points / candidate boxes are executed on the real library; the observed post-states are validated by TLC
   against spec/C14Trace.tla (well-formedness evaluated on the observation, results compared with the operators).
"""
import json
import os
import random
import re
import zlib
from fractions import Fraction

import numpy as np

from .. import core, embed, fld, geomheap, lat, tlaval
from ..core import Part

META = dict(
    level="model_checking",
    level_text=("Exhaustive TLC model checking of spec/C14.tla (every 1-3(4)-D mesh within the bounds of MC_C14.tla x four "
                "subregion layouts incl. overlapping/touching ones x every single translate/scale/rotate90 step in both "
                "forms and histories of 2 (3) steps; on the reached states every candidate of the subregion setter, every "
                "plane/range selection on the quarter lattice, named extraction, is_aligned over all quarter-lattice "
                "offsets, JSON/HDF5 reload; ten invariants C14_* and the action property C14_TransformKeepsCells), every "
                "TLC state rebuilt on the real Mesh API under dyadic and real-world float embeddings, plus seeded random "
                "histories validated by TLC (spec/C14Trace.tla) on the observed meshes and subregions."),
    level_note=("Bounds: quick n<=4/3/2 (1-3-D), thorough n<=5/3/3/2 (1-4-D); scale factors 2, 3, 1/2 and per-axis mixes "
                "(positive only: negative/zero factors belong to C13), k in {-1,1,2} (quick) / {-5..4} (thorough), "
                "reference point default / corner / far lattice point; histories: first step from the full alphabet, "
                "further steps from a reduced one. Rotations are compared with tolerance on every embedding. The scale "
                "class of the embedding (coordinates >= 10 / cells <= 1e-10) is part of every violation key because "
                "Mesh.is_aligned used an absolute tolerance until the fix of D18 (a relapse is then reported per scale class). Trusted: TLC, harness/tlaval.py, the "
                "embedding/projection adapter, h5py/json. "
                "Beyond the bounds: spec/C14Core.tla - Apalache proves that inside + aligned + a whole positive number of cells is an inductive "
                "invariant of translation, scaling by any non-zero integer factor about any point and the half turn on the 1-d integer "
                "lattice with unbounded coordinates (2 obligations, about 5 s each; reported in the evidence)."),
    technique="TLA+ lattice model (Lattice.tla, C14.tla) + TLC exhaustive; spec states replayed into code; code traces validated by TLC (C14Trace.tla); Apalache inductive invariant of the unbounded 1-d core (C14Core.tla), the same as a TLAPS proof (C14CoreProof.tla)",
    design_ref="DESIGN.md section 7 C14",
)

RULE = ("a case is one rebuilt TLC state (history replay + observation) or one probe of a query state, under one "
        "embedding; non-trivial = the mesh holds subregions and the state is reached by a transformation, or the "
        "query discriminates (a rejected candidate, a clipped or dropped subregion, a misaligned offset); distinct by "
        "(origin, history, call, arguments, embedding)")

FOREIGN_DIMS = ("p", "q", "r", "s")
FOREIGN_UNITS = ("km", "s", "K", "T")


# ------------------------------------------------------------------ helpers
def _thaw(v):
    if isinstance(v, tuple) and v and all(isinstance(x, tuple) and len(x) == 2 and isinstance(x[0], str) for x in v):
        return {k: _thaw(x) for k, x in v}
    if isinstance(v, tuple):
        return tuple(_thaw(x) for x in v)
    return v


def norm(v):
    if isinstance(v, dict):
        return {k: norm(x) for k, x in v.items()}
    if isinstance(v, (tuple, list)):
        return [norm(x) for x in v]
    if isinstance(v, (set, frozenset)):
        return sorted((norm(_thaw(x)) for x in v), key=lambda z: json.dumps(z, sort_keys=True))
    return v


def as_dict(f):
    if isinstance(f, tuple):
        return {i + 1: v for i, v in enumerate(f)}
    return f


def embclass(emb, coords=(), cmin=4, loose=False):
    """dyadic | dyadic-rotated (a rotation made the coordinates inexact) | real | real-big (coordinates >= 10:
    rounding noise approaches the absolute 1e-12 of is_aligned) | real-tiny (cells <= 1e-10: 1e-12 is more than 1%
    of a cell)"""
    if emb.dyadic:
        return "dyadic-rotated" if loose else "dyadic"
    if abs(emb.quantum) * cmin <= 1e-10:
        return "real-tiny"
    if max([abs(emb.origin)] + [abs(emb.x(c)) for c in coords]) >= 10.0:
        return "real-big"
    return "real"


def mesh_coords(m, subs=()):
    nd = len(m["n"])
    out = [m["lo"][d] for d in range(nd)] + [m["lo"][d] + m["c"][d] * m["n"][d] for d in range(nd)]
    for s in subs:
        out += list(s["box"]["lo"]) + list(s["box"]["hi"])
    return out


def tol_q(emb, cq, coords, loose):
    """admissible deviation (lattice units): exact on dyadic embeddings unless the history contains an operation
    that is not exact in binary floating point (rotation: cos(k pi/2))"""
    if emb.dyadic and not loose:
        return Fraction(0)
    big = max([abs(emb.origin)] + [abs(emb.x(c)) for c in coords] + [abs(emb.quantum * cq)])
    import math

    return Fraction(1, 10**9) * cq + 16 * Fraction(math.ulp(big)) / Fraction(emb.quantum)


def proj(emb, x, tol):
    q = emb.q_of(float(x))
    k = round(q)
    return int(k), bool(abs(q - k) <= tol)


def observe(emb, mesh, tol):
    """project a library mesh and its subregions to lattice integers"""
    nd = len(mesh.n)
    exact = True
    lo, c = [], []
    for d in range(nd):
        a, oa = proj(emb, mesh.region.pmin[d], tol)
        b, ob = proj(emb, mesh.region.pmax[d], tol)
        n = int(mesh.n[d])
        exact = exact and oa and ob and (b - a) % n == 0
        lo.append(a)
        c.append((b - a) // n if n else 0)
    subs = []
    meta = True
    for name, sr in mesh.subregions.items():
        bl, bh = [], []
        for d in range(nd):
            a, oa = proj(emb, sr.pmin[d], tol)
            b, ob = proj(emb, sr.pmax[d], tol)
            exact = exact and oa and ob
            bl.append(a)
            bh.append(b)
        subs.append({"name": name, "box": {"lo": bl, "hi": bh}})
        meta = meta and tuple(sr.dims) == tuple(mesh.region.dims) and tuple(sr.units) == tuple(mesh.region.units)
    return {"mesh": {"lo": lo, "c": c, "n": [int(v) for v in mesh.n]}, "subs": subs, "exact": bool(exact), "meta": bool(meta)}


def sub_regions(df, subs, emb, foreign=False):
    out = {}
    for s in subs:
        nd = len(s["box"]["lo"])
        kw = dict(dims=FOREIGN_DIMS[:nd], units=FOREIGN_UNITS[:nd]) if foreign else {}
        out[s["name"]] = lat.box_region(df, s["box"], emb, **kw)
    return out


def build_mesh(df, m, subs, emb):
    names = lat.names_for(m)
    if len(m["n"]) < 4:
        # the dimension names also rotate with the cell counts and the layout, so that every tier meets 3-d meshes
        # whose names are not x, y, z (OVF/VTK readers rename the axes: the reloaded subregions must follow - seed C14-3)
        names = lat.NAME_SCHEMES[(sum(m["n"]) + len(subs) + m["lo"][0] // 4) % 3][: len(m["n"])]
    if emb.name == "unit" and (sum(m["lo"]) + sum(m["n"]) + len(subs)) % 2 == 0:
        # integer-cornered variant (lattice coordinates are the coordinates): exercises the int64 corner paths
        nd = len(m["n"])
        flip = lat.flip_for(m)
        hi = [m["lo"][d] + m["c"][d] * m["n"][d] for d in range(nd)]
        p1 = [int(hi[d] if flip[d] else m["lo"][d]) for d in range(nd)]
        p2 = [int(m["lo"][d] if flip[d] else hi[d]) for d in range(nd)]
        sr = {s["name"]: df.Region(p1=[int(v) for v in s["box"]["lo"]], p2=[int(v) for v in s["box"]["hi"]]) for s in subs}
        mesh = df.Mesh(region=df.Region(p1=p1, p2=p2, dims=names), n=tuple(m["n"]), subregions=sr or None)
        fld.disown(sr)
        return mesh, names
    if emb.name == EIGHTH.name:
        # cells of half a unit (4 quanta of 1/8): every corner that happens to be a whole number is given as a Python int, so that
        # integer-typed subregion corners meet fractional cell faces (seeded change C14-22 clipped subregions in the integer
        # arrays of their own corners)
        def typed(vals):
            return [int(v) if float(v).is_integer() else float(v) for v in vals]
        nd = len(m["n"])
        lo = [emb.x(m["lo"][d]) for d in range(nd)]
        hi = [emb.x(m["lo"][d] + m["c"][d] * m["n"][d]) for d in range(nd)]
        sr = {s["name"]: df.Region(p1=typed([emb.x(v) for v in s["box"]["lo"]]), p2=typed([emb.x(v) for v in s["box"]["hi"]])) for s in subs}
        mesh = df.Mesh(region=df.Region(p1=typed(lo), p2=typed(hi), dims=names), n=tuple(m["n"]), subregions=sr or None)
        fld.disown(sr)
        return mesh, names
    return lat.mesh_of(df, m, emb, dims=names, flip=lat.flip_for(m), subregions=sub_regions(df, subs, emb) or None), names


EIGHTH = embed.Embedding("eighth", 0.125, 0.0, True)


def apply_step(mesh, names, h, emb):
    """one recorded step (spec record s + reference point rp) on the library mesh"""
    s = h["s"]
    nd = len(mesh.n)
    ip = bool(s["inplace"])
    geomheap.warm(mesh)     # derived attributes are read once before every step: none of them may go stale
    if s["op"] == "translate":
        return mesh.translate([emb.length(v) for v in s["v"][:nd]], inplace=ip)
    ref = None if s["ref"] == "default" else tuple(emb.x(v) for v in h["rp"])
    if s["op"] == "scale":
        fs = [Fraction(f[0], f[1]) for f in s["f"][:nd]]
        if len(set(fs)) == 1:
            f = fs[0]
            factor = int(f) if f.denominator == 1 else float(f)
        else:
            factor = tuple(int(f) if f.denominator == 1 else float(f) for f in fs)
        return mesh.scale(factor, reference_point=ref, inplace=ip)
    if s["op"] == "rotate90":
        return mesh.rotate90(names[s["a"] - 1], names[s["b"] - 1], k=int(s["k"]), reference_point=ref, inplace=ip)
    raise core._tlc.MachineryError(f"unknown step {s}")


def same_state(got, m, subs):
    return got["mesh"] == {"lo": list(m["lo"]), "c": list(m["c"]), "n": list(m["n"])} and got["subs"] == subs


# ------------------------------------------------------------------ one rebuilt state
def rebuild(df, st, emb, part, key, wit):
    """initial mesh + history on the real library; returns (mesh, names) or None after reporting"""
    o = st["origin"]
    ec = key("", "")[-1]
    try:
        mesh, names = build_mesh(df, o["mesh"], o["subs"], emb)
    except Exception as ex:
        cond = "aligned-rejected" if o["subs"] else "raises"
        part.violation(key("C14_SetterRejectsAndKeeps", "construct", cond),
                       f"Mesh(region, n, subregions=<cell-aligned boxes inside>) raised {type(ex).__name__}", wit(exc=repr(ex)))
        return None
    for h in st["hist"]:
        try:
            mesh = apply_step(mesh, names, h, emb)
        except Exception as ex:
            form = "inplace" if h["s"]["inplace"] else "copy"
            part.violation(key("C14_SubregionsWellFormed", h["s"]["op"], f"{form}-raises"),
                           f"Mesh.{h['s']['op']} of a mesh with well-formed subregions raised {type(ex).__name__}",
                           wit(exc=repr(ex), step=h))
            return None
    return mesh, names


def check_state(df, st, emb, part):
    m, subs, act = st["mesh"], st["subs"], st["act"]
    nd = len(m["n"])
    kind = act[0]
    coords = mesh_coords(m, subs) + mesh_coords(st["origin"]["mesh"], st["origin"]["subs"])
    cq = max(m["c"] + st["origin"]["mesh"]["c"])
    loose = any(h["s"]["op"] == "rotate90" for h in st["hist"])
    ec = embclass(emb, coords, min(m["c"] + st["origin"]["mesh"]["c"]), loose)
    tol = tol_q(emb, cq, coords, loose)
    exact = emb.dyadic and not loose
    # after a transformation on inexact coordinates the corners of the mesh are computed floats: a request
    # exactly on the outer boundary may fall on either side of it
    boundary_ambiguous = bool(st["hist"]) and not exact

    def key(clause, op, cond=None):
        if cond is None:
            return (clause, op, ec)
        return f"{clause}/{op}/{cond}/{ec}"

    def wit(**kw):
        kw.setdefault("probe", st["probes"][0] if len(st["probes"]) == 1 else None)
        return dict(state=dict(origin=st["origin"], hist=st["hist"], mesh=m, subs=subs, act=list(act)), embedding=emb.name, **kw)

    part.count()
    rb = rebuild(df, st, emb, part, key, wit)
    if rb is None:
        return
    mesh, names = rb

    if kind in ("new", "translate", "scale", "rotate90"):
        got = observe(emb, mesh, tol)
        if not got["exact"] or not same_state(got, m, subs):
            part.violation(key("C14_SubregionsWellFormed", kind, "state"),
                           "mesh / subregions after the history are not the ones the specification gives "
                           "(subregions must move with the mesh and stay whole cells on its lattice)",
                           wit(got=got, pmin=mesh.region.pmin, pmax=mesh.region.pmax,
                               subregions={k: (v.pmin, v.pmax) for k, v in mesh.subregions.items()}))
        elif not got["meta"]:
            part.violation(key("C14_SubregionsWellFormed", kind, "dims-units"),
                           "a subregion does not carry the mesh's dimension names / units",
                           wit(mesh=(mesh.region.dims, mesh.region.units),
                               subs={k: (v.dims, v.units) for k, v in mesh.subregions.items()}))
        if subs and st["hist"]:
            part.nontriv(str(st["origin"]), str(st["hist"]), emb.name)
        return

    if kind == "set_subregions":
        for cand, exp in st["probes"]:
            check_set(df, st, emb, part, key, wit, cand, exp, tol, names)
        return

    if kind in ("sel_centre", "sel_point", "sel_range"):
        d = act[1]
        for p, exp in st["probes"]:
            if boundary_ambiguous and p is not None:
                edge = (m["lo"][d - 1], m["lo"][d - 1] + m["c"][d - 1] * m["n"][d - 1])
                if any(x in edge for x in (p if isinstance(p, list) else (p,))):
                    part.note("boundary_probe_skipped")
                    continue
            part.count()
            if kind == "sel_centre":
                call = lambda: mesh.sel(names[d - 1])
            elif kind == "sel_point":
                call = lambda: mesh.sel(**{names[d - 1]: emb.x(p)})
            else:
                call = lambda: mesh.sel(**{names[d - 1]: (emb.x(p[0]), emb.x(p[1]))})
            w = lambda **kw: wit(probe=[p, exp], **kw)
            try:
                res = call()
                ok = True
            except Exception as ex:
                ok, res = False, ex
            if not exp["ok"]:
                if ok:
                    part.violation(key("C14_SelKeepsOverlappingClipped", kind, "outside-accepted"), "a selection outside the region is accepted", w())
                continue
            if not ok:
                cond = "raises"
                if kind == "sel_range":
                    faces = set()
                    for r in exp["alt"]:
                        faces.add(r["mesh"]["lo"][d - 1])
                        faces.add(r["mesh"]["lo"][d - 1] + r["mesh"]["c"][d - 1] * r["mesh"]["n"][d - 1])
                    if any(s["box"]["lo"][d - 1] in faces or s["box"]["hi"][d - 1] in faces for s in subs):
                        cond = "raises-bound-on-subregion-face"
                part.violation(key("C14_SelKeepsOverlappingClipped", kind, cond),
                               f"a selection inside the region of a mesh with well-formed subregions raised {type(res).__name__}", w(exc=repr(res)))
                continue
            got = observe(emb, res, tol)
            cands = [exp["r"]] if exact else exp["alt"]
            if not got["exact"] or not any(same_state(got, r["mesh"], r["subs"]) for r in cands):
                part.violation(key("C14_SelKeepsOverlappingClipped", kind, "result"),
                               "the selection does not keep exactly the overlapping subregions, clipped to it", w(got=got))
            elif not got["meta"]:
                part.violation(key("C14_SubregionsWellFormed", kind, "dims-units"), "a subregion of the selection does not carry the result mesh's dims/units", w())
            if len(exp["r"]["subs"]) != len(subs) or any(a["box"] != b["box"] for a, b in zip(exp["r"]["subs"], subs)):
                part.nontriv(str(st["origin"]), str(st["hist"]), kind, str(d), str(p), emb.name)
        return

    if kind == "getitem_name":
        try:
            res = mesh[act[1]]
        except Exception as ex:
            part.violation(key("C14_NamedExtraction", kind, "raises"), f"mesh[name] raised {type(ex).__name__}", wit(exc=repr(ex)))
            return
        got = observe(emb, res, tol)
        em = st["probes"][0][1]["mesh"]
        if not got["exact"] or got["mesh"] != em:
            part.violation(key("C14_NamedExtraction", kind, "result"),
                           "mesh[name] is not the mesh of exactly that subregion with the parent's cell size",
                           wit(got=got, probe=st["probes"][0]))
        elif tuple(res.region.dims) != tuple(mesh.region.dims) or tuple(res.region.units) != tuple(mesh.region.units):
            part.violation(key("C14_NamedExtraction", kind, "dims-units"), "mesh[name] does not carry the parent's dims/units", wit())
        if em["n"] != m["n"]:
            part.nontriv(str(st["origin"]), str(st["hist"]), kind, act[1], emb.name)
        return

    if kind == "is_aligned":
        for p, e in st["probes"]:
            part.count()
            other = lat.mesh_of(df, e["other"], emb, dims=names)
            got = bool(mesh.is_aligned(other))
            back = bool(other.is_aligned(mesh))
            w = lambda **kw: wit(probe=[p, e], **kw)
            if got != e["aligned"]:
                cond = "aligned-reported-unaligned" if e["aligned"] else "unaligned-reported-aligned"
                part.violation(key("C14_IsAligned", kind, cond),
                               "is_aligned differs from: equal cell sizes and origins a whole number of cells apart", w(got=got))
            elif back != got:
                part.violation(key("C14_IsAligned", kind, "not-symmetric"), "a.is_aligned(b) != b.is_aligned(a)", w(got=got, back=back))
            if not e["aligned"] or p[0] != 0:
                part.nontriv(str(m), kind, str(act), str(p), emb.name)
        return

    if kind == "reload":
        check_reload(df, st, emb, part, key, wit, mesh, names, act[1], tol)
        return
    raise core._tlc.MachineryError(f"unknown action {act}")


def check_set(df, st, emb, part, key, wit, cand, exp, tol, names):
    m, subs = st["mesh"], st["subs"]
    part.count()
    w = lambda **kw: wit(probe=[cand, exp], **kw)
    rb = rebuild(df, st, emb, part, key, wit)  # a fresh mesh per candidate: the setter mutates
    if rb is None:
        return
    mesh, _ = rb
    regs = sub_regions(df, cand["subs"], emb, foreign=cand["foreign"])
    try:
        mesh.subregions = regs
        ok, err = True, None
    except Exception as ex:
        ok, err = False, ex
    if ok != exp["ok"]:
        cond = "aligned-rejected" if exp["ok"] else "malformed-accepted"
        part.violation(key("C14_SetterRejectsAndKeeps", "set_subregions", cond),
                       "the subregion setter accepts/rejects differently from: inside, whole cells, on the lattice",
                       w(exc=repr(err), got=observe(emb, mesh, tol)["subs"]))
    got = observe(emb, mesh, tol)
    want = exp["after"] if ok == exp["ok"] else (cand["subs"] if ok else subs)
    if not got["exact"] or got["subs"] != want:
        cond = "previous-not-kept" if not ok else "after-accept"
        part.violation(key("C14_SetterRejectsAndKeeps", "set_subregions", cond),
                       "after a rejected assignment the previous subregions must be kept; after an accepted one the mesh holds the new ones",
                       w(got=got["subs"], want=want))
    elif not got["meta"]:
        part.violation(key("C14_SubregionsWellFormed", "set_subregions", "dims-units"),
                       "stored subregions do not carry the mesh's dimension names / units", w())
    # the constructor runs the same test
    try:
        o = df.Mesh(region=mesh.region, n=tuple(int(v) for v in mesh.n), subregions=regs)
        ok2 = True
    except Exception:
        ok2 = False
    if ok2 != exp["ok"]:
        cond = "aligned-rejected" if exp["ok"] else "malformed-accepted"
        part.violation(key("C14_SetterRejectsAndKeeps", "construct", cond),
                       "Mesh(..., subregions=...) accepts/rejects differently from: inside, whole cells, on the lattice", w())
    if not exp["ok"] or cand["foreign"]:
        part.nontriv(str(st["origin"]), str(st["hist"]), "set", json.dumps(cand, sort_keys=True), emb.name)


def check_reload(df, st, emb, part, key, wit, mesh, names, fmt, tol):
    m, subs = st["mesh"], st["subs"]
    nd = len(m["n"])
    tmp = os.path.join(_scratch(), f"c14-{os.getpid()}-{zlib.crc32(repr((st['origin'], st['hist'], emb.name, fmt)).encode())}")
    results = []
    try:
        if fmt == "json":
            fn = tmp + ".ovf"  # only the side-car is written
            try:
                mesh.save_subregions(fn)
                m2 = df.Mesh(region=mesh.region, n=tuple(int(v) for v in mesh.n))
                m2.load_subregions(fn)
                results.append(("json", m2))
            except Exception as ex:
                results.append(("json", ex))
            if nd == 3:
                f = df.Field(mesh, nvdim=1, value=1.0)
                for ext in ("ovf", "vtk"):
                    try:
                        f.to_file(f"{tmp}.{ext}")
                        results.append((ext, df.Field.from_file(f"{tmp}.{ext}").mesh))
                    except Exception as ex:
                        results.append((ext, ex))
        else:
            f = df.Field(mesh, nvdim=1, value=1.0)
            try:
                f.to_file(tmp + ".h5")
                results.append(("hdf5", df.Field.from_file(tmp + ".h5").mesh))
            except Exception as ex:
                results.append(("hdf5", ex))
    finally:
        for ext in (".ovf", ".vtk", ".h5", ".ovf.subregions.json", ".vtk.subregions.json", ".h5.subregions.json"):
            try:
                os.remove(tmp + ext)
            except OSError:
                pass
    for how, res in results:
        part.count()
        if isinstance(res, Exception):
            part.violation(key("C14_ReloadIdentity", "reload", f"{how}-raises"),
                           f"saving and reloading a mesh with well-formed subregions raised {type(res).__name__}", wit(exc=repr(res), how=how))
            continue
        # text formats (vtk txt is not used; ovf bin8 and hdf5 are exact) - compare with the usual tolerance
        got = observe(emb, res, tol if how in ("json", "hdf5") else max(tol, tol_q(emb, max(m["c"]), mesh_coords(m, subs), True)))
        if not got["exact"] or got["subs"] != subs:
            part.violation(key("C14_ReloadIdentity", "reload", f"{how}-subregions"),
                           "reloaded subregions differ from the saved ones", wit(got=got, how=how))
        elif not got["meta"]:
            part.violation(key("C14_SubregionsWellFormed", "reload", f"{how}-dims-units"),
                           "reloaded subregions do not carry the mesh's dims/units", wit(how=how))
    part.nontriv(str(st["origin"]), str(st["hist"]), "reload", fmt, emb.name)


_SCRATCH = [None]


def _scratch():
    return _SCRATCH[0]


# ------------------------------------------------------------------ state normalisation
def norm_state(st):
    """TLC state -> JSON-safe dict; the query table becomes a list of (probe, expectation) pairs"""
    out = {"mesh": norm(st["mesh"]), "subs": norm(st["subs"]), "hist": norm(st["hist"]), "origin": norm(st["origin"]),
           "act": list(st["act"])}
    kind, obs = st["act"][0], st["obs"]
    if kind == "set_subregions":
        pr = [(norm(_thaw(c)), norm(e)) for c, e in as_dict(obs).items()]
        pr.sort(key=lambda ce: json.dumps(ce[0], sort_keys=True))
    elif kind in ("sel_centre", "getitem_name"):
        pr = [(None, norm(obs))]
    elif kind in ("sel_point", "sel_range", "is_aligned"):
        pr = [(list(p) if isinstance(p, tuple) else p, norm(e)) for p, e in sorted(as_dict(obs).items())]
    else:
        pr = [(None, None)]
    out["probes"] = pr
    return out


_HDR = re.compile(r"^State \d+:\s*$", re.M)


def embs_for_state(kind, embs, k, tier):
    """query states: all embeddings (quick: a rotating dyadic + two real ones for the big tables);
    transformation states: a rotating subset (quick 1 dyadic + 2 real, thorough 2 + 2)"""
    dy = [i for i, e in enumerate(embs) if e.dyadic]
    re_ = [i for i, e in enumerate(embs) if not e.dyadic]
    if kind in ("translate", "scale", "rotate90"):
        if tier == "quick":
            return [dy[k % len(dy)], re_[k % len(re_)], re_[(k + 2) % len(re_)]]
        return [dy[k % len(dy)], dy[(k + 1) % len(dy)], re_[k % len(re_)], re_[(k + 3) % len(re_)]]
    if tier == "quick" and kind in ("sel_range", "set_subregions", "is_aligned", "sel_point"):
        return [dy[k % len(dy)], re_[k % len(re_)], re_[(k + 1) % len(re_)]]
    return list(range(len(embs)))


# ------------------------------------------------------------------ channel T
def gen_trace(df, rnd, tid, embs):
    nd = rnd.choice([1, 2, 2, 3, 3, 4])
    cap = {1: 14, 2: 7, 3: 4, 4: 3}[nd]
    m = {"lo": [rnd.randrange(-200, 200) for _ in range(nd)],
         "c": [4 * rnd.randrange(1, 7) for _ in range(nd)],
         "n": [rnd.randrange(1, cap + 1) for _ in range(nd)]}
    emb = rnd.choice(embs)

    def rand_aligned(mm):
        fr = [rnd.randrange(0, mm["n"][d]) for d in range(nd)]
        to = [rnd.randrange(fr[d] + 1, mm["n"][d] + 1) for d in range(nd)]
        return {"lo": [mm["lo"][d] + mm["c"][d] * fr[d] for d in range(nd)], "hi": [mm["lo"][d] + mm["c"][d] * to[d] for d in range(nd)]}

    subs = [{"name": f"s{k + 1}", "box": rand_aligned(m)} for k in range(rnd.choice([0, 1, 2, 2, 3]))]
    coords0 = mesh_coords(m, subs)
    cls = embclass(emb, coords0, min(m["c"]))
    try:
        mesh, names = build_mesh(df, m, subs, emb)
    except Exception as ex:
        # the library refuses well-formed subregions at construction: one event, then nothing more to do
        return {"id": tid, "dy": emb.dyadic, "cls": cls, "emb": emb.name, "mesh": m, "subs": [],
                "ev": [{"k": "set", "cand": subs, "ok": False, "exc": type(ex).__name__, "dy": emb.dyadic, "cls": cls,
                        "post": {"mesh": m, "subs": [], "exact": True, "meta": True}}]}
    cur_m, cur_s = m, subs
    loose = False
    stepped = False
    ev = []

    def stamp(e, coords):
        e["dy"] = bool(emb.dyadic and not loose)
        e["cls"] = embclass(emb, coords0 + coords, min(m["c"] + cur_m["c"]), loose)
        return e

    for _ in range(rnd.randrange(3, 8)):
        cq = max(cur_m["c"])
        coords = mesh_coords(cur_m, cur_s)
        r = rnd.random()
        hi = [cur_m["lo"][d] + cur_m["c"][d] * cur_m["n"][d] for d in range(nd)]
        if r < 0.4:
            # a transformation step
            ip = rnd.random() < 0.5
            kind = rnd.choice(["translate", "scale", "rotate90"] if nd >= 2 else ["translate", "scale"])
            e = {"k": "step", "op": kind, "inplace": ip}
            if kind == "translate":
                e["v"] = [rnd.randrange(-60, 60) for _ in range(nd)]
                call = lambda: mesh.translate([emb.length(v) for v in e["v"]], inplace=ip)
                newc = coords + [c + v for c, v in zip(coords, e["v"] * (len(coords) // nd))]
            else:
                dflt = rnd.random() < 0.4
                centre = [cur_m["lo"][d] + (cur_m["c"][d] // 2) * cur_m["n"][d] for d in range(nd)]
                rp = centre if dflt else [rnd.randrange(cur_m["lo"][d] - 40, hi[d] + 40) for d in range(nd)]
                e["rp"] = rp
                e["dflt"] = dflt
                ref = None if dflt else tuple(emb.x(v) for v in rp)
                if kind == "scale":
                    opts_ax = []
                    for d in range(nd):
                        opts = [(1, 1), (2, 1), (3, 1)]
                        allc = [cur_m["lo"][d], hi[d]] + [s["box"]["lo"][d] for s in cur_s] + [s["box"]["hi"][d] for s in cur_s]
                        if cur_m["c"][d] % 8 == 0 and all((x - rp[d]) % 2 == 0 for x in allc):
                            opts.append((1, 2))
                        if max(abs(x - rp[d]) for x in allc) > 3000 or cur_m["c"][d] > 200:
                            opts = [o for o in opts if o in ((1, 1), (1, 2))]
                        opts_ax.append(opts)
                    common = [o for o in opts_ax[0] if all(o in oa for oa in opts_ax)]
                    if rnd.random() < 0.5 and common:
                        f = [list(rnd.choice(common))] * nd
                    else:
                        f = [list(rnd.choice(oa)) for oa in opts_ax]
                    e["f"] = f
                    fl = [fi[0] if fi[1] == 1 else fi[0] / fi[1] for fi in f]
                    factor = fl[0] if len(set(map(tuple, f))) == 1 else tuple(fl)
                    call = lambda: mesh.scale(factor, reference_point=ref, inplace=ip)
                else:
                    a, b = rnd.sample(range(nd), 2)
                    e.update(a=a + 1, b=b + 1, kq=rnd.randrange(-5, 6))
                    call = lambda: mesh.rotate90(names[a], names[b], k=e["kq"], reference_point=ref, inplace=ip)
                    loose = True
                newc = coords + rp
            try:
                res = call()
                mesh = res
                far = [3 * c - 2 * p for c, p in zip(coords, (e.get("rp") or [0] * nd) * (len(coords) // nd))] if kind != "translate" else []
                tol = tol_q(emb, max(cq, 3 * cq), newc + far, loose)
                post = observe(emb, mesh, tol)
                e.update(ok=True, post=post)
                stepped = True
                if post["exact"] and all(c >= 4 and c % 4 == 0 for c in post["mesh"]["c"]):
                    cur_m, cur_s = post["mesh"], post["subs"]
                else:
                    ev.append(stamp(e, newc))
                    break
            except Exception as ex:
                e.update(ok=False, exc=type(ex).__name__, post={"mesh": cur_m, "subs": cur_s, "exact": True, "meta": True})
                ev.append(stamp(e, newc))
                break  # an in-place failure may leave the mesh half-transformed: stop this trace
            ev.append(stamp(e, newc))
            continue
        tol = tol_q(emb, cq, coords, loose)
        if r < 0.55:
            # assignment of a candidate dictionary
            cand = []
            for k in range(rnd.choice([1, 1, 2])):
                if rnd.random() < 0.5:
                    bx = rand_aligned(cur_m)
                else:
                    lo = [rnd.randrange(cur_m["lo"][d] - cur_m["c"][d], hi[d]) for d in range(nd)]
                    bx = {"lo": lo, "hi": [lo[d] + rnd.choice([cur_m["c"][d], 2 * cur_m["c"][d], rnd.randrange(1, 3 * cur_m["c"][d])]) for d in range(nd)]}
                    if rnd.random() < 0.5:  # defect along one axis only
                        good = rand_aligned(cur_m)
                        ax = rnd.randrange(nd)
                        bx = {"lo": [bx["lo"][d] if d == ax else good["lo"][d] for d in range(nd)],
                              "hi": [bx["hi"][d] if d == ax else good["hi"][d] for d in range(nd)]}
                cand.append({"name": f"c{k}", "box": bx})
            e = {"k": "set", "cand": cand}
            try:
                mesh.subregions = sub_regions(df, cand, emb)
                e["ok"] = True
            except Exception as ex:
                e.update(ok=False, exc=type(ex).__name__)
            e["post"] = observe(emb, mesh, tol)
            ev.append(stamp(e, coords))
            if e["post"]["exact"]:
                cur_s = e["post"]["subs"]
            else:
                break
        elif r < 0.75 and cur_s:
            d = rnd.randrange(nd)

            # after a step on inexact coordinates the outer boundary is a computed float: stay off it
            off = 1 if (stepped and not (emb.dyadic and not loose)) else 0

            def coord():
                q = rnd.random()
                if q < 0.45:
                    return cur_m["lo"][d] + cur_m["c"][d] * rnd.randrange(off, cur_m["n"][d] + 1 - off) if cur_m["n"][d] > off else cur_m["lo"][d] + 1
                if q < 0.5:
                    return rnd.choice([cur_m["lo"][d] - 1, hi[d] + 1])
                return rnd.randrange(cur_m["lo"][d] + off, hi[d] + 1 - off)

            if nd >= 2 and rnd.random() < 0.35:
                x = coord()
                e = {"k": "sel_point", "d": d + 1, "x": x}
                call = lambda: mesh.sel(**{names[d]: emb.x(x)})
            else:
                x1, x2 = coord(), coord()
                e = {"k": "sel_range", "d": d + 1, "x1": x1, "x2": x2}
                call = lambda: mesh.sel(**{names[d]: (emb.x(x1), emb.x(x2))})
            try:
                res = call()
                e.update(ok=True, post=observe(emb, res, tol))
            except Exception as ex:
                e.update(ok=False, exc=type(ex).__name__, post={"mesh": cur_m, "subs": [], "exact": True, "meta": True})
            ev.append(stamp(e, coords))
        elif r < 0.8 and cur_s:
            s = rnd.choice(cur_s)
            e = {"k": "getitem_name", "name": s["name"]}
            try:
                res = mesh[s["name"]]
                o = observe(emb, res, tol)
                e.update(ok=True, mesh=o["mesh"], exact=o["exact"])
            except Exception as ex:
                e.update(ok=False, exc=type(ex).__name__, mesh=cur_m, exact=True)
            ev.append(stamp(e, coords))
        elif r < 0.93:
            same = rnd.random() < 0.8
            oc = list(cur_m["c"]) if same else [c + 4 * rnd.choice([0, 1]) for c in cur_m["c"]]
            off = [rnd.choice([0, cur_m["c"][d] * rnd.randrange(-3, 4), rnd.randrange(-2 * cur_m["c"][d], 2 * cur_m["c"][d])]) for d in range(nd)]
            other = {"lo": [cur_m["lo"][d] + off[d] for d in range(nd)], "c": oc, "n": [rnd.randrange(1, 5) for _ in range(nd)]}
            om = lat.mesh_of(df, other, emb, dims=names)
            ev.append(stamp({"k": "is_aligned", "other": other, "stretch": 0, "got": bool(mesh.is_aligned(om)), "back": bool(om.is_aligned(mesh))},
                            coords + mesh_coords(other)))
            if rnd.random() < 0.5:
                # the same origin and cell count, many cells, but the upper corner 4e-4 of a cell beyond the lattice (cell sizes
                # differ by 8e-6 relative): the cells do not agree and the upper faces are off the lattice - not aligned, from
                # either side (seeded change C14-21 compared the cell sizes loosely and the lower corners only)
                d = rnd.randrange(nd)
                big = {"lo": list(cur_m["lo"]), "c": list(cur_m["c"]), "n": [1] * nd}
                big["n"][d] = 50
                p1 = [emb.x(big["lo"][j]) for j in range(nd)]
                p2 = [emb.x(big["lo"][j] + big["c"][j] * big["n"][j]) for j in range(nd)]
                p2[d] = p2[d] + 4e-4 * emb.length(big["c"][d])
                try:
                    sm = df.Mesh(region=df.Region(p1=p1, p2=p2, dims=names), n=tuple(big["n"]))
                    ev.append(stamp({"k": "is_aligned", "other": big, "stretch": 1, "got": bool(mesh.is_aligned(sm)), "back": bool(sm.is_aligned(mesh))},
                                    coords + mesh_coords(big)))
                except Exception:  # noqa: BLE001  (constructing the probe mesh is not the subject here)
                    pass
        elif cur_s:
            fmt = rnd.choice(["json", "hdf5"])
            tmp = os.path.join(_scratch(), f"c14t-{os.getpid()}-{tid}-{len(ev)}")
            e = {"k": "reload", "fmt": fmt}
            try:
                if fmt == "json":
                    mesh.save_subregions(tmp + ".x")
                    m2 = df.Mesh(region=mesh.region, n=tuple(int(v) for v in mesh.n))
                    m2.load_subregions(tmp + ".x")
                else:
                    df.Field(mesh, nvdim=1, value=1.0).to_file(tmp + ".h5")
                    m2 = df.Field.from_file(tmp + ".h5").mesh
                e.update(ok=True, post=observe(emb, m2, tol))
            except Exception as ex:
                e.update(ok=False, exc=type(ex).__name__, post={"mesh": cur_m, "subs": cur_s, "exact": True, "meta": True})
            finally:
                for ext in (".x.subregions.json", ".h5", ".h5.subregions.json"):
                    try:
                        os.remove(tmp + ext)
                    except OSError:
                        pass
            ev.append(stamp(e, coords))
    return {"id": tid, "dy": emb.dyadic, "cls": embclass(emb, coords0 + mesh_coords(cur_m, cur_s), min(m["c"])), "emb": emb.name,
            "mesh": m, "subs": subs, "ev": ev}


def t_key(clause, e, t):
    cl, _, cond = clause.partition(":")
    op = e.get("op", e["k"])
    return f"trace:{cl}/{op}/{cond or 'any'}/{e['cls']}"


def run_traces(ctx, df, ntraces, embs):
    rnd = random.Random(ctx.seed * 7919 + 14)
    traces = [gen_trace(df, rnd, t + 1, embs) for t in range(ntraces)]
    traces = [t for t in traces if t["ev"]]
    r, verdicts, _ = ctx.trace_check("C14Trace", "C14Trace.cfg", traces)
    expect = sum(len(t["ev"]) + 1 for t in traces)
    if r.distinct != expect:
        raise core._tlc.MachineryError(f"C14Trace consumed {r.distinct} states, expected {expect}")
    byid = {t["id"]: t for t in traces}
    for v in verdicts:
        _, tid, l, clause = v
        t = byid[tid]
        e = t["ev"][l - 1]
        if clause.startswith("spec-"):
            raise core._tlc.MachineryError(f"C14Trace: the specification's own step is not well-formed ({clause}) in trace {tid} event {l}")
        ctx.violation(t_key(clause, e, t), f"recorded execution rejected by C14Trace: clause {clause}",
                      {"trace": {k: t[k] for k in ("mesh", "subs", "emb", "dy", "cls")}, "events": t["ev"][:l]})
    ctx.traces += len(traces)
    ctx.evaluations += sum(len(t["ev"]) for t in traces)
    for t in traces:
        for e in t["ev"]:
            ctx.nontriv("T", t["id"], json.dumps(e, sort_keys=True))
    ctx.notes["T_events"] = sum(len(t["ev"]) for t in traces)
    for t in traces:
        for e in t["ev"]:
            ctx.notes["T_" + e.get("op", e["k"])] = ctx.notes.get("T_" + e.get("op", e["k"]), 0) + 1
    ctx.sample({"channel": "T", "trace": traces[0]})


# ------------------------------------------------------------------ run / replay
def run(ctx):
    df = core.import_library()
    _SCRATCH[0] = ctx.scratch
    embs = embed.for_tier(ctx.tier, ctx.seed) + [EIGHTH]
    # the unbounded integer core (spec/C14Core.tla): Apalache discharges the inductive invariant
    from .. import apalache
    apalache.run_stage(ctx, module="C14Core.tla", claim=apalache.C14_CLAIM)
    apalache.tlaps_stage(ctx, "C14CoreProof.tla", needs=("C14Core.tla",))   # the same two facts as a checked proof (157 obligations)
    r = ctx.model("MC_C14", f"C14_{ctx.tier}.cfg", dump=True)
    if r.ok:
        with open(r.dump) as fh:
            blocks = [b for b in _HDR.split(fh.read()) if b.strip()]
        if len(blocks) != r.distinct:
            raise core._tlc.MachineryError(f"dump has {len(blocks)} states, TLC reports {r.distinct}")
        tier = ctx.tier

        def chunk(items):
            part = Part()
            for k in items:
                st = norm_state(tlaval.parse_state_text(blocks[k]))
                kind = st["act"][0]
                if kind == "new" and st["hist"]:
                    raise core._tlc.MachineryError("fresh state with a history")
                part.note("states_" + kind)
                for ei in embs_for_state(kind, embs, k, tier):
                    check_state(df, st, embs[ei], part)
                    part.trace()
                if k % 97 == 0:
                    part.sample({"channel": "R", "state": {x: st[x] for x in ("origin", "hist", "mesh", "subs")},
                                 "act": list(st["act"]), "embedding": embs[0].name})
            return part

        order = list(range(len(blocks)))
        random.Random(ctx.seed).shuffle(order)
        ctx.pmap(chunk, order, chunk=max(1, len(order) // 128))
    run_traces(ctx, df, 1500 if ctx.tier == "quick" else 15000, embs)
    ctx.assumptions += [
        "TLC explores the bounded space of spec/C14.tla completely (bounds in MC_C14.tla)",
        "scale factors are positive (negative / zero factors are C13's); reference points are lattice points",
        "rotations are compared with tolerance on every embedding (cos(k pi/2) is not exact)",
        "on non-dyadic embeddings a selection bound on an inner cell face may fall on either side (DESIGN 5.2)",
    ]
    core.df_stage(ctx, df)   # mixed histories (spec/DF.tla): the clauses that come from this property's text
    return core.finish(ctx, rule=RULE, extra={"embeddings": [e.name for e in embs]})


def replay(ctx, path):
    """re-execute the witness of a replay file against the current tree: exit 1 if it still fails"""
    df = core.import_library()
    _SCRATCH[0] = ctx.scratch
    with open(path) as fh:
        rp = json.load(fh)
    w = rp["witness"]
    if "state" not in w:
        print("trace witness (re-run `./check C14` with the recorded seed to reproduce):", json.dumps(w)[:3000])
        return 1
    embs = {e.name: e for e in embed.DYADIC + embed.REAL + embed.seeded(rp.get("seed", ctx.seed), 2) + [EIGHTH]}
    st = dict(w["state"])
    pr = w.get("probe")
    st["probes"] = [tuple(pr)] if pr is not None else [(None, None)]
    part = Part()
    check_state(df, st, embs[w["embedding"]], part)
    for k, what, _ in part["violations"]:
        print("still fails:", k, what)
    return 1 if part["violations"] else 0
