"""./check selftest - the binding is demonstrated by corruption: a recorded trace with one altered field, or a dumped
state with one altered expected value, must be rejected; the unaltered ones must be accepted."""
import importlib
import os

from . import core


def main():
    root = core.ROOT
    ids = open(os.path.join(root, "tools", "integrated.txt")).read().split()
    rc = 0
    for pid in ids:
        mod = importlib.import_module(f"harness.props.{pid.lower()}")
        if not hasattr(mod, "selftest"):
            print(f"selftest {pid}: (none defined)")
            continue
        ctx = core.Ctx(pid, "quick", 4242)
        try:
            res = mod.selftest(ctx)
        finally:
            ctx.close()
        for name, ok in res:
            print(f"selftest {pid}: {name}: {'ok' if ok else 'FAILED'}")
            if not ok:
                rc = 1
    return rc
