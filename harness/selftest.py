"""./check selftest - the binding is demonstrated by corruption: a recorded trace with one altered field, or a dumped
state with one altered expected value, must be rejected; the unaltered ones must be accepted."""
import importlib
import os

from . import core


def main():
    root = core.ROOT
    ids = open(os.path.join(root, "tools", "integrated.txt")).read().split()
    rc = 0
    for pid in ids:
        mod = importlib.import_module(f"harness.props.{pid.lower()}")
        if not hasattr(mod, "selftest"):
            # generic binding test: the check is run with ONE logged observation of its recorded traces altered
            # (core.corrupt_one_observation); the trace specification must reject it (exit 1), and a machinery error counts too
            import subprocess
            import sys
            env = dict(os.environ, VERIF_SELFTEST_CORRUPT="1", DF_VERIF_NO_DF_STAGE="1", DF_VERIF_REPO=os.environ.get("DF_VERIF_REPO", "/repo"),
                       VERIF_SELFTEST_EVIDENCE="skip")
            p = subprocess.run([os.path.join(root, "check"), pid, "--tier", "quick"], capture_output=True, text=True, env=env)
            keys = [l.strip().split(":")[0] + ":" + l.strip().split(":")[1][:60] for l in p.stdout.splitlines() if l.startswith("  trace:") or "Trace" in l and l.startswith("  ")]
            ok = p.returncode in (1, 2)
            print(f"selftest {pid}: recorded traces with one altered observation rejected (exit {p.returncode}{'; ' + keys[0] if keys else ''}): {'ok' if ok else 'FAILED'}")
            if not ok:
                rc = 1
            continue
        ctx = core.Ctx(pid, "quick", 4242)
        try:
            res = mod.selftest(ctx)
        finally:
            ctx.close()
        for name, ok in res:
            print(f"selftest {pid}: {name}: {'ok' if ok else 'FAILED'}")
            if not ok:
                rc = 1
    return rc
