"""Real-library side of the mixed-history model spec/DF.tla.

World      real Region / Mesh / Field objects for a heap of the specification, honouring the references
           (a field refers to a mesh object, a mesh to a region object and to its subregion objects)
do_call    one public API call described by a call record of the specification (op, x, y, dst, tg, ip, a)
project    the object graph reachable from the user's variables, projected to the specification's heap
           format: object ids by identity (`is`), validity identity `vo` by numpy.shares_memory,
           coordinates as exact rationals of the embedding's lattice, values as integers
diff_heaps differences between a heap of the specification and an observed one, by aspect

New objects are numbered like the specification numbers them (DF!AllocMF / DCopyMesh): after the largest id
in use, in the order region, subregions, mesh, field - so that a conforming step yields *the same heap*, and
any difference in sharing shows up as a different graph.
"""
import copy
import json
import math
import os
import re
from fractions import Fraction

import numpy as np

from . import fld

MAXNUM, MAXDEN = 2_000_000, 64
GEO = ("translate", "scale", "rotate90")
INPLACE_STATE = ("setvalid", "mutatevalid", "updateconst", "setarray", "fromfield", "setsub", "writearray", "setvdims")
PERSIST = {"h5": "h5", "ovf": "ovf", "vtk": "vtk"}


class OffLattice(Exception):
    pass


class TooBig(Exception):
    pass


def frac(r):
    return Fraction(int(r[0]), int(r[1]))


def heap_dict(h):
    """heap of a parsed state / of a JSON trace -> {oid: record}"""
    if isinstance(h, dict):
        return {int(k): v for k, v in h.items()}
    if h and isinstance(h[0], (list, tuple)) and len(h[0]) == 2 and isinstance(h[0][0], int) and isinstance(h[0][1], dict):
        return {int(k): v for k, v in h}
    return {i + 1: v for i, v in enumerate(h)}  # a function with domain 1..n is printed as a sequence


def canon(v):
    """lists all the way down (TLA+ sequences), dicts for records; functions over integers get int keys"""
    if isinstance(v, (list, tuple)):
        return [canon(x) for x in v]
    if isinstance(v, dict):
        return {k: canon(x) for k, x in v.items()}
    if isinstance(v, (np.bool_,)):
        return bool(v)
    if isinstance(v, np.integer):
        return int(v)
    return v


def rat(x, emb, length=False):
    """lattice coordinate (length) of float x as a reduced rational [num, den] with den | 64, within 1e-8"""
    x = float(x)
    qf = x / emb.quantum if length else (x - emb.origin) / emb.quantum
    n64 = round(qf * 64.0)
    if abs(qf * 64.0 - n64) <= 64e-8 * max(1.0, abs(qf)) and abs(n64) < MAXNUM * 64:
        g = math.gcd(n64, 64)
        return [n64 // g, 64 // g]
    q = emb.len_q(x) if length else emb.q_of(x)
    f = q.limit_denominator(MAXDEN)
    if abs(q - f) > Fraction(1, 10**8) * max(1, abs(f)):
        g = q.limit_denominator(2**20)
        if abs(q - g) <= Fraction(1, 10**9) * max(1, abs(g)):
            raise TooBig()  # a rational, but with a denominator beyond what is logged
        raise OffLattice(f"coordinate {float(x)!r} is {float(q)!r} lattice units: not a small rational")
    if abs(f.numerator) > MAXNUM:
        raise TooBig()
    return [f.numerator, f.denominator]


_SUBS = [(re.compile(r"<<"), "["), (re.compile(r">>"), "]")]
_KEY = re.compile(r"([A-Za-z_][A-Za-z0-9_]*) \|->")
_FKEY = re.compile(r"(-?\d+) :>")


def fastparse(block):
    """one state of a TLC dump -> {var: value}; TLA+ value syntax rewritten to JSON (sequences -> lists, records ->
    dicts, functions k :> v -> dicts with string keys).  Only for the value shapes DF.tla produces."""
    out = {}
    for part in block.split("/\\ ")[1:]:
        name, _, val = part.partition(" = ")
        name = name.strip()
        if name == "viol":
            out[name] = val.strip()
            continue
        t = val.replace("[", "{").replace("]", "}").replace("<<", "[").replace(">>", "]").replace("(", "{").replace(")", "}")
        t = t.replace("@@", ",").replace("TRUE", "true").replace("FALSE", "false")
        t = _KEY.sub(r'"\1":', t)
        t = _FKEY.sub(r'"\1":', t)
        out[name] = json.loads(t)
    return out


def int_text(v):
    """the text of a number the model holds as an integer; anything else gets a text no model answer equals"""
    v = complex(v)
    r = round(v.real)
    if v.imag == 0 and math.isfinite(v.real) and abs(v.real - r) <= 1e-9 * max(1.0, abs(r)):
        return str(int(r))
    return f"~{v!r}"


def mean_text(m, ncells):
    """`m:p/q,...`: the components of a mean over `ncells` integer-valued cells as exact rationals in lowest terms"""
    out = []
    for v in np.asarray(m).reshape(-1):
        v = complex(v)
        s = v.real * ncells
        r = round(s) if math.isfinite(s) else 0
        if v.imag == 0 and math.isfinite(s) and abs(s - r) <= 1e-6 * max(1.0, abs(r)):
            q = Fraction(int(r), int(ncells))
            out.append(f"{q.numerator}/{q.denominator}")
        else:
            out.append(f"~{v!r}")
    return "m:" + ",".join(out)


class World:
    def __init__(self, df, heap, roots, emb, scratch):
        self.df, self.emb, self.scratch = df, emb, scratch
        self.obj = {}  # oid -> real object (strong reference while live)
        self.oid = {}  # id(object) -> oid
        self.nfile = 0
        self.last_cond = ""
        heap = heap_dict(heap)
        for o in sorted(heap):
            self._build(heap, o)
        self.vars = {x: self.obj[int(o)] for x, o in roots.items()}
        self._gc()

    def clone(self):
        """an independent copy of the live objects with the same sharing and the same ids, rebuilt through the public
        constructors from the objects' own attributes (copy.deepcopy of a Field recurses in Field.__getattr__)"""
        df = self.df
        w = World.__new__(World)
        w.df, w.emb, w.scratch, w.nfile, w.last_cond = self.df, self.emb, self.scratch, self.nfile, ""
        memo = {}
        meshes = [o for o in self.obj.values() if isinstance(o, df.Mesh)]

        def region(old):
            if id(old) in memo:
                return memo[id(old)]
            for m in meshes:
                if any(s is old for s in m.subregions.values()):
                    mesh(m)
                    return memo[id(old)]
            memo[id(old)] = df.Region(p1=old.pmin.copy(), p2=old.pmax.copy(), dims=list(old.dims), units=list(old.units),
                                      tolerance_factor=old.tolerance_factor)
            return memo[id(old)]

        def mesh(old):
            if id(old) in memo:
                return memo[id(old)]
            reg = region(old.region)
            subs = {nm: df.Region(p1=sr.pmin.copy(), p2=sr.pmax.copy(), dims=list(sr.dims), units=list(sr.units)) for nm, sr in old.subregions.items()}
            new = df.Mesh(region=reg, n=tuple(int(v) for v in old.n), bc=old.bc, subregions=subs)
            memo[id(old)] = new
            for nm, sr in old.subregions.items():
                memo[id(sr)] = new.subregions[nm]
            return new

        def field(old):
            if id(old) in memo:
                return memo[id(old)]
            memo[id(old)] = df.Field(mesh(old.mesh), nvdim=old.nvdim, value=np.array(old.array, copy=True), valid=np.array(old.valid, copy=True),
                                     vdims=list(old.vdims) if old.vdims else None, vdim_mapping=dict(old.vdim_mapping), unit=old.unit,
                                     dtype=old.array.dtype)
            return memo[id(old)]

        def any_(old):
            return field(old) if isinstance(old, df.Field) else mesh(old) if isinstance(old, df.Mesh) else region(old)

        w.obj = {o: any_(real) for o, real in sorted(self.obj.items())}
        w.vars = {x: memo[id(v)] for x, v in self.vars.items()}
        w.oid = {id(real): o for o, real in w.obj.items()}
        return w

    def masks_shared(self):
        fs = [v for v in self.obj.values() if isinstance(v, self.df.Field)]
        return any(np.shares_memory(a.valid, b.valid) for i, a in enumerate(fs) for b in fs[i + 1:])

    # ------------------------------------------------------------------ construction
    def _reg(self, rec):
        lo = [self.emb.x(frac(c)) for c in rec["lo"]]
        hi = [self.emb.x(frac(c)) for c in rec["hi"]]
        return self.df.Region(p1=lo, p2=hi, dims=list(rec["dims"]), units=list(rec["units"]))

    def _put(self, o, real):
        self.obj[o] = real
        self.oid[id(real)] = o

    def _build(self, heap, o):
        if o in self.obj:
            return self.obj[o]
        rec = heap[o]
        if rec["k"] == "region":
            for m, mrec in heap.items():
                if mrec["k"] == "mesh" and o in mrec["sub"]:
                    self._build(heap, m)  # subregion objects are made by the mesh's setter
                    return self.obj[o]
            self._put(o, self._reg(rec))
        elif rec["k"] == "mesh":
            reg = self._build(heap, rec["region"])
            subs = {nm: self._reg(heap[s]) for nm, s in zip(rec["names"], rec["sub"])}
            m = self.df.Mesh(region=reg, n=tuple(rec["n"]), subregions=subs)
            self._put(o, m)
            fld.disown(subs)   # the input Region objects remain the caller's: moving them must not move the mesh's
            for nm, s in zip(rec["names"], rec["sub"]):
                self._put(s, m.subregions[nm])
        else:
            mesh = self._build(heap, rec["mesh"])
            nv = rec["nv"]
            arr = fld.unflatten([list(v) for v in rec["arr"]], rec["shape"], dtype=float)
            valid = fld.unflatten_mask(list(rec["valid"]), rec["shape"])
            lab = list(rec["lab"])
            mapping = dict(zip(lab, rec["map"])) if rec["map"] else {}
            self._put(o, self.df.Field(mesh, nvdim=nv, value=arr, valid=valid, vdims=lab or None, vdim_mapping=mapping))
        return self.obj[o]

    # ------------------------------------------------------------------ object graph
    def reachable(self, roots=None):
        df = self.df
        seen, order = set(), []

        def visit(o):
            if id(o) in seen:
                return
            seen.add(id(o))
            if isinstance(o, df.Field):
                visit(o.mesh)
            elif isinstance(o, df.Mesh):
                visit(o.region)
                for s in o.subregions.values():
                    visit(s)
            order.append(o)  # children first: region, subregions, mesh, field

        for o in (roots if roots is not None else [self.vars[x] for x in sorted(self.vars)]):
            visit(o)
        return order

    def _gc(self, first=None):
        """drop dead objects, number new ones after the largest id that was in use before the call"""
        base = max(self.obj) if self.obj else 0
        live = self.reachable()
        order = (self.reachable([first]) if first is not None else []) + live
        keep = {}
        for real in order:
            if id(real) not in self.oid or self.obj.get(self.oid[id(real)]) is not real:
                base += 1
                self.oid[id(real)] = base
                self.obj[base] = real
        liveids = {id(r) for r in live}
        for o in list(self.obj):
            if id(self.obj[o]) in liveids and self.oid.get(id(self.obj[o])) == o:
                keep[o] = self.obj[o]
            elif self.oid.get(id(self.obj[o])) == o:
                self.oid.pop(id(self.obj[o]), None)
        self.obj = keep

    # ------------------------------------------------------------------ calls
    def target(self, c):
        df = self.df
        o = self.vars[c["x"]]
        tg = c["tg"]
        if tg == "self":
            return o
        if tg == "mesh":
            return o.mesh if isinstance(o, df.Field) else o
        if isinstance(o, df.Field):
            return o.mesh.region
        return o.region if isinstance(o, df.Mesh) else o

    def _path(self, ext):
        self.nfile += 1
        return os.path.join(self.scratch, f"w{os.getpid()}_{id(self) % 100000}_{self.nfile}.{ext}")

    def _flat_idx(self, n, k):
        return tuple(int(v) for v in np.unravel_index(k, tuple(int(x) for x in n), order="F"))

    def _pat(self, f_or_mesh, nv, p):
        n = tuple(int(v) for v in (f_or_mesh.n))
        N = int(np.prod(n))
        return fld.unflatten([[100 * p + 10 * (k + 1) + (c + 1) for c in range(nv)] for k in range(N)], n, dtype=float)

    def execute(self, c):
        """perform the call; returns the library's return value (may raise)"""
        df, emb = self.df, self.emb
        op, a = c["op"], c["a"]
        if op in GEO:
            t = self.target(c)
            reg = t if isinstance(t, df.Region) else (t.region if isinstance(t, df.Mesh) else t.mesh.region)
            if op == "translate":
                return t.translate(tuple(emb.length(frac(v)) for v in a["v"]), inplace=bool(c["ip"]))
            if op == "scale":
                s = [frac(v) for v in a["s"]]
                num = lambda q: int(q) if q.denominator == 1 else float(q)
                factor = num(s[0]) if len(set(s)) == 1 else tuple(num(q) for q in s)
                ref = None if len(a["ref"]) == 0 else tuple(emb.x(frac(v)) for v in a["ref"])
                return t.scale(factor, reference_point=ref, inplace=bool(c["ip"]))
            ref = None if len(a["ref"]) == 0 else tuple(emb.x(frac(v)) for v in a["ref"])
            dims = reg.dims
            return t.rotate90(dims[a["a"] - 1], dims[a["b"] - 1], k=int(a["k"]), reference_point=ref, inplace=bool(c["ip"]))
        o = self.vars[c["x"]]
        if op == "mkfield":
            return df.Field(o, nvdim=int(a["nv"]), value=self._pat(o, int(a["nv"]), int(a["p"])))
        f = o
        dims = f.mesh.region.dims
        if op == "neg":
            return -f
        if op == "pos":
            return +f
        if op == "abs":
            return abs(f)
        if op == "add":
            return f + self.vars[c["y"]]
        if op == "mul":
            return f * self.vars[c["y"]]
        if op == "mulnum":
            return f * int(a["c"])
        if op == "q_meshclose":
            return bool(f.mesh.allclose(self.vars[c["y"]].mesh))
        if op == "q_fieldclose":
            return bool(f.allclose(self.vars[c["y"]]))
        if op == "q_regionin":
            return bool(self.vars[c["y"]].mesh.region in f.mesh.region)
        if op == "q_aligned":
            return bool(f.mesh.is_aligned(self.vars[c["y"]].mesh))
        if op == "addnum":
            return f + int(a["c"])
        if op == "pow2":
            return f**2
        if op == "angle":
            return f.angle(self.vars[c["y"]])
        if op == "integratecum":
            return f.integrate(dims[a["d"] - 1], cumulative=True)
        if op == "q_eq":
            return bool(f == self.vars[c["y"]])
        if op == "q_mean":
            return mean_text(f.mean(), int(np.prod(f.mesh.n)))
        if op == "q_call":
            idx = self._flat_idx(f.mesh.n, a["cell"] - 1)
            pmin_, cell_ = f.mesh.region.pmin, f.mesh.cell
            point = tuple(float(pmin_[d] + (idx[d] + 0.5) * cell_[d]) for d in range(len(dims)))
            return "v:" + ",".join(int_text(v) for v in np.asarray(f(point if len(point) > 1 else point[0])).reshape(-1))
        if op == "mean":
            return f.mean(direction=dims[a["d"] - 1])
        if op == "setvdims":
            f.vdims = [str(x) for x in a["lab"]]
            return f
        if op == "sub":
            return f - self.vars[c["y"]]
        if op == "dot":
            return f.dot(self.vars[c["y"]])
        if op == "cross":
            return f.cross(self.vars[c["y"]])
        if op == "norm":
            return f.norm
        if op == "orientation":
            return f.orientation
        if op == "integrate":
            return f.integrate(dims[a["d"] - 1])
        if op == "fromfield":
            f.update_field_values(self.vars[c["y"]])
            return f
        if op == "setsub":
            m = f.mesh
            pmin_, cell_ = m.region.pmin, m.cell
            off = 0.5 if a["sh"] else 0.0
            p1 = [float(pmin_[d] + (a["a"][d] + off) * cell_[d]) for d in range(len(dims))]
            p2 = [float(pmin_[d] + (a["b"][d] + 1 + off) * cell_[d]) for d in range(len(dims))]
            given = {"t": df.Region(p1=p1, p2=p2, dims=list(dims), units=list(m.region.units))}
            m.subregions = given
            fld.disown(given)
            return f
        if op == "comp":
            return getattr(f, f.vdims[a["c"] - 1])
        if op == "lshift":
            return f << self.vars[c["y"]]
        if op == "diff":
            return f.diff(dims[a["d"] - 1])
        if op == "setvalid":
            if a["kind"] == "array":
                f.valid = fld.unflatten_mask(list(a["mask"]), f.mesh.n)
            elif a["kind"] == "norm":
                f.valid = "norm"
            else:
                f.valid = None
            return f
        if op == "mutatevalid":
            idx = self._flat_idx(f.mesh.n, a["cell"] - 1)
            f.valid[idx] = not f.valid[idx]
            return f
        if op == "updateconst":
            v = int(a["c"])
            f.update_field_values(v if f.nvdim == 1 else tuple(v + i for i in range(f.nvdim)))
            return f
        if op == "setarray":
            f.array = self._pat(f.mesh, f.nvdim, int(a["p"]))
            return f
        if op == "writearray":
            idx = self._flat_idx(f.mesh.n, a["cell"] - 1)
            f.array[idx] = [int(a["v"]) + i for i in range(f.nvdim)]
            return f
        pmin, cell = f.mesh.region.pmin, f.mesh.cell
        centre = lambda d, j: float(pmin[d] + (j + 0.5) * cell[d])
        if op == "selplane":
            d = a["d"] - 1
            return f.sel(**{dims[d]: centre(d, a["j"])})
        if op == "selrange":
            d = a["d"] - 1
            return f.sel(**{dims[d]: (centre(d, a["j1"]), centre(d, a["j2"]))})
        if op == "getsub":
            return f[list(f.mesh.subregions)[a["s"] - 1]]
        if op == "getregion":
            p1 = [float(pmin[d] + (a["a"][d] + 0.25) * cell[d]) for d in range(len(dims))]
            p2 = [float(pmin[d] + (a["b"][d] + 0.75) * cell[d]) for d in range(len(dims))]
            return f[df.Region(p1=p1, p2=p2, dims=list(dims), units=list(f.mesh.region.units))]
        if op == "pad":
            return f.pad({dims[a["d"] - 1]: (int(a["l"]), int(a["r"]))}, mode=a["mode"])
        if op == "resample":
            return f.resample(tuple(int(v) for v in a["n"]))
        if op in PERSIST:
            path = self._path(PERSIST[op])
            f.to_file(path)
            g = df.Field.from_file(path)
            for extra in (path, path + ".subregions.json"):
                if os.path.exists(extra):
                    os.remove(extra)
            return g
        if op == "xarray":
            return df.Field.from_xarray(f.to_xarray())
        raise ValueError(f"unknown call {c}")

    def do_call(self, c):
        """execute call c; returns (outcome, retself, exception)"""
        tgt = self.target(c) if c["op"] in GEO else self.vars[c["x"]]
        try:
            ret = self.execute(c)
        except Exception as ex:  # "rejected" = any exception (DESIGN 5.3)
            self._gc()
            self.last_cond = self._condition(c, ex)
            return "reject", False, ex
        self.last_cond = ""
        op = c["op"]
        first = None
        if op.startswith("q_"):
            self._gc()
            return (ret if isinstance(ret, str) else "true" if ret else "false"), False, None
        if op in GEO:
            if not c["ip"]:
                self.vars[c["dst"]] = ret
                first = ret
        elif op not in INPLACE_STATE:
            if op == "pos" and ret is tgt:
                # `+f is f` (documented) and `+f` a copy are the same history here (the model only has f = +f): the
                # returned object counts as the new object of the step either way
                self.oid.pop(id(ret), None)
            self.vars[c["dst"]] = ret
            first = ret
        self._gc(first)
        return "ok", ret is tgt, None

    def _condition(self, c, ex):
        """condition class of a rejection (part of the violation key): which public attribute makes this call special"""
        cond = type(ex).__name__
        o = self.vars.get(c["x"])
        if c["op"] == "xarray" and isinstance(o, self.df.Field) and type(o.nvdim) is not int:
            cond += ":nvdim-is-" + type(o.nvdim).__name__
        return cond

    # ------------------------------------------------------------------ projection
    def project(self):
        """(heap, roots, anomalies) in the specification's format"""
        df, emb = self.df, self.emb
        heap, anomalies = {}, []
        fields = [o for o in sorted(self.obj) if isinstance(self.obj[o], df.Field)]
        for o in sorted(self.obj):
            real = self.obj[o]
            if isinstance(real, df.Region):
                try:
                    heap[o] = {"k": "region", "lo": [rat(v, emb) for v in real.pmin], "hi": [rat(v, emb) for v in real.pmax],
                               "units": [str(u) for u in real.units], "dims": [str(d) for d in real.dims]}
                except TooBig:
                    # which object it is (a subregion of a live mesh or a mesh's region) decides whose text a replayed model
                    # history contradicts; random programs just end there
                    sub = any(isinstance(m, df.Mesh) and any(s is real for s in m.subregions.values()) for m in self.obj.values())
                    raise TooBig("subregion" if sub else "region", o, [float(v) for v in real.pmin], [float(v) for v in real.pmax])
            elif isinstance(real, df.Mesh):
                heap[o] = {"k": "mesh", "region": self.oid.get(id(real.region), 0), "n": [int(v) for v in real.n],
                           "sub": [self.oid.get(id(s), 0) for s in real.subregions.values()], "names": list(real.subregions)}
            else:
                arr = np.asarray(real.array)
                valid = np.asarray(real.valid)
                nv = int(real.nvdim)
                shape = [int(v) for v in arr.shape[:-1]]
                if valid.dtype != np.bool_ or list(valid.shape) != shape or arr.shape[-1] != nv:
                    anomalies.append((o, f"validity dtype/shape {valid.dtype}/{valid.shape}, array shape {arr.shape}, nvdim {nv}"))
                flat = fld.flatten(arr)
                with np.errstate(all="ignore"):
                    r = np.rint(flat.real if np.iscomplexobj(flat) else flat)
                    vx = bool(np.all(np.isfinite(flat)) and not np.iscomplexobj(flat) and np.all(np.abs(flat - r) <= 1e-9 * np.maximum(1.0, np.abs(r)))
                              and np.all(np.abs(r) < 2**30))
                lab = [str(c) for c in real.vdims] if real.vdims else []
                vm = real.vdim_mapping or {}
                mp = [str(vm[c]) for c in lab] if lab and all(c in vm for c in lab) and len(vm) == len(lab) else []
                if vm and not mp:
                    anomalies.append((o, f"partial component-to-axis mapping {vm} for labels {lab}"))
                vo = ao = o
                for g in fields:
                    if g == o:
                        break
                    gv = self.obj[g].valid
                    if gv is real.valid or np.shares_memory(gv, valid):
                        vo = g
                        break
                for g in fields:
                    if g == o:
                        break
                    ga = self.obj[g].array
                    if ga is real.array or np.shares_memory(ga, arr):
                        ao = g
                        break
                heap[o] = {"k": "field", "mesh": self.oid.get(id(real.mesh), 0), "nv": nv,
                           "arr": r.astype(np.int64).tolist() if vx else [[0] * nv for _ in range(flat.shape[0])],
                           "valid": fld.flatten_mask(valid.astype(bool)).tolist(), "shape": shape, "lab": lab, "map": mp,
                           "vx": vx, "mx": True, "vo": vo, "ao": ao}
        roots = {x: self.oid[id(v)] for x, v in self.vars.items()}
        return heap, roots, anomalies


# ------------------------------------------------------------------------------------------------
def spec_heap(state_heap):
    """heap of a parsed TLC state -> {oid: record} (lists)"""
    return {o: canon(rec) for o, rec in heap_dict(state_heap).items()}


def spec_roots(r):
    return {str(k): int(v) for k, v in (r.items() if isinstance(r, dict) else r)}


def diff_heaps(want, wroots, got, groots):
    """differences between the specification's heap and the observed one: list of (aspect, oid, message)"""
    out = []
    if set(want) != set(got) or wroots != groots:
        # MORE objects than the specification predicts = the library shares less than the model assumes (a result got
        # its own mesh / region object): no property forbids that, the history is merely not continued.  FEWER objects
        # = the library hands out an object that something else refers to (how the aliasing patterns P2 / P3 arose).
        nreg = lambda h: (sum(1 for r in h.values() if r["k"] == "region"), sum(1 for r in h.values() if r["k"] == "mesh"),
                          sum(1 for r in h.values() if r["k"] == "field"))  # noqa: E731
        w3, g3 = nreg(want), nreg(got)
        less = set(wroots) == set(groots) and g3[2] == w3[2] and g3[0] >= w3[0] and g3[1] >= w3[1] and g3 != w3
        out.append(("sharing-less" if less else "sharing", 0,
                    f"objects {sorted(got)} / variables {groots} instead of {sorted(want)} / {wroots}"))
        return out
    for o in sorted(want):
        w, g = want[o], got[o]
        if w["k"] != g["k"]:
            out.append(("sharing", o, f"object {o} is a {g['k']}, not a {w['k']}"))
            continue
        if w["k"] == "region":
            if w["lo"] != g["lo"] or w["hi"] != g["hi"]:
                out.append(("geometry", o, f"region {o}: corners {g['lo']} {g['hi']} instead of {w['lo']} {w['hi']} (lattice units)"))
            if w["units"] != g["units"] or w["dims"] != g["dims"]:
                out.append(("unitsdims", o, f"region {o}: units/dims {g['units']}/{g['dims']} instead of {w['units']}/{w['dims']}"))
        elif w["k"] == "mesh":
            if w["region"] != g["region"] or w["sub"] != g["sub"]:
                out.append(("sharing", o, f"mesh {o} refers to region {g['region']} / subregions {g['sub']} instead of {w['region']} / {w['sub']}"))
            if w["n"] != g["n"]:
                out.append(("counts", o, f"mesh {o}: n {g['n']} instead of {w['n']}"))
            if w["names"] != g["names"]:
                out.append(("subnames", o, f"mesh {o}: subregions {g['names']} instead of {w['names']}"))
        else:
            if w["mesh"] != g["mesh"]:
                out.append(("sharing", o, f"field {o} refers to mesh {g['mesh']} instead of {w['mesh']}"))
            if w["vo"] != g["vo"]:
                out.append(("ownvalid", o, f"field {o}: its validity array is the one of field {g['vo']}"))
            if w.get("ao", o) != g.get("ao", o):
                out.append(("ownarray", o, f"field {o}: its value array shares memory with the one of field {g.get('ao')}"))
            if w["nv"] != g["nv"] or w["shape"] != g["shape"]:
                out.append(("shape", o, f"field {o}: nvdim/shape {g['nv']}/{g['shape']} instead of {w['nv']}/{w['shape']}"))
                continue
            if w["valid"] != g["valid"]:
                out.append(("valid", o, f"field {o}: validity {g['valid']} instead of {w['valid']}"))
            if w["vx"] and (not g["vx"] or w["arr"] != g["arr"]):
                out.append(("values", o, f"field {o}: values {g['arr'] if g['vx'] else 'not integers'} instead of {w['arr']}"))
            if w["lab"] != g["lab"]:
                out.append(("labels", o, f"field {o}: labels {g['lab']} instead of {w['lab']}"))
            if w["mx"] and w["map"] != g["map"]:
                out.append(("mapping", o, f"field {o}: mapping {g['map']} instead of {w['map']}"))
    return out


def jsonable_heap(heap):
    """observed heap -> JSON for the trace specification: list of [oid, record]"""
    return [[o, heap[o]] for o in sorted(heap)]
