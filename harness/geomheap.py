"""Real-library side of the object heap of spec/Geom.tla (used by C12, C13, C14 histories).

build():   spec heap + roots  ->  real Region/Mesh/Field objects honouring the references
step():    one recorded public call on a user variable
deep():    spec value of an object with references followed (mirror of Geom!Deep; structure only)
observe(): the same structure read off the real objects (floats)
"""
import copy
import math
from fractions import Fraction

import numpy as np

from . import fld

DIMS = ("a", "b", "c", "d")
VDIMS = {1: None, 2: ("p", "q"), 3: ("p", "q", "w"), 4: ("p", "q", "w", "u")}
SUBNAMES = ("s1", "s2", "s3")


def frac(r):
    return Fraction(r[0], r[1])


def heap_dict(h):
    if isinstance(h, tuple):
        return {i + 1: v for i, v in enumerate(h)}
    return dict(h)


def _num(fr):
    return int(fr) if fr.denominator == 1 else float(fr)


class World:
    """real objects for a spec heap; maps oid <-> real object"""

    def __init__(self, df, heap, roots, emb):
        self.df = df
        self.emb = emb
        self.obj = {}
        heap = heap_dict(heap)
        for oid in sorted(heap):
            self._get(heap, oid)
        self.vars = {x: self.obj[o] for x, o in roots.items()}

    def _region(self, o, nd=None):
        lo = [self.emb.x(frac(c)) for c in o["lo"]]
        hi = [self.emb.x(frac(c)) for c in o["hi"]]
        if self.emb.dyadic and all(float(v).is_integer() and abs(v) < 2**40 for v in lo + hi) and int(sum(lo) + 2 * sum(hi)) % 2 == 1:
            # integer-typed corners (Region keeps an int64 pmin / pmax): the numeric type of the corners must not matter
            # (seeded change C12-13 cast the reference point of a quarter turn to the dtype of the corners)
            lo, hi = [int(v) for v in lo], [int(v) for v in hi]
        return self.df.Region(p1=lo, p2=hi, dims=DIMS[: len(lo)], units=list(o["units"]))

    def _get(self, heap, oid):
        if oid in self.obj:
            return self.obj[oid]
        o = heap[oid]
        if o["k"] == "region":
            # a region that is a subregion of some mesh is created by that mesh's setter
            for m in heap.values():
                if m["k"] == "mesh" and oid in m["sub"]:
                    self._get(heap, [k for k, v in heap.items() if v is m][0])
                    return self.obj[oid]
            self.obj[oid] = self._region(o)
        elif o["k"] == "mesh":
            reg = self._get(heap, o["region"])
            subs = {SUBNAMES[j]: self._region(heap[s]) for j, s in enumerate(o["sub"])}
            m = self.df.Mesh(region=reg, n=tuple(o["n"]), subregions=subs)
            self.obj[oid] = m
            fld.disown(subs)   # the input Region objects remain the caller's: moving them must not move the mesh's
            for j, s in enumerate(o["sub"]):
                self.obj[s] = m.subregions[SUBNAMES[j]]
        else:
            mesh = self._get(heap, o["mesh"])
            nv = o["nv"]
            arr = fld.unflatten(o["arr"], o["shape"], dtype=float)
            valid = fld.unflatten_mask(o["valid"], o["shape"])
            vd = VDIMS[nv]
            mapping = {}
            if nv > 1 and any(o["map"]):
                mapping = {vd[c]: DIMS[a - 1] for c, a in enumerate(o["map"])}
                if (sum(o["shape"]) + o["map"][0]) % 2 == 0:
                    # a mapping is a dictionary: the order in which its keys are written must not matter
                    # (seeded change C12-1 looked components up by position in vdim_mapping.values())
                    mapping = dict(reversed(list(mapping.items())))
            self.obj[oid] = fld.lived(fld.labelled_field(self.df, mesh, nv, arr, vd, mapping, sum(o["shape"]) + sum(o["map"]) + oid, valid=valid),
                                      sum(o["shape"]) + 2 * oid + nv)
        return self.obj[oid]


def warm(obj):
    """read the derived public attributes once (results are not judged here): a later in-place step must not leave any
    of them stale (seeded changes C01-3, C06-1, C15-2 all cached a derived quantity)"""
    try:
        if hasattr(obj, "mesh") and hasattr(obj, "nvdim"):
            obj.norm, obj.mean()
            obj = obj.mesh
        if hasattr(obj, "region") and hasattr(obj, "subregions"):
            obj.cell, obj.dV, len(obj), obj.cells, obj.vertices
            obj = obj.region
        obj.edges, obj.center, obj.volume
    except Exception:
        pass


def _scalar_form(args):
    return (len(repr(sorted(args.items()))) % 2) == 0


def call(df, emb, obj, st):
    """perform the public call described by step record st on obj; returns the return value (may raise)"""
    kind, args, ip = st["kind"], st["args"], st["inplace"]
    warm(obj)
    nd = obj.region.ndim if isinstance(obj, df.Mesh) else (obj.mesh.region.ndim if isinstance(obj, df.Field) else obj.ndim)
    dims = DIMS[:nd]
    if kind == "translate":
        v = tuple(emb.length(frac(c)) for c in args["v"])
        # one dimension: a plain number is a vector / a factor / a reference point (every second time)
        return obj.translate(v[0] if (nd == 1 and _scalar_form(args)) else v, inplace=ip)
    if kind == "scale":
        s = [frac(c) for c in args["s"]]
        factor = _num(s[0]) if len(set(s)) == 1 else tuple(_num(c) for c in s)
        ref = None if args["ref"] == () else tuple(emb.x(frac(c)) for c in args["ref"])
        if nd == 1 and ref is not None and _scalar_form(args):
            ref = ref[0]
        return obj.scale(factor, reference_point=ref, inplace=ip)
    if kind == "rotate90":
        ref = None if args["ref"] == () else tuple(emb.x(frac(c)) for c in args["ref"])
        return obj.rotate90(dims[args["a"] - 1], dims[args["b"] - 1], k=int(args["k"]), reference_point=ref, inplace=ip)
    if kind == "malformed":
        bad = args["bad"]
        isfield = isinstance(obj, df.Field)
        if bad == "same-axis":
            return obj.rotate90(dims[0], dims[0], inplace=ip)
        if bad == "unknown-axis":
            return obj.rotate90(dims[0], "nope", inplace=ip)
        if bad == "float-k":
            return obj.rotate90(dims[0], dims[1], k=1.5, inplace=ip)
        if bad == "rot-ref-complex":
            return obj.rotate90(dims[0], dims[1], reference_point=(1j,) + (0.0,) * (nd - 1), inplace=ip)
        if isfield:
            raise NotApplicable()
        if bad == "vector-too-long":
            return obj.translate((1.0,) * (nd + 1), inplace=ip)
        if bad == "vector-of-strings":
            return obj.translate(("a",) * nd, inplace=ip)
        if bad == "factor-too-long":
            return obj.scale((2.0,) * (nd + 1), inplace=ip)
        if bad == "vector-complex":
            return obj.translate((1.0 + 2.0j,) + (0.0,) * (nd - 1), inplace=ip)
        if bad == "factor-complex":
            return obj.scale((2.0j,) + (1.0,) * (nd - 1), inplace=ip)
        if bad == "ref-complex":
            return obj.scale(2.0, reference_point=(1j,) + (0.0,) * (nd - 1), inplace=ip)
        if bad == "factor-string":
            return obj.scale("2", inplace=ip)
        if bad == "ref-too-long":
            return obj.scale(2.0, reference_point=(0.0,) * (nd + 1), inplace=ip)
    raise ValueError(f"unknown step {st}")


class NotApplicable(Exception):
    pass


# ---------------------------------------------------------------- spec-side deep values
def deep(heap, oid):
    heap = heap_dict(heap)
    o = heap[oid]
    if o["k"] == "region":
        return {"k": "region", "lo": [frac(c) for c in o["lo"]], "hi": [frac(c) for c in o["hi"]], "units": tuple(o["units"])}
    if o["k"] == "mesh":
        return {"k": "mesh", "n": tuple(o["n"]), "region": deep(heap, o["region"]), "sub": [deep(heap, s) for s in o["sub"]]}
    return {"k": "field", "mesh": deep(heap, o["mesh"]), "nv": o["nv"], "arr": [list(v) for v in o["arr"]],
            "valid": list(o["valid"]), "shape": tuple(o["shape"]), "map": tuple(o["map"])}


def observe(df, obj):
    if isinstance(obj, df.Region):
        return {"k": "region", "lo": [float(v) for v in obj.pmin], "hi": [float(v) for v in obj.pmax], "units": tuple(obj.units),
                "dims": tuple(obj.dims)}
    if isinstance(obj, df.Mesh):
        return {"k": "mesh", "n": tuple(int(v) for v in obj.n), "region": observe(df, obj.region),
                "sub": [observe(df, s) for s in obj.subregions.values()], "subnames": tuple(obj.subregions),
                "cell": [float(v) for v in obj.cell]}
    arr = np.asarray(obj.array)
    nd = obj.mesh.region.ndim
    vd = obj.vdims
    mapping = tuple((DIMS.index(obj.vdim_mapping[c]) + 1 if obj.vdim_mapping.get(c) in DIMS else 0) for c in vd) if vd else (0,)
    return {"k": "field", "mesh": observe(df, obj.mesh), "nv": int(obj.nvdim), "arr": fld.flatten(arr).tolist(),
            "valid": [bool(v) for v in fld.flatten_mask(obj.valid)], "shape": tuple(arr.shape[:-1]),
            "vshape": tuple(np.asarray(obj.valid).shape), "vdtype": str(np.asarray(obj.valid).dtype), "map": mapping,
            "vdims": tuple(vd) if vd else None}


def coord_close(emb, x, q, scale_q):
    d = abs(emb.q_of(x) - q)
    return d <= Fraction(1, 10**9) * scale_q + 64 * Fraction(math.ulp(max(abs(x), abs(emb.origin), 1e-300))) / Fraction(emb.quantum)


def compare(emb, want, got, path="", scale_q=None):
    """list of (path, message) differences between a spec deep value and an observed one"""
    out = []
    if want["k"] != got["k"]:
        return [(path, f"kind {got['k']} instead of {want['k']}")]
    if want["k"] == "region":
        sc = scale_q or max([abs(c) for c in want["lo"] + want["hi"]] + [1])
        for nm in ("lo", "hi"):
            if len(want[nm]) != len(got[nm]) or not all(coord_close(emb, x, q, sc) for x, q in zip(got[nm], want[nm])):
                out.append((path + "." + nm, f"corner {got[nm]} differs from {[str(c) for c in want[nm]]} (lattice units)"))
        if tuple(want["units"]) != tuple(got["units"]):
            out.append((path + ".units", f"units {got['units']} instead of {want['units']}"))
        if "dims" in got and tuple(got["dims"]) != DIMS[: len(want["lo"])]:
            out.append((path + ".dims", f"dims changed to {got['dims']}"))
        if not all(a < b for a, b in zip(got["lo"], got["hi"])):
            out.append((path + ".order", "pmin < pmax violated"))
    elif want["k"] == "mesh":
        if tuple(want["n"]) != tuple(got["n"]):
            out.append((path + ".n", f"n {got['n']} instead of {want['n']}"))
        out += compare(emb, want["region"], got["region"], path + ".region")
        if "cell" in got and len(got["cell"]) == len(got["n"]):
            # C13: "cell*n equal to the region edges" - with the cell size the mesh reports NOW
            r = got["region"]
            for d, (c, k) in enumerate(zip(got["cell"], got["n"])):
                edge = r["hi"][d] - r["lo"][d]
                if not abs(c * k - edge) <= 1e-9 * abs(edge) + 1e-300:
                    out.append((path + ".cell", f"cell*n = {c * k} differs from the region edge {edge} along axis {d}"))
                    break
        if len(want["sub"]) != len(got["sub"]):
            out.append((path + ".sub", f"{len(got['sub'])} subregions instead of {len(want['sub'])}"))
        else:
            for j, (w, g) in enumerate(zip(want["sub"], got["sub"])):
                out += compare(emb, w, g, f"{path}.sub[{j}]")
    else:
        out += compare(emb, want["mesh"], got["mesh"], path + ".mesh")
        if tuple(want["shape"]) != tuple(got["shape"]):
            out.append((path + ".shape", f"array shape {got['shape']} instead of {want['shape']}"))
        elif tuple(got["vshape"]) != tuple(got["shape"]) or got["vdtype"] != "bool":
            out.append((path + ".valid", f"validity shape/dtype {got['vshape']}/{got['vdtype']}"))
        else:
            a, w = np.asarray(got["arr"], dtype=float), np.asarray(want["arr"], dtype=float)
            if a.shape != w.shape or not np.all(np.abs(a - w) <= 1e-9 * np.maximum(1.0, np.abs(w))):
                out.append((path + ".arr", "values differ from the rotated values of the specification"))
            if list(got["valid"]) != list(want["valid"]):
                out.append((path + ".validmask", "validity differs from the rotated validity of the specification"))
        if tuple(want["map"]) != tuple(got["map"]):
            out.append((path + ".map", f"component-to-axis mapping {got['map']} instead of {want['map']}"))
    return out


def snapshot(df, world_objs):
    """observations of every live object keyed by python id (to detect unwanted modification)"""
    return {id(o): observe(df, o) for o in world_objs}


def same_obs(a, b):
    """exact equality of two observations (used for 'left untouched')"""
    return _norm(a) == _norm(b)


def _norm(v):
    if isinstance(v, dict):
        return {k: _norm(x) for k, x in v.items()}
    if isinstance(v, (list, tuple)):
        return [_norm(x) for x in v]
    return v


def reachable(df, roots):
    """all library objects reachable from the user's variables"""
    seen, order = set(), []

    def visit(o):
        if id(o) in seen:
            return
        seen.add(id(o))
        order.append(o)
        if isinstance(o, df.Field):
            visit(o.mesh)
        elif isinstance(o, df.Mesh):
            visit(o.region)
            for s in o.subregions.values():
                visit(s)

    for o in roots:
        visit(o)
    return order


def sharing_signature(df, vars_):
    """canonical description of which variables/objects share which objects"""
    order = reachable(df, [vars_[x] for x in sorted(vars_)])
    idx = {id(o): i for i, o in enumerate(order)}
    sig = []
    for o in order:
        if isinstance(o, df.Field):
            sig.append(("field", idx[id(o.mesh)]))
        elif isinstance(o, df.Mesh):
            sig.append(("mesh", idx[id(o.region)], tuple(idx[id(s)] for s in o.subregions.values())))
        else:
            sig.append(("region",))
    return tuple(sig), tuple(idx[id(vars_[x])] for x in sorted(vars_))


def spec_sharing_signature(heap, roots):
    heap = heap_dict(heap)
    seen, order = {}, []

    def visit(o):
        if o in seen:
            return
        seen[o] = len(order)
        order.append(o)
        ob = heap[o]
        if ob["k"] == "field":
            visit(ob["mesh"])
        elif ob["k"] == "mesh":
            visit(ob["region"])
            for s in ob["sub"]:
                visit(s)

    for x in sorted(roots):
        visit(roots[x])
    sig = []
    for o in order:
        ob = heap[o]
        if ob["k"] == "field":
            sig.append(("field", seen[ob["mesh"]]))
        elif ob["k"] == "mesh":
            sig.append(("mesh", seen[ob["region"]], tuple(seen[s] for s in ob["sub"])))
        else:
            sig.append(("region",))
    return tuple(sig), tuple(seen[roots[x]] for x in sorted(roots))


def clone_world(vars_):
    """deep copy of the user's variables preserving sharing"""
    return copy.deepcopy(vars_)
