"""Independent VTK-side parties for C16: VTK's own cell lookup and readers used directly (not through
discretisedfield), and a writer of the point-data layout of discretisedfield <= 0.61."""
import numpy as np


def grid_view(g):
    """(xs, names, arrays) of a vtkRectilinearGrid: vertex arrays per axis and the cell-data arrays."""
    from vtkmodules.util import numpy_support as vns

    xs = [np.array(vns.vtk_to_numpy(c)) for c in (g.GetXCoordinates(), g.GetYCoordinates(), g.GetZCoordinates())]
    cd = g.GetCellData()
    names, arrays = [], {}
    for i in range(cd.GetNumberOfArrays()):
        nm = cd.GetArrayName(i)
        names.append(nm)
        arrays[nm] = np.array(vns.vtk_to_numpy(cd.GetArray(i)))
    return xs, names, arrays


class Locator:
    """vtkRectilinearGrid.FindCell, and pyvista's find_containing_cell as a second consumer"""

    def __init__(self, g):
        import vtk

        self.g = g
        self._sub = vtk.reference(0)
        self._pc = [0.0, 0.0, 0.0]
        self._w = [0.0] * 8
        self._pv = None

    def find(self, pt):
        return int(self.g.FindCell([float(pt[0]), float(pt[1]), float(pt[2])], None, 0, 0.0, self._sub, self._pc, self._w))

    def find_many_pv(self, pts):
        import pyvista as pv

        if self._pv is None:
            self._pv = pv.wrap(self.g)
        return [int(v) for v in np.atleast_1d(self._pv.find_containing_cell(np.asarray(pts, dtype=float)))]


def read_grid(path):
    """read a .vtk file with VTK's own readers (legacy or XML, decided from the first line)"""
    from vtkmodules.vtkIOLegacy import vtkRectilinearGridReader
    from vtkmodules.vtkIOXML import vtkXMLRectilinearGridReader

    with open(path, "rb") as fh:
        first = fh.readline().decode("utf8", "replace")
        second = fh.readline()
        third = fh.readline().decode("utf8", "replace").strip()
    if "xml" in first or "VTKFile" in first:
        rd = vtkXMLRectilinearGridReader()
        form = "xml"
    else:
        rd = vtkRectilinearGridReader()
        rd.ReadAllVectorsOn()
        rd.ReadAllScalarsOn()
        form = {"BINARY": "bin", "ASCII": "txt"}.get(third, "?" + third)
    rd.SetFileName(str(path))
    rd.Update()
    return rd.GetOutput(), form


def write_legacy(path, centres, values, nv):
    """The layout written by discretisedfield <= 0.61.0: a RECTILINEAR_GRID whose *points* are the cell
    centres, POINT_DATA with one SCALARS block per component (vector fields) and a VECTORS block, or a
    single SCALARS block (scalar fields); values in mesh iteration order (x fastest), one point per line."""
    n = [len(c) for c in centres]
    npts = n[0] * n[1] * n[2]
    out = ["# vtk DataFile Version 3.0", "Field", "ASCII", "DATASET RECTILINEAR_GRID",
           "DIMENSIONS {} {} {}".format(*n)]
    for ax, c in zip("XYZ", centres):
        out.append(f"{ax}_COORDINATES {len(c)} float")
        out.append(" ".join(repr(float(v)) for v in c))
    out.append(f"POINT_DATA {npts}")
    vals = np.asarray(values, dtype=float).reshape(npts, nv)
    if nv == 1:
        out += ["SCALARS field double", "LOOKUP_TABLE default"]
        out += [repr(float(v[0])) for v in vals]
    else:
        for c, name in enumerate("xyz"[:nv]):
            out += [f"SCALARS {name}-component double", "LOOKUP_TABLE default"]
            out += [repr(float(v[c])) for v in vals]
        out.append("VECTORS field double")
        out += [" ".join(repr(float(x)) for x in v) for v in vals]
    with open(path, "w") as fh:
        fh.write("\n".join(out))
