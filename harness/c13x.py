"""Stage C13X (spec/C13X.tla): the two-form contract of one transformation step at the edge of floating point.

The exact rational model cannot produce a degenerate region from a non-zero factor; floating point can (far vector,
far reference point, tiny factor).  For every experiment two equal objects are built, the copying form is applied to
one and the in-place form to the other, and what happened is logged as Booleans; TLC evaluates the C13 clauses on
every logged experiment (one initial state each).  Nothing here knows what the library "should" compute: the clauses
only relate the two forms to each other and to the normal-form predicates of C13.
"""
import math
import random

import numpy as np

from . import core

KINDS = ("region", "mesh", "meshsub", "field")


def _build(df, kind, nd, lo, edge, n):
    p1 = tuple(lo[:nd])
    p2 = tuple(lo[d] + edge[d] for d in range(nd))
    dims = ("x", "y", "z")[:nd]
    if kind == "region":
        return df.Region(p1=p1, p2=p2, dims=dims)
    subs = {}
    if kind == "meshsub":
        cell = [edge[d] / n[d] for d in range(nd)]
        subs = {"s": df.Region(p1=p1, p2=tuple(lo[d] + cell[d] * max(1, n[d] // 2) for d in range(nd)), dims=dims)}
    m = df.Mesh(region=df.Region(p1=p1, p2=p2, dims=dims), n=tuple(n[:nd]), subregions=subs)
    if kind == "field":
        return df.Field(m, nvdim=nd, value=tuple(float(i + 1) for i in range(nd)))
    return m


def _regions(df, o):
    if isinstance(o, df.Region):
        return [o]
    m = o.mesh if isinstance(o, df.Field) else o
    return [m.region] + list(m.subregions.values())


def _snapshot(df, o):
    regs = [(tuple(float(v) for v in r.pmin), tuple(float(v) for v in r.pmax), tuple(r.units), tuple(r.dims)) for r in _regions(df, o)]
    if isinstance(o, df.Region):
        return (regs,)
    m = o.mesh if isinstance(o, df.Field) else o
    snap = (regs, tuple(int(v) for v in m.n), tuple(m.subregions))
    if isinstance(o, df.Field):
        snap += (o.array.shape, o.array.tobytes(), o.valid.tobytes())
    return snap


def _normal(df, o):
    try:
        for r in _regions(df, o):
            lo, hi = np.asarray(r.pmin, dtype=float), np.asarray(r.pmax, dtype=float)
            if not (np.all(np.isfinite(lo)) and np.all(np.isfinite(hi)) and np.all(lo < hi)):
                return False
            if len(r.dims) != len(lo) or len(r.units) != len(lo) or len(set(r.dims)) != len(r.dims):
                return False
        if isinstance(o, df.Region):
            return True
        m = o.mesh if isinstance(o, df.Field) else o
        n = np.asarray(m.n)
        if not (np.all(n >= 1) and np.issubdtype(n.dtype, np.integer)):
            return False
        edges = np.asarray(m.region.pmax, dtype=float) - np.asarray(m.region.pmin, dtype=float)
        if not np.allclose(np.asarray(m.cell, dtype=float) * n, edges, rtol=1e-9, atol=0):
            return False
        if isinstance(o, df.Field):
            if tuple(o.array.shape) != tuple(int(v) for v in n) + (o.nvdim,):
                return False
            if o.valid.dtype != np.bool_ or tuple(o.valid.shape) != tuple(int(v) for v in n):
                return False
        return True
    except Exception:  # an object that cannot even be inspected is not normal
        return False


def _agree(df, a, b):
    ra, rb = _regions(df, a), _regions(df, b)
    if len(ra) != len(rb):
        return False
    for x, y in zip(ra, rb):
        xs = np.concatenate([np.asarray(x.pmin, dtype=float), np.asarray(x.pmax, dtype=float)])
        ys = np.concatenate([np.asarray(y.pmin, dtype=float), np.asarray(y.pmax, dtype=float)])
        scale = max(float(np.max(np.abs(xs))), float(np.max(np.abs(ys))), 1e-300)
        if not np.all(np.abs(xs - ys) <= 1e-9 * scale) or tuple(x.units) != tuple(y.units):
            return False
    if isinstance(a, df.Region):
        return True
    ma, mb = (a.mesh, b.mesh) if isinstance(a, df.Field) else (a, b)
    if tuple(int(v) for v in ma.n) != tuple(int(v) for v in mb.n) or tuple(ma.subregions) != tuple(mb.subregions):
        return False
    if isinstance(a, df.Field):
        return a.array.shape == b.array.shape and np.allclose(a.array, b.array, rtol=1e-9, atol=1e-12) and np.array_equal(a.valid, b.valid)
    return True


def _apply(o, step, inplace):
    k = step["kind"]
    if k == "translate":
        return o.translate(tuple(step["v"]), inplace=inplace)
    if k == "scale":
        return o.scale(step["s"] if step["uniform"] else tuple(step["s"]), reference_point=step["ref"], inplace=inplace)
    return o.rotate90(step["a"], step["b"], k=step["k"], reference_point=step["ref"], inplace=inplace)


def _steps(rnd, nd, lo, edge, isfield):
    """argument classes: ordinary, far (collapse in floating point expected somewhere between 1e15 and 1e17 edge lengths),
    tiny / huge factors (results stay finite)"""
    dims = ("x", "y", "z")[:nd]
    e = max(edge[:nd])
    far = lambda: rnd.choice([-1, 1]) * e * 10.0 ** rnd.choice([6, 12, 15, 15.5, 16, 16.5, 17, 18, 20, 30])  # noqa: E731
    out = []
    if not isfield:
        for _ in range(3):
            v = [rnd.choice([0.0, e * rnd.uniform(-3, 3)]) for _ in range(nd)]
            v[rnd.randrange(nd)] = far()
            out.append({"kind": "translate", "v": v, "cls": "far-vector"})
        for _ in range(3):
            ref = [lo[d] + edge[d] * rnd.uniform(-1, 2) for d in range(nd)]
            ref[rnd.randrange(nd)] = far()
            f = rnd.choice([0.5, 2.0, -1.0, 3.0, 1e-3, -0.25])
            out.append({"kind": "scale", "s": f, "uniform": True, "ref": tuple(ref), "cls": "far-reference"})
        for _ in range(3):
            f = [rnd.choice([1.0, 2.0, -1.0]) for _ in range(nd)]
            f[rnd.randrange(nd)] = rnd.choice([-1, 1]) * 10.0 ** rnd.choice([-30, -200, -300, -320, 30, 100])
            ref = rnd.choice([None, tuple(lo[d] + edge[d] * rnd.uniform(-1, 2) for d in range(nd))])
            out.append({"kind": "scale", "s": f, "uniform": False, "ref": ref, "cls": "extreme-factor"})
    if nd >= 2:
        for _ in range(3):
            a, b = rnd.sample(dims, 2)
            ref = [lo[d] + edge[d] * rnd.uniform(-1, 2) for d in range(nd)]
            ref[dims.index(rnd.choice([a, b]))] = far()
            out.append({"kind": "rotate90", "a": a, "b": b, "k": rnd.choice([1, 2, 3, -1, 5]), "ref": tuple(ref), "cls": "far-reference"})
    return out


def observe(df, kind, nd, lo, edge, n, step, eid):
    """one experiment: two equal objects, the copying form on one, the in-place form on the other; what happened, as Booleans"""
    a, b = _build(df, kind, nd, lo, edge, n), _build(df, kind, nd, lo, edge, n)
    before_a, before_b = _snapshot(df, a), _snapshot(df, b)
    with np.errstate(all="ignore"):
        try:
            res = _apply(a, step, False)
            cpok = True
        except Exception:  # "rejected" = any exception
            res, cpok = None, False
        try:
            ret = _apply(b, step, True)
            ipok = True
        except Exception:
            ret, ipok = None, False
    return {"id": eid, "cpok": cpok, "ipok": ipok,
            "cpnormal": bool(cpok and _normal(df, res)), "ipnormal": bool(ipok and _normal(df, b)),
            "ipself": bool(ipok and ret is b), "ipsame": bool(_snapshot(df, b) == before_b) if not ipok else True,
            "cporig": bool(_snapshot(df, a) == before_a), "agree": bool(cpok and ipok and _agree(df, res, b))}


def replay(ctx, df, witness):
    """re-run one recorded experiment on the current tree; the verdict is TLC's (spec/C13X.tla)"""
    i = witness["experiment"]
    step = dict(i["step"])
    for k in ("v", "s", "ref"):
        if isinstance(step.get(k), list):
            step[k] = tuple(step[k])
    lo = list(i["p1"]) + [0.0] * (3 - len(i["p1"]))
    edge = list(i["edges"]) + [1.0] * (3 - len(i["edges"]))
    n = list(i["n"]) + [1] * (3 - len(i["n"]))
    ev = observe(df, i["object"], i["ndim"], lo, edge, n, step, 1)
    print("experiment:", i)
    print("observed now:", ev, "\nrecorded   :", witness.get("observed"))
    _, verdicts, _ = ctx.trace_check("C13X", "C13X.cfg", [ev], name="C13X_replay")
    for v in verdicts:
        print("still fails:", v)
    return 1 if verdicts else 0


def run_stage(ctx, df, nexp):
    rnd = random.Random(ctx.seed * 7 + 1313)
    events, info = [], {}
    eid = 0
    while len(events) < nexp:
        kind = rnd.choice(KINDS)
        nd = rnd.choice([1, 2, 3]) if kind != "field" else rnd.choice([2, 3])
        mag = 10.0 ** rnd.choice([-200, -9, 0, 0, 3, 150])
        lo = [mag * rnd.uniform(-2, 2) for _ in range(3)]
        edge = [mag * rnd.choice([1.0, 2.0, 0.3, 7.0]) for _ in range(3)]
        n = [rnd.choice([1, 2, 3, 4]) for _ in range(3)]
        try:
            _build(df, kind, nd, lo, edge, n)
        except Exception:
            continue  # the constructor refuses this configuration: not a transformation step
        for step in _steps(rnd, nd, lo, edge, kind == "field"):
            eid += 1
            ev = observe(df, kind, nd, lo, edge, n, step, eid)
            cpok, ipok = ev["cpok"], ev["ipok"]
            events.append(ev)
            info[eid] = {"object": kind, "ndim": nd, "p1": lo[:nd], "edges": edge[:nd], "n": n[:nd], "step": step}
            ctx.count()
            if cpok != ipok or not (cpok and ipok):
                ctx.nontriv("C13X", eid)
    r, verdicts, _ = ctx.trace_check("C13X", "C13X.cfg", events, name="C13X")
    if r.distinct != len(events):
        raise core._tlc.MachineryError(f"C13X consumed {r.distinct} experiments, expected {len(events)}")
    for v in verdicts:
        _, eid_, _l, clause = v
        i = info[eid_]
        ctx.violation(f"{clause}/{i['object']}.{i['step']['kind']}/float-edge/{i['step']['cls']}",
                      "the two forms of one transformation step disagree with the clause at the edge of floating point "
                      "(degenerate result, far vector / reference point, extreme factor)",
                      {"experiment": i, "observed": next(e for e in events if e["id"] == eid_)})
    ctx.traces += len(events)
    ctx.notes["C13X_experiments"] = len(events)
    ctx.notes["C13X_both_rejected"] = sum(1 for e in events if not e["cpok"] and not e["ipok"])
    ctx.notes["C13X_both_accepted"] = sum(1 for e in events if e["cpok"] and e["ipok"])
    if events:
        ctx.sample({"channel": "T", "stage": "C13X", "experiment": info[events[0]["id"]], "observed": events[0]})
    ctx.assumptions.append("C13X: 'normal' = finite corners with pmin < pmax for the region and every subregion, n >= 1, cell*n = edges to 1e-9 relative, "
                           "array shape (n..., nvdim) with Boolean validity of shape n; the two forms are compared to 1e-9 of the largest coordinate")
