"""PadOpt - Field.pad with the NumPy modes and options (a stage shared by the C07 and C08 checks).

C07: "padding cells outside the source follow the padding mode" (value AND validity; padding adds the requested number
     of cells per side);  C08: "padding ... transforms validity exactly as it transforms the data".

M: TLC exhaustive on spec/PadOpt.tla (MC_PadOpt + PadOpt_<tier>.cfg): every configuration (1-3-dimensional cell counts,
   distinct / repeated integer values, six validity patterns) x every axis x every mode/option record x every width pair;
   the padding is written constructively the way numpy.pad computes it (PadArr) and the property is stated per cell
   (PadOpt_AddsCells, PadOpt_PaddingFollowsMode, PadOpt_ValidityLikeData, PadOpt_LinesIndependent).
R: every dumped state is rebuilt as a real Field (scalar and three-component (v, 2v+1, -v); float and integer dtype; a
   dyadic and a real-world embedding) and `field.pad({axis: (l, r)}, mode=..., **options)` is compared with the state's
   `obs`: cell counts, region corners, every value, every validity flag.
T: a seeded random driver on larger meshes (to 7x5x3, random masks, widths 0..9, random modes / options, int and float
   fields, pad_width dicts over several axes in one call) logs the observed results as integers; spec/PadOptTrace.tla
   evaluates the declarative clauses on the observed arrays and compares them with PadArr (axis by axis).

`run_stage(ctx, df, clause_prefix)` records violations only; the caller calls core.finish.
Violation keys: "<clause_prefix>/pad.<mode>[.<option class>]/<value|validity|shape|raises>".
The TLA+ operators are the only oracle; Python projects floats to integer numerators over the denominator the
specification states (R) or that follows from the call (T: window length of a mean, 2 for a median, the widths of a ramp).
"""
import random

import numpy as np

from . import core, embed, fld, lat
from .core import Part

MODULE = "MC_PadOpt"
TRACE_MODULE = "PadOptTrace"

NAMES = [("x", "y", "z"), ("a", "b", "c"), ("z", "y", "x")]
GEOM_C = (4, 8, 12)          # cell sizes in quanta (anisotropic), lower corner: harness-level choices
GEOM_LO = (-8, 4, 0)
EMBS = [embed.DYADIC[0], embed.REAL[0]]
# (number of components, embedding, integer dtype?) - the four realisations of every state
VARIANTS = [(1, 0, False), (1, 1, True), (3, 0, True), (3, 1, False)]

WHAT = {
    "raises": "Field.pad raised for a padding NumPy defines",
    "shape": "the padded field does not have the requested number of cells per side (cell counts / region corners / array shapes)",
    "value": "a value of the padded field is not what the padding mode (with the given options) makes of its grid line",
    "validity": "the validity of the padded field is not the result of padding the mask the way the data is padded",
}


def tag_of(o):
    return o["mode"] if o["oc"] == "default" else f"{o['mode']}.{o['oc']}"


def kwargs_of(o):
    """the keyword arguments of the public call for a mode/option record of spec/PadOpt.tla"""
    mode, oc, a, b = o["mode"], o["oc"], o["a"], o["b"]
    if oc == "default":
        return {}
    if mode == "constant":
        return {"constant_values": a if oc == "scalar" else (a, b)}
    if mode == "linear_ramp":
        return {"end_values": a if oc == "scalar" else (a, b)}
    if mode in ("maximum", "minimum", "mean", "median"):
        return {"stat_length": a}
    if oc == "even":
        return {"reflect_type": "even"}
    raise core._tlc.MachineryError(f"unknown option record {o}")


def geom(n, lo=None, c=None):
    nd = len(n)
    return {"lo": list(lo if lo is not None else GEOM_LO[:nd]), "c": list(c if c is not None else GEOM_C[:nd]),
            "n": [int(x) for x in n]}


def make_field(df, m, emb, names, cells, valid, is_int):
    """cells: one component list per cell (first dimension fastest)"""
    mesh = lat.mesh_of(df, m, emb, dims=list(names))
    nv = len(cells[0])
    arr = fld.unflatten(cells, m["n"], dtype=int if is_int else float)
    mask = fld.unflatten_mask(valid, m["n"])
    if is_int:
        return df.Field(mesh, nvdim=nv, value=arr, valid=mask, dtype=int)
    return df.Field(mesh, nvdim=nv, value=arr, valid=mask)


def corners(m, emb, res_mesh):
    """lattice coordinates of the result mesh's corners; (plo, phi, exact?)"""
    nd = len(m["n"])
    cq = max(m["c"])
    coords = [m["lo"][d] - 10 * m["c"][d] for d in range(nd)] + [m["lo"][d] + m["c"][d] * (m["n"][d] + 10) for d in range(nd)]
    plo, phi, ok = [], [], res_mesh.region.ndim == nd
    if ok:
        for d in range(nd):
            a, oka = lat.proj_coord(emb, res_mesh.region.pmin[d], cq, coords)
            b, okb = lat.proj_coord(emb, res_mesh.region.pmax[d], cq, coords)
            plo.append(a)
            phi.append(b)
            ok = ok and oka and okb
    return plo, phi, ok


# ------------------------------------------------------------------ channel R
def compare(res, exp, m, emb, nv, is_int):
    """compare the padded field with the specification's result record; returns (condition class, detail) or None"""
    nd = len(m["n"])
    n2 = tuple(exp["n"])
    if tuple(int(x) for x in res.mesh.n) != n2 or res.array.shape != n2 + (nv,) or res.valid.shape != n2:
        return "shape", dict(got_n=res.mesh.n, array_shape=res.array.shape, valid_shape=res.valid.shape, want_n=n2)
    plo, phi, ok = corners(m, emb, res.mesh)
    wlo = [m["lo"][d] + exp["lo"][d] * m["c"][d] for d in range(nd)]
    whi = [m["lo"][d] + (m["n"][d] + exp["hi"][d]) * m["c"][d] for d in range(nd)]
    if not ok or plo != wlo or phi != whi:
        return "shape", dict(got_pmin=res.mesh.region.pmin, got_pmax=res.mesh.region.pmax, want_lattice=[wlo, whi])
    den = 1 if is_int else exp["den"]
    want = np.array(exp["vi"] if is_int else exp["v"], dtype=np.int64).reshape((-1, 3))[:, :nv]
    got = np.asarray(fld.flatten(res.array))
    if np.iscomplexobj(got) or not np.all(np.isfinite(got)):
        return "value", dict(got=got)
    scaled = got.astype(float) * den
    if den in (1, 2):
        bad = scaled != want
    else:  # a division by the window length / the width happened: tolerance (soundness rule 1)
        bad = np.abs(scaled - want) > 1e-9 * np.maximum(1.0, np.abs(want))
    if bad.any():
        k = int(np.argwhere(bad)[0][0])
        return "value", dict(cell=k, got=got[k], want_numerators=want[k], den=den)
    gw = fld.flatten_mask(res.valid)
    ww = np.array(exp["w"], dtype=bool)
    if res.valid.dtype != bool or not np.array_equal(gw, ww):
        return "validity", dict(dtype=str(res.valid.dtype), got=gw.astype(int), want=ww.astype(int))
    return None


def exec_state(df, st, part, prefix, tier="thorough"):
    cfg, act, obs = st["cfg"], st["act"], st["obs"]
    if act[0] != "pad":
        return 0
    d, o = act[1], dict(act[2])
    n = [int(x) for x in cfg["n"]]
    nd = len(n)
    m = geom(n)
    names = NAMES[(sum(n) + d) % 3][:nd]
    tag = tag_of(o)
    kw = kwargs_of(o)
    vals = list(cfg["vals"])
    cells3 = [[v, 2 * v + 1, -v] for v in vals]
    done = 0
    variants = VARIANTS
    if tier == "quick":
        # two of the four realisations per state, alternating deterministically over the states
        k = (sum(n) + d + len(tag) + o["a"] + sum(1 for x in cfg["valid"] if x)) % 2
        variants = [VARIANTS[k], VARIANTS[3 - k]]
    for nv, ei, want_int in variants:
        is_int = want_int and o["mode"] != "linear_ramp"      # the model does not state the integer ramp (np.linspace)
        emb = EMBS[ei]
        f = make_field(df, m, emb, names, [c[:nv] for c in cells3], list(cfg["valid"]), is_int)
        for w, exp in sorted(obs.items()):
            l, r = int(w[0]), int(w[1])
            part.count()
            part.trace()
            done += 1
            wit = dict(n=n, vals=vals, valid=list(cfg["valid"]), axis=d, widths=[l, r], mode=o["mode"], options=kw,
                       nvdim=nv, dtype="int" if is_int else "float", embedding=emb.name, dims=list(names))
            try:
                res = f.pad({names[d - 1]: (l, r)}, mode=o["mode"], **kw)
            except Exception as ex:  # noqa: BLE001 - "rejected" = any exception
                part.violation(f"{prefix}/pad.{tag}/raises", WHAT["raises"], dict(wit, exc=repr(ex)))
                continue
            bad = compare(res, exp, m, emb, nv, is_int)
            if bad:
                part.violation(f"{prefix}/pad.{tag}/{bad[0]}", WHAT[bad[0]], dict(wit, detail=bad[1], expected=exp))
            if l + r > 0:
                part.nontriv("R", tuple(n), tuple(vals), tuple(cfg["valid"]), d, tag, o["a"], o["b"], l, r, nv, ei)
    return done


# ------------------------------------------------------------------ channel T
STAT = ("maximum", "minimum", "mean", "median")
INDEX = ("edge", "wrap", "reflect", "symmetric")
# the named action of spec/PadOpt.tla a mode belongs to
ACTION_OF = {"constant": "QPadConstant", "maximum": "QPadStat", "minimum": "QPadStat", "mean": "QPadMean", "median": "QPadMean",
             "edge": "QPadIndex", "wrap": "QPadIndex", "reflect": "QPadIndex", "symmetric": "QPadIndex", "linear_ramp": "QPadRamp"}


def rand_opt(rnd, is_int):
    modes = ["constant", "constant"] + list(STAT) + list(INDEX) + ([] if is_int else ["linear_ramp", "linear_ramp"])
    mode = rnd.choice(modes)
    if mode in ("constant", "linear_ramp"):
        k = rnd.random()
        if k < 0.25:
            return dict(mode=mode, oc="default", a=0, b=0)
        if k < 0.6:
            c = rnd.randrange(0, 10)
            return dict(mode=mode, oc="scalar", a=c, b=c)
        return dict(mode=mode, oc="pair", a=rnd.randrange(0, 10), b=rnd.randrange(0, 10))
    if mode in STAT:
        if rnd.random() < 0.4:
            return dict(mode=mode, oc="default", a=0, b=0)
        return dict(mode=mode, oc="stat", a=rnd.randrange(1, 5), b=0)
    if mode in ("reflect", "symmetric") and rnd.random() < 0.3:
        return dict(mode=mode, oc="even", a=0, b=0)
    return dict(mode=mode, oc="default", a=0, b=0)


def den_of(o, steps, n, is_int):
    """the denominator the observed floats are projected with (a projection, not an expectation: the trace
    specification compares it with its own Den and every numerator with its own result)"""
    if is_int:
        return 1
    den = 1
    for d, l, r in steps:
        if o["mode"] == "mean":
            den *= n[d - 1] if o["a"] == 0 else min(o["a"], n[d - 1])
        elif o["mode"] == "median":
            den *= 2
        elif o["mode"] == "linear_ramp":
            den *= max(l, 1) * max(r, 1)
    return den


def observe(df, f, m, emb, names, nv, is_int, o, steps, rnd):
    """run one public call and project what it returns to integers"""
    items = [(names[d - 1], (l, r)) for d, l, r in steps]
    rnd.shuffle(items)                       # the order of the dict must not matter
    out = {"ok": True, "shape": True, "reg": True, "exact": True, "wbool": True, "n": [], "plo": [], "phi": [], "den": 1,
           "v": [], "w": [], "why": ""}
    try:
        res = f.pad(dict(items), mode=o["mode"], **kwargs_of(o))
    except Exception as ex:  # noqa: BLE001
        out["ok"] = False
        out["why"] = repr(ex)
        return out
    n2 = tuple(int(x) for x in res.mesh.n)
    out["n"] = list(n2)
    out["plo"], out["phi"], out["reg"] = corners(m, emb, res.mesh)
    den = den_of(o, steps, m["n"], is_int)
    out["den"] = den
    if res.array.shape != n2 + (nv,) or res.valid.shape != n2:
        out["shape"] = False
        out["why"] = f"array {res.array.shape}, valid {res.valid.shape}, mesh.n {n2}"
        return out
    got = np.asarray(fld.flatten(res.array))
    if np.iscomplexobj(got) or not np.all(np.isfinite(got)):
        out["exact"] = False
        got = np.zeros(got.shape)
    scaled = got.astype(float) * den
    nums = np.rint(scaled)
    tol = 0.0 if den in (1, 2) else 1e-9
    if np.any(np.abs(scaled - nums) > tol * np.maximum(1.0, np.abs(nums))) or np.any(np.abs(nums) >= 2 ** 30):
        out["exact"] = False
        out["why"] = "values off the lattice of integers over the denominator"
        nums = np.clip(nums, -2 ** 30, 2 ** 30)
    out["v"] = [[int(x) for x in row] for row in nums]
    out["wbool"] = bool(res.valid.dtype == bool)
    out["w"] = [bool(x) for x in fld.flatten_mask(res.valid)]
    return out


def gen_trace(df, rnd, tid, cell_cap):
    nd = rnd.choice([1, 2, 2, 3, 3])
    n = [rnd.randrange(1, cap + 1) for cap in (7, 5, 3)[:nd]]
    m = geom(n, lo=[rnd.randrange(-40, 41) for _ in range(nd)], c=rnd.sample([4, 8, 12, 20], nd))
    nv = rnd.choice([1, 1, 2, 3])
    is_int = rnd.random() < 0.4
    ncell = int(np.prod(n))
    cells = [[rnd.randrange(-9, 10) for _ in range(nv)] for _ in range(ncell)]
    p = rnd.choice([0.0, 0.15, 0.5, 0.85, 1.0])
    valid = [rnd.random() < p for _ in range(ncell)]
    emb = rnd.choice(EMBS)
    names = rnd.choice(NAMES)[:nd]
    f = make_field(df, m, emb, names, cells, valid, is_int)
    ev = []
    for _ in range(rnd.randrange(3, 7)):
        o = rand_opt(rnd, is_int)
        if nd > 1 and rnd.random() < 0.35:
            axes = sorted(rnd.sample(range(1, nd + 1), rnd.randrange(2, nd + 1)))
        else:
            axes = [rnd.randrange(1, nd + 1)]
        wmax = 9
        while True:
            steps = [[d, rnd.randrange(0, wmax + 1), rnd.randrange(0, wmax + 1)] for d in axes]
            n2 = list(n)
            for d, l, r in steps:
                n2[d - 1] += l + r
            if int(np.prod(n2)) <= cell_cap or wmax == 1:
                break
            wmax -= 1                          # keep the arrays the trace checker has to walk small
        ev.append({"st": steps, "o": o, "r": observe(df, f, m, emb, names, nv, is_int, o, steps, rnd)})
    # the operand must be untouched by the calls
    same = np.array_equal(fld.flatten(f.array), np.array(cells)) and np.array_equal(fld.flatten_mask(f.valid), np.array(valid))
    return {"id": tid, "emb": emb.name, "n": n, "lo": m["lo"], "c": m["c"], "nv": nv, "int": is_int, "a": cells,
            "valid": valid, "dims": list(names), "same": bool(same), "ev": ev}


def run_traces(ctx, df, ntraces, prefix, cell_cap):
    rnd = random.Random(ctx.seed * 7919 + 778)
    traces = [gen_trace(df, rnd, t + 1, cell_cap) for t in range(ntraces)]
    r, verdicts, _ = ctx.trace_check(TRACE_MODULE, "PadOptTrace.cfg", traces)
    expect = sum(len(t["ev"]) + 1 for t in traces)
    if r.distinct != expect:
        raise core._tlc.MachineryError(f"PadOptTrace consumed {r.distinct} states, expected {expect}")
    byid = {t["id"]: t for t in traces}
    for v in verdicts:
        _, tid, pos, name = v
        clause, cond = name
        t = byid[tid]
        e = t["ev"][pos - 1]
        if clause == "trace":
            raise core._tlc.MachineryError(f"PadOptTrace: the harness projected trace {tid} event {pos} wrongly ({cond}): {e}")
        ctx.violation(f"{prefix}/pad.{tag_of(e['o'])}/{cond}",
                      f"recorded execution rejected by PadOptTrace ({clause}): {WHAT[cond]}",
                      {k: t[k] for k in ("n", "lo", "c", "nv", "int", "a", "valid", "emb", "dims")} | {"event": e})
    for t in traces:
        if not t["same"]:
            ctx.violation(f"{prefix}/pad.operand/value", "Field.pad changed its operand", {k: t[k] for k in ("n", "a", "valid")})
    nev = sum(len(t["ev"]) for t in traces)
    ctx.traces += nev
    ctx.evaluations += nev
    for t in traces:
        for i, e in enumerate(t["ev"]):
            if any(l + r > 0 for _, l, r in e["st"]):
                ctx.nontriv("T", t["id"], i, tag_of(e["o"]))
    ctx.notes["padopt_trace_events"] = ctx.notes.get("padopt_trace_events", 0) + nev
    ctx.notes["padopt_trace_multi_axis"] = ctx.notes.get("padopt_trace_multi_axis", 0) + sum(
        1 for t in traces for e in t["ev"] if len(e["st"]) > 1)
    ctx.sample({"channel": "T", "stage": "PadOpt", "trace": {k: traces[0][k] for k in ("id", "emb", "n", "nv", "int")},
                "first_event": {k: traces[0]["ev"][0][k] for k in ("st", "o")}})
    return nev


# ------------------------------------------------------------------ the stage
def run_stage(ctx, df, clause_prefix):
    """M + R + T for Field.pad with modes and options; violations are recorded on ctx, nothing is finished here."""
    from . import tlaval

    # -coverage switches TLC's caching of LET definitions off (2x slower): the per-action counts are taken from the dump
    r = ctx.model(MODULE, f"PadOpt_{ctx.tier}.cfg", dump=True, coverage=False)
    cases = 0
    if r.ok:
        blocks = ctx.dump_blocks(r)

        def chunk(items):
            part = Part()
            for b in items:
                st = tlaval.parse_state_text(b)
                part.note("padopt_action_" + (ACTION_OF[st["act"][2]["mode"]] if st["act"][0] == "pad" else "Init"))
                exec_state(df, st, part, clause_prefix, ctx.tier)
            if items:
                st = tlaval.parse_state_text(items[-1])
                part.sample({"channel": "R", "stage": "PadOpt", "cfg": st["cfg"], "act": st["act"]})
            return part

        before = ctx.traces
        ctx.pmap(chunk, blocks, chunk=max(1, len(blocks) // 128))
        cases = ctx.traces - before
        if cases == 0:
            raise core._tlc.MachineryError("PadOpt: no dumped state was executed")
        for a in sorted(set(ACTION_OF.values())):
            fired = ctx.notes.get("padopt_action_" + a, 0)
            if fired == 0:
                raise core._tlc.MachineryError(f"PadOpt: action {a} never fired")
            ctx.coverage_actions[f"{MODULE}.{a}"] = fired
    nev = run_traces(ctx, df, 60 if ctx.tier == "quick" else 600, clause_prefix, 300 if ctx.tier == "quick" else 600)
    ctx.notes["padopt_states"] = r.distinct
    ctx.notes["padopt_impl_cases"] = cases
    ctx.assumptions += [
        "PadOpt: TLC explores the bounded configuration space of spec/PadOpt.tla completely (bounds in MC_PadOpt.tla)",
        "PadOpt: numpy.pad modes constant / maximum / minimum / mean / median / edge / wrap / reflect / symmetric (even) / "
        "linear_ramp with the options of notes/PadOpt.md; mean and linear_ramp are compared to 1e-9 (a division happens), "
        "everything else exactly; linear_ramp is not run on integer-dtype fields",
    ]
    return {"states": r.distinct, "impl_cases": cases, "trace_events": nev}
