"""Embeddings of lattice coordinates into floats, and exact projection back (DESIGN §5).

A lattice coordinate q (integer, or Fraction) is realised as  x = origin + q * quantum.
Dyadic embeddings make every intermediate of the library exactly representable, so exact
equality with the model is demanded; real-world embeddings use a tolerance and the
face-ambiguity rule.
"""
from dataclasses import dataclass
from fractions import Fraction
import math
import random


@dataclass(frozen=True)
class Embedding:
    name: str
    quantum: float
    origin: float
    dyadic: bool

    def x(self, q):
        """float coordinate of lattice coordinate q (int or Fraction)."""
        if isinstance(q, Fraction):
            return self.origin + (q.numerator * self.quantum) / q.denominator
        return self.origin + q * self.quantum

    def length(self, q):
        if isinstance(q, Fraction):
            return (q.numerator * self.quantum) / q.denominator
        return q * self.quantum

    def point(self, qs):
        return tuple(self.x(q) for q in qs)

    def exact(self, q):
        """exact rational position of the *float* the library is handed for q."""
        return Fraction(self.x(q))

    def q_of(self, x):
        """exact rational lattice coordinate of float x under this embedding."""
        return (Fraction(float(x)) - Fraction(self.origin)) / Fraction(self.quantum)

    def tol_q(self, cell_q, coords_q=()):
        """admissible deviation in lattice units for a coordinate comparison."""
        if self.dyadic:
            return Fraction(0)
        big = max([abs(self.origin)] + [abs(self.x(c)) for c in coords_q] + [abs(self.quantum * cell_q)])
        ulp = math.ulp(big)
        return Fraction(1, 10**9) * cell_q + 16 * Fraction(ulp) / Fraction(self.quantum)

    def close(self, x, q, cell_q, coords_q=()):
        """is float x equal to lattice coordinate q (exactly on dyadic, within tol otherwise)?"""
        d = abs(self.q_of(x) - q)
        return d <= self.tol_q(cell_q, tuple(coords_q) + (q,))


    def len_q(self, x):
        return Fraction(float(x)) / Fraction(self.quantum)

    def close_len(self, x, q, cell_q, coords_q=()):
        return abs(self.len_q(x) - q) <= self.tol_q(cell_q, coords_q)


DYADIC = [
    Embedding("unit", 1.0, 0.0, True),
    Embedding("half-3", 0.5, -3.0, True),
    Embedding("2^-30", 2.0**-30, 0.0, True),
    Embedding("2^20+2^22", 2.0**20, 2.0**22, True),
]
REAL = [
    Embedding("nm", 1e-9 / 4, 0.0, False),
    Embedding("0.1+0.3", 0.1 / 4, 0.3, False),
    Embedding("third-0.7", 1.0 / 12, -0.7, False),
    Embedding("7e-12+1e-10", 7e-12 / 4, 1e-10, False),
    Embedding("1e6/3-2.5e6", 1e6 / 12, -2.5e6, False),
    Embedding("nm+5e-7", 1e-9 / 4, 5e-7, False),
    Embedding("pm", 1e-12 / 4, 0.0, False),
    Embedding("half-pm+3pm", 5e-13 / 4, 3e-12, False),
    Embedding("1e6", 1e6 / 4, 0.0, False),
]


def seeded(seed, k=2):
    rnd = random.Random(seed)
    out = []
    for i in range(k):
        quantum = 10 ** rnd.uniform(-12, 5) * rnd.uniform(1, 9.99)
        origin = quantum * rnd.uniform(-1e4, 1e4)
        out.append(Embedding(f"rnd{i}-{seed}", quantum, origin, False))
    return out


def for_tier(tier, seed):
    if tier == "quick":
        return [DYADIC[0], DYADIC[1], REAL[1], REAL[6]] + seeded(seed, 1)
    return DYADIC + REAL + seeded(seed, 2)
