"""The register machine of spec/FieldAlg.tla executed on the real library (shared by C03 and C08).

A *model register* is the Python image of a FieldAlg register record (dict with keys k, m, nv, val,
vx, valid, vt, vdims, map, aux, vo [, dt]); values are Gaussian rationals (re, im, den).  The
`Machine` builds library objects from model registers under a float embedding of the mesh
coordinates, executes instructions <<op, i, j, x>> through the public API only, keeps a snapshot
of every register (values, validity, labels, mapping, mesh) to detect mutation of operands, and
reports aliasing of validity arrays (`is`, numpy.shares_memory).  Expected results always come from
TLC; nothing here computes what an operation should return.
"""
import functools
import operator
import os
from fractions import Fraction

import numpy as np
from . import fld

ABS_TOL = 1e-9  # relative to the magnitude of the operands / expected value (values are O(1..1e5) integers)


# ------------------------------------------------------------------ values
def g2num(t):
    """Gaussian rational (re, im, den) -> Python number (int when integral and real)."""
    re, im, den = t
    if im == 0:
        return re if den == 1 else re / den
    return complex(re / den, im / den)


def vals_to_array(val, n, nv, dt="float"):
    """model value array (cells in first-dimension-fastest order) -> ndarray (*n, nv)"""
    flat = [[g2num(t) for t in cell] for cell in val]
    cplx = dt == "complex" or any(isinstance(v, complex) for cell in flat for v in cell)
    a = np.array(flat, dtype=complex if cplx else (np.int64 if dt == "int" else float))
    n = tuple(int(v) for v in n)
    return np.stack([a[:, c].reshape(n, order="F") for c in range(nv)], axis=-1)


def mask_to_array(valid, n):
    return np.array(valid, dtype=bool).reshape(tuple(int(v) for v in n), order="F")


def flat_cells(arr):
    """ndarray (*n, nv) -> (ncells, nv) in the library's iteration order"""
    arr = np.asarray(arr)
    return arr.reshape((-1, arr.shape[-1]), order="F")


def flat_mask(valid):
    return np.asarray(valid).reshape(-1, order="F")


def expected_array(val):
    """model values -> complex ndarray (ncells, nv) and the magnitude scale used for tolerances"""
    return np.array([[complex(t[0] / t[2], t[1] / t[2]) for t in cell] for cell in val], dtype=complex)


def project_value(x, maxden=4096, maxabs=1e4):
    """float/complex -> Gaussian rational [re, im, den] with a common denominator, or None."""
    z = complex(x)
    if not (np.isfinite(z.real) and np.isfinite(z.imag)):
        return None
    if abs(z.real) > maxabs or abs(z.imag) > maxabs:
        return None
    fr = Fraction(z.real).limit_denominator(maxden)
    fi = Fraction(z.imag).limit_denominator(maxden)
    tol = 1e-12 * max(1.0, abs(z.real), abs(z.imag))
    if abs(float(fr) - z.real) > tol or abs(float(fi) - z.imag) > tol:
        return None
    den = fr.denominator * fi.denominator // np.gcd(fr.denominator, fi.denominator)
    den = int(den)
    if den > maxden * maxden or den >= 2**30:
        return None
    re = fr.numerator * (den // fr.denominator)
    im = fi.numerator * (den // fi.denominator)
    if abs(re) >= 2**30 or abs(im) >= 2**30:
        return None
    return [int(re), int(im), den]


def project_array(arr):
    """ndarray (*n, nv) -> list of cells of [re, im, den] triples, or None if some value is not a small rational"""
    out = []
    for cell in flat_cells(arr):
        row = []
        for v in cell:
            t = project_value(v)
            if t is None:
                return None
            row.append(t)
        out.append(row)
    return out


# ------------------------------------------------------------------ classification for canonical keys
def default_vdims(nv):
    if nv == 1:
        return []
    if nv <= 3:
        return ["x", "y", "z"][:nv]
    return [f"v{i}" for i in range(nv)]


def kind_letter(reg):
    """s/S scalar field (plain/labelled), v/V vector field (default/custom labels), n number, k vector, a array"""
    k = reg["k"]
    if k == "num":
        return "n"
    if k == "vec":
        return "k"
    if k == "arr":
        return "a"
    custom = list(reg["vdims"]) != default_vdims(reg["nv"])
    if reg["nv"] == 1:
        return "S" if custom else "s"
    return "V" if custom else "v"


def obj_letter(obj):
    """the same classification from a library object (what the operation really received)"""
    if isinstance(obj, np.ndarray):
        return "K" if obj.ndim == 1 else "a"  # NumPy constant vector / per-cell array
    if isinstance(obj, (tuple, list)):
        return "k"
    if isinstance(obj, np.number):
        return "N"  # NumPy scalar
    if isinstance(obj, (int, float, complex)):
        return "n"
    vd = [] if obj.vdims is None else list(obj.vdims)
    custom = vd != default_vdims(obj.nvdim)
    if obj.nvdim == 1:
        return "S" if custom else "s"
    return "V" if custom else "v"


def op_name(ins):
    op, i, j, x = ins
    if op in ("ufunc1", "ufunc2"):
        return f"{op}.{x}"
    if op == "pad":
        return f"pad.{x[3]}"
    if op == "set_valid":
        return f"set_valid.{x[0]}"
    return op


def op_class(ins, objs):
    """canonical operation class: name + kinds of the operands actually passed"""
    op, i, j, x = ins
    ks = obj_letter(objs[i - 1]) + (obj_letter(objs[j - 1]) if j else "")
    return f"{op_name(ins)}.{ks}"


# ------------------------------------------------------------------ the machine
class Snapshot:
    __slots__ = ("array", "valid", "vdims", "mapping", "mesh", "meshkey", "nvdim", "unit")

    def __init__(self, f):
        self.array = np.array(f.array, copy=True)
        self.valid = np.array(f.valid, copy=True)
        self.vdims = None if f.vdims is None else list(f.vdims)
        self.mapping = dict(f.vdim_mapping)
        self.mesh = f.mesh
        self.meshkey = mesh_key(f.mesh)
        self.nvdim = f.nvdim
        self.unit = f.unit

    def diff(self, f):
        """names of the parts of field f that differ from the snapshot"""
        out = []
        if f.array.shape != self.array.shape or f.array.dtype != self.array.dtype or not np.array_equal(f.array, self.array, equal_nan=True):
            out.append("values")
        if f.valid.shape != self.valid.shape or f.valid.dtype != self.valid.dtype or not np.array_equal(f.valid, self.valid):
            out.append("validity")
        if (None if f.vdims is None else list(f.vdims)) != self.vdims:
            out.append("labels")
        if dict(f.vdim_mapping) != self.mapping:
            out.append("mapping")
        if f.mesh is not self.mesh or mesh_key(f.mesh) != self.meshkey:
            out.append("mesh")
        return out


def mesh_key(mesh):
    r = mesh.region
    return (tuple(float(v) for v in r.pmin), tuple(float(v) for v in r.pmax), tuple(int(v) for v in mesh.n),
            tuple(r.dims), tuple(r.units), str(mesh.bc))


class Rejected(Exception):
    def __init__(self, exc):
        super().__init__(repr(exc))
        self.exc = exc


class Machine:
    def __init__(self, df, emb, scratch=None):
        self.df = df
        self.emb = emb
        self.scratch = scratch
        self.objs = []  # library objects / numbers / tuples / ndarrays, one per register
        self.snaps = []  # Snapshot or None
        self._meshes = {}
        self._nfile = 0

    # ---- construction
    def mesh_of(self, m):
        key = (tuple(m["lo"]), tuple(m["c"]), tuple(m["n"]), tuple(m["dims"]))
        if key not in self._meshes:
            nd = len(m["n"])
            p1 = [self.emb.x(m["lo"][d]) for d in range(nd)]
            p2 = [self.emb.x(m["lo"][d] + m["c"][d] * m["n"][d]) for d in range(nd)]
            reg = self.df.Region(p1=p1, p2=p2, dims=list(m["dims"]))
            from . import lat
            self._meshes[key] = lat.arrive_in_place(self.df, self.df.Mesh(region=reg, n=tuple(int(v) for v in m["n"])), self.emb,
                                                    sum(int(v) for v in m["n"]) * 5 + len(m["dims"]))
        return self._meshes[key]

    def build(self, reg):
        k = reg["k"]
        if k == "num":
            return g2num(reg["val"])
        if k == "vec":
            return tuple(g2num(t) for t in reg["val"])
        if k == "arr":
            return vals_to_array(reg["val"], reg["m"]["n"], reg["nv"])
        mesh = self.mesh_of(reg["m"])
        dt = reg.get("dt", "float")
        arr = vals_to_array(reg["val"], reg["m"]["n"], reg["nv"], dt)
        vdims = list(reg["vdims"]) if reg["vdims"] else None
        mapping = dict(zip(reg["vdims"], reg["map"])) if reg["map"] else {}
        if len(mapping) > 1 and sum(reg["m"]["n"]) % 2 == 0:
            mapping = dict(reversed(list(mapping.items())))   # key order of a mapping must not matter
        dtype = {"int": np.int64, "complex": np.complex128}.get(dt)
        return self.df.Field(mesh, nvdim=reg["nv"], value=arr, valid=mask_to_array(reg["valid"], reg["m"]["n"]),
                             vdims=vdims, vdim_mapping=mapping, dtype=dtype)

    def load(self, mregs):
        for r in mregs:
            self.push(self.build(r))

    def push(self, obj):
        self.objs.append(obj)
        self.snaps.append(Snapshot(obj) if isinstance(obj, self.df.Field) else None)

    def resnap(self, i):
        self.snaps[i] = Snapshot(self.objs[i])

    # ---- coordinates of the model mesh under the embedding
    def _centre(self, m, d, j):
        return self.emb.x(Fraction(2 * m["lo"][d] + (2 * j + 1) * m["c"][d], 2))

    def _quarter(self, m, d, j, upper):
        return self.emb.x(Fraction(4 * m["lo"][d] + (4 * j + (3 if upper else 1)) * m["c"][d], 4))

    # ---- execution: returns the new object (or None for in-place instructions); raises Rejected
    def execute(self, ins, mregs):
        try:
            return self._execute(ins, mregs)
        except Rejected:
            raise
        except Exception as ex:  # "rejected" = any exception of the library call
            raise Rejected(ex) from None

    def _execute(self, ins, mregs):
        df = self.df
        op, i, j, x = ins
        a = self.objs[i - 1]
        b = self.objs[j - 1] if j else None
        am = mregs[i - 1]
        self._nexec = getattr(self, "_nexec", 0) + 1
        if (self._nexec + len(self.objs) + i + j + len(str(x))) % 2 == 0:
            # the operands' values arrive through in-place writes with warm-up reads in between (fld.rewrite_in_place)
            for o in (a, b):
                if isinstance(o, df.Field):
                    fld.rewrite_in_place(o)
        if op == "neg":
            return -a
        if op == "pos":
            return +a
        if op == "abs":
            return abs(a)
        if op == "real":
            return a.real
        if op == "imag":
            return a.imag
        if op == "conj":
            return a.conjugate
        if op == "cabs":
            return a.abs
        if op == "phase":
            return a.phase
        if op == "norm":
            return a.norm
        if op == "orientation":
            return a.orientation
        if op == "add":
            return a + b
        if op == "sub":
            return a - b
        if op == "mul":
            return a * b
        if op == "div":
            return a / b
        if op == "pow":
            return a**b
        if op == "dot":
            if isinstance(a, df.Field) and isinstance(b, df.Field) and (i + j) % 2 == 0:
                return a.dot(b)
            return a @ b
        if op == "cross":
            if isinstance(a, df.Field) and isinstance(b, df.Field) and (i + j) % 2 == 0:
                return a.cross(b)
            return a & b
        if op == "angle":
            return a.angle(b)
        if op == "lshift":
            return a << b
        if op == "comp":
            return getattr(a, a.vdims[x - 1])
        if op == "restack":
            return functools.reduce(operator.lshift, [getattr(a, lab) for lab in a.vdims])
        if op == "ufunc1":
            return getattr(np, x)(a)
        if op == "ufunc2":
            return getattr(np, x)(a, b)
        m = am["m"]
        dims = list(m["dims"])
        if op == "diff":
            if len(x) > 2 and not x[2]:
                # the non-default option: invalid cells take part in the stencils; the result's validity is still the operand's
                return a.diff(dims[x[0] - 1], order=x[1], restrict2valid=False)
            return a.diff(dims[x[0] - 1], order=x[1])
        if op == "grad":
            return a.grad
        if op == "divg":
            return a.div
        if op == "curl":
            return a.curl
        if op == "laplace":
            return a.laplace
        if op == "sel":
            d = x[0] - 1
            return a.sel(**{dims[d]: self._centre(m, d, x[1])})
        if op == "selrange":
            d = x[0] - 1
            return a.sel(**{dims[d]: (self._centre(m, d, x[1]), self._centre(m, d, x[2]))})
        if op == "getitem":
            lo, hi = x
            p1 = [self._quarter(m, d, lo[d], False) for d in range(len(dims))]
            p2 = [self._quarter(m, d, hi[d], True) for d in range(len(dims))]
            return a[df.Region(p1=p1, p2=p2, dims=dims)]
        if op == "pad":
            return a.pad({dims[x[0] - 1]: (x[1], x[2])}, mode=x[3])
        if op == "resample":
            return a.resample(tuple(int(v) for v in x))
        if op == "rotate90":
            return a.rotate90(dims[x[0] - 1], dims[x[1] - 1], k=x[2])
        if op in ("h5", "vtk"):
            self._nfile += 1
            path = os.path.join(self.scratch, f"rt_{os.getpid()}_{self._nfile}.{'h5' if op == 'h5' else 'vtk'}")
            try:
                a.to_file(path)
                return df.Field.from_file(path)
            finally:
                if os.path.exists(path):
                    os.remove(path)
        if op == "set_valid":
            a.valid = self.valid_spec(x, am, a)
            return None
        if op == "mutate_valid":
            idx = np.unravel_index(x - 1, a.valid.shape, order="F")
            a.valid[idx] = not bool(a.valid[idx])
            return None
        raise ValueError(f"unknown instruction {ins}")

    def valid_spec(self, x, am, a):
        kind, p = x
        n = tuple(int(v) for v in am["m"]["n"])
        ncell = int(np.prod(n))
        bits = [bool((p >> k) & 1) for k in range(ncell)]
        if kind == "array":
            return np.array(bits, dtype=bool).reshape(n, order="F")
        if kind == "intarray":
            return np.array(bits, dtype=np.int64).reshape(n, order="F")
        if kind == "func":
            mesh = a.mesh

            def fn(point):
                idx = mesh.point2index(point)
                return bits[int(np.ravel_multi_index(tuple(int(v) for v in idx), n, order="F"))]

            return fn
        if kind == "const":
            return bool(p)
        if kind == "none":
            return None
        if kind == "norm":
            return "norm"
        raise ValueError(kind)

    # ---- observation
    def changed(self):
        """{register number (1-based): [parts that differ from the snapshot]} over all field registers"""
        out = {}
        for k, (o, s) in enumerate(zip(self.objs, self.snaps)):
            if s is not None:
                d = s.diff(o)
                if d:
                    out[k + 1] = d
        return out

    def aliases(self, obj, upto=None):
        """registers (1-based) whose validity array is the same object as / shares memory with obj.valid"""
        same, shared = [], []
        for k, o in enumerate(self.objs[:upto]):
            if isinstance(o, self.df.Field) and o is not None:
                if o.valid is obj.valid:
                    same.append(k + 1)
                elif np.shares_memory(o.valid, obj.valid):
                    shared.append(k + 1)
        return same, shared


# ------------------------------------------------------------------ comparison with the expected register
def mapping_seq(f):
    """library vdim_mapping -> model `map` (sequence aligned with vdims, () for {})"""
    if not f.vdim_mapping:
        return ()
    if f.vdims is None:
        return tuple(sorted(f.vdim_mapping.values()))
    return tuple(f.vdim_mapping.get(v, "") for v in f.vdims)


def vdims_seq(f):
    return tuple(f.vdims) if f.vdims is not None else ()


def values_close(obs_flat, exp, scale):
    """|obs - exp| <= ABS_TOL * scale component-wise; exact integers compare equal anyway"""
    with np.errstate(invalid="ignore"):
        d = np.abs(obs_flat.astype(complex) - exp)
    return bool(np.all(np.isfinite(d))) and bool(np.all(d <= ABS_TOL * scale))


def magnitude(mregs, ins, exp):
    """scale for the tolerance: largest magnitude among operands and the expected result (>= 1)"""
    s = 1.0
    for idx in (ins[1], ins[2]):
        if idx:
            r = mregs[idx - 1]
            vals = [r["val"]] if r["k"] == "num" else (list(r["val"]) if r["k"] == "vec" else [t for c in r["val"] for t in c])
            for t in vals:
                s = max(s, abs(t[0]) / t[2], abs(t[1]) / t[2])
    if exp is not None and exp.size:
        s = max(s, float(np.max(np.abs(exp))))
    return s


def mesh_matches(f, m, emb):
    """does the library mesh of f realise the model mesh m (cell counts exact, corners by the embedding rule)?"""
    mesh = f.mesh
    nd = len(m["n"])
    if tuple(int(v) for v in mesh.n) != tuple(m["n"]) or mesh.region.ndim != nd:
        return False
    if tuple(mesh.region.dims) != tuple(m["dims"]):
        return False
    cq = max(m["c"])
    coords = list(m["lo"]) + [m["lo"][d] + m["c"][d] * m["n"][d] for d in range(nd)]
    for d in range(nd):
        if not emb.close(mesh.region.pmin[d], m["lo"][d], cq, coords):
            return False
        if not emb.close(mesh.region.pmax[d], m["lo"][d] + m["c"][d] * m["n"][d], cq, coords):
            return False
    return True
