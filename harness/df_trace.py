"""Channel T driver for the mixed-history model (spec/DF.tla, spec/DFTrace.tla).

A seeded random driver builds a small object graph (1-3 fields, shared or equal meshes, subregions, masks,
permuted component-to-axis mappings) on meshes bigger than TLC can enumerate and executes long programs that
mix geometry, selection, algebra, validity, value updates, persistence and derivatives on the REAL library.
After every call the whole reachable object graph is projected (df_world.World.project) and logged; TLC then
validates every step with the operators of DF.tla.

The driver never decides what is right: it only picks calls whose arguments are meaningful for the objects at
hand (read from the live objects through the public API) and keeps coordinates inside the integer range of TLC.
"""
import random
from fractions import Fraction

import numpy as np

from . import df_world as W

LABELS = ("p", "q", "w", "u")
RELABEL = ("a", "b", "c", "d", "p", "q")
PAD_MODES = ("constant", "wrap", "edge")
OPS = [("neg", 3), ("pos", 1), ("abs", 2), ("add", 4), ("mul", 3), ("mulnum", 2), ("comp", 3), ("lshift", 2), ("diff", 3),
       ("sub", 2), ("dot", 2), ("cross", 1), ("norm", 2), ("orientation", 1), ("integrate", 2), ("fromfield", 3), ("setsub", 2), ("q_meshclose", 1), ("q_fieldclose", 2), ("q_regionin", 1), ("q_aligned", 2),
       ("q_eq", 2), ("q_mean", 2), ("q_call", 3), ("mean", 2), ("setvdims", 2),
       ("addnum", 2), ("pow2", 2), ("angle", 1), ("integratecum", 2),
       ("setvalid", 5), ("mutatevalid", 4), ("updateconst", 2), ("setarray", 2), ("writearray", 3),
       ("selplane", 3), ("selrange", 4), ("getsub", 3), ("getregion", 3), ("pad", 4), ("resample", 2),
       ("h5", 2), ("ovf", 1), ("vtk", 1), ("xarray", 2),
       ("translate", 3), ("scale", 2), ("meshrotate", 2), ("fieldrotate", 5), ("mkfield", 1)]
NAMES = [o for o, w in OPS for _ in range(w)]
FVARS = ("f", "g", "h")


def _pair(fr):
    fr = Fraction(fr)
    return [fr.numerator, fr.denominator]


def random_scenario(rnd, big=True):
    """a heap in the format of DF.tla (python dicts / tuples) and the user's variables"""
    nd = rnd.choice([2, 2, 3, 3, 3])
    while True:
        n = [rnd.randint(1, 5 if big else 3) for _ in range(nd)]
        if 4 <= int(np.prod(n)) <= (40 if big else 12):
            break
    cell = [rnd.choice([2, 3, 4]) for _ in range(nd)]
    lo = [rnd.randint(-6, 6) for _ in range(nd)]
    hi = [lo[d] + cell[d] * n[d] for d in range(nd)]
    metric = nd == 3 and rnd.random() < 0.6
    dims = ("x", "y", "z") if metric else ("a", "b", "c")[:nd]
    units = ("m",) * nd if metric else ("m", "s", "K")[:nd]

    def reg(l, h):
        return {"k": "region", "lo": tuple((v, 1) for v in l), "hi": tuple((v, 1) for v in h), "units": units, "dims": dims}

    def submesh(rid, oid0):
        heap, subs, names = {}, [], []
        for j in range(rnd.choice([0, 1, 1, 2])):
            a = [rnd.randint(0, n[d] - 1) for d in range(nd)]
            b = [rnd.randint(a[d], n[d] - 1) for d in range(nd)]
            heap[oid0 + j] = reg([lo[d] + cell[d] * a[d] for d in range(nd)], [lo[d] + cell[d] * (b[d] + 1) for d in range(nd)])
            subs.append(oid0 + j)
            names.append(f"s{j + 1}")
        mid = oid0 + len(subs)
        heap[mid] = {"k": "mesh", "region": rid, "n": tuple(n), "sub": tuple(subs), "names": tuple(names)}
        return heap, mid

    N = int(np.prod(n))

    def field(mid, fid):
        nv = rnd.choice([1, 1, 2, 3, nd, nd])
        lab = LABELS[:nv] if nv > 1 else ()
        mp = ()
        if nv > 1 and nv == nd and rnd.random() < 0.8:
            perm = list(dims)
            rnd.shuffle(perm)
            mp = tuple(perm)
        vals = rnd.sample(range(1, 90), min(N * nv, 80)) + [rnd.randint(1, 90) for _ in range(max(0, N * nv - 80))]
        arr = tuple(tuple(vals[k * nv + c] * rnd.choice([-1, 1]) for c in range(nv)) for k in range(N))
        if rnd.random() < 0.5:  # some exact zero cells, for valid='norm'
            z = set(rnd.sample(range(N), max(1, N // 5)))
            arr = tuple(tuple(0 for _ in range(nv)) if k in z else arr[k] for k in range(N))
        valid = tuple(rnd.random() < 0.75 for _ in range(N))
        return {"k": "field", "mesh": mid, "nv": nv, "arr": arr, "valid": valid, "shape": tuple(n), "lab": lab, "map": mp,
                "vx": True, "mx": True, "vo": fid, "ao": fid}

    heap = {1: reg(lo, hi)}
    hm, mid = submesh(1, 2)
    heap.update(hm)
    heap[mid + 1] = field(mid, mid + 1)
    roots = {"f": mid + 1}
    nxt = mid + 2
    r = rnd.random()
    if r < 0.45:  # a second field sharing the mesh object
        heap[nxt] = field(mid, nxt)
        roots["g"] = nxt
    elif r < 0.8:  # a second field on an equal mesh of its own
        heap[nxt] = reg(lo, hi)
        heap[nxt + 1] = {"k": "mesh", "region": nxt, "n": tuple(n), "sub": (), "names": ()}
        heap[nxt + 2] = field(nxt + 1, nxt + 2)
        roots["g"] = nxt + 2
    return heap, roots


class Driver:
    def __init__(self, df, rnd, world):
        self.df, self.rnd, self.w = df, rnd, world
        self.level = 0  # net number of doublings applied to coordinates

    # ------------------------------------------------------------------ helpers
    def fields(self):
        return [x for x in sorted(self.w.vars) if isinstance(self.w.vars[x], self.df.Field)]

    def fresh(self, x):
        free = [v for v in FVARS if v not in self.w.vars]
        if free:
            return free[0]
        return FVARS[(FVARS.index(x) + 1) % 3] if x in FVARS else "f"

    def dst(self, x):
        return self.rnd.choice([x, self.fresh(x), self.fresh(x)])

    def call(self, op, x, y="", dst="", tg="self", ip=False, a=None):
        return {"op": op, "x": x, "y": y, "dst": dst or x, "tg": tg, "ip": bool(ip), "a": a if a is not None else {"z": 0}}

    def _maxabs(self, f):
        a = np.asarray(f.array)
        return float(np.max(np.abs(a))) if a.size and np.all(np.isfinite(a)) else 1e30

    def _alias_pattern(self, c):
        """would this in-place step realise one of the known aliasing patterns P1 / P2 / P3 (DF!AliasGuard)?"""
        df, w = self.df, self.w
        if c["op"] not in W.GEO or not c["ip"]:
            return False
        t = w.target(c)
        tmesh = t if isinstance(t, df.Mesh) else t.mesh if isinstance(t, df.Field) else None
        moved = [t] if isinstance(t, df.Region) else [tmesh.region] + list(tmesh.subregions.values())
        live = w.reachable()
        for o in live:
            if isinstance(o, df.Mesh) and o is not tmesh:
                if len(o.subregions) and any(o.region is r for r in moved):
                    return True  # P2
                if any(s is r for s in o.subregions.values() for r in moved):
                    return True  # P3
        if c["op"] == "rotate90" and c["a"]["k"] % 2 == 1 and tmesh is not None:
            for o in live:
                if isinstance(o, df.Field) and o is not t and o.mesh is tmesh:
                    return True  # P1 (also when the two counts happen to be equal: the driver is only more careful)
        return False

    # ------------------------------------------------------------------ one random call
    def pick(self):
        rnd, df, w = self.rnd, self.df, self.w
        for _ in range(80):
            op = rnd.choice(NAMES)
            F = self.fields()
            if not F:
                return None
            x = rnd.choice(F)
            f = w.vars[x]
            n = [int(v) for v in f.mesh.n]
            nd = len(n)
            N = int(np.prod(n))
            if op in ("neg", "abs"):
                return self.call(op, x, dst=self.dst(x))
            if op == "pos":
                return self.call(op, x, dst=x)
            if op in ("add", "mul", "lshift"):
                y = rnd.choice(F)
                g = w.vars[y]
                if op == "lshift" and f.nvdim + g.nvdim > 4:
                    continue
                big = 3e4 if op == "mul" else 5e8
                if op != "lshift" and (self._maxabs(f) > big or self._maxabs(g) > big):
                    continue
                return self.call(op, x, y=y, dst=self.dst(x))
            if op == "q_mean":
                if self._maxabs(f) > 1e7:
                    continue
                return self.call(op, x, dst=x)
            if op == "q_call":
                return self.call(op, x, dst=x, a={"cell": rnd.randint(1, N)})
            if op == "setvdims":
                nv = int(f.nvdim)
                lab = rnd.sample(RELABEL, nv)
                r = rnd.random()
                if r < 0.15 and nv > 1:
                    lab[-1] = lab[0]
                elif r < 0.25:
                    lab = lab + [next(x for x in RELABEL if x not in lab)]
                return self.call(op, x, dst=x, ip=True, a={"lab": lab})
            if op == "mean":
                if nd < 2:
                    continue
                return self.call(op, x, dst=self.dst(x), a={"d": rnd.randint(1, nd)})
            if op.startswith("q_"):
                return self.call(op, x, y=rnd.choice(F), dst=x)
            if op == "sub":
                y = rnd.choice(F)
                if self._maxabs(f) > 5e8 or self._maxabs(w.vars[y]) > 5e8:
                    continue
                return self.call(op, x, y=y, dst=self.dst(x))
            if op == "addnum":
                if self._maxabs(f) > 1e9:
                    continue
                return self.call(op, x, dst=self.dst(x), a={"c": rnd.choice([-2, 3, -1, 2])})
            if op == "pow2":
                if self._maxabs(f) > 30000:
                    continue
                return self.call(op, x, dst=self.dst(x))
            if op == "integratecum":
                return self.call(op, x, dst=self.dst(x), a={"d": rnd.randint(1, nd)})
            if op in ("dot", "cross", "angle"):
                Y = [v for v in F if w.vars[v].nvdim == f.nvdim]
                y = rnd.choice(Y)
                if self._maxabs(f) > 15000 or self._maxabs(w.vars[y]) > 15000:
                    continue
                return self.call(op, x, y=y, dst=self.dst(x))
            if op in ("norm", "orientation"):
                return self.call(op, x, dst=self.dst(x))
            if op == "integrate":
                if nd < 2:
                    continue
                return self.call(op, x, dst=self.dst(x), a={"d": rnd.randint(1, nd)})
            if op == "fromfield":
                Y = [v for v in F if v != x]
                if not Y:
                    continue
                return self.call(op, x, y=rnd.choice(Y), dst=x, ip=True)
            if op == "setsub":
                a = [rnd.randint(0, n[d] - 1) for d in range(nd)]
                b = [rnd.randint(a[d], n[d] - 1) for d in range(nd)]
                if rnd.random() < 0.15:
                    d = rnd.randrange(nd)
                    b[d] = n[d]
                return self.call(op, x, dst=x, tg="mesh", ip=True, a={"a": a, "b": b, "sh": rnd.random() < 0.25})
            if op == "mulnum":
                if self._maxabs(f) > 1e8:
                    continue
                return self.call(op, x, dst=self.dst(x), a={"c": rnd.choice([-2, 3, -1, 2])})
            if op == "comp":
                if not f.vdims:
                    continue
                return self.call(op, x, dst=self.dst(x), a={"c": rnd.randint(1, f.nvdim)})
            if op == "diff":
                return self.call(op, x, dst=self.dst(x), a={"d": rnd.randint(1, nd)})
            if op == "setvalid":
                kind = rnd.choice(["array", "array", "norm", "norm", "none"])
                mask = [rnd.random() < 0.7 for _ in range(N)] if kind == "array" else []
                return self.call(op, x, ip=True, a={"kind": kind, "mask": mask})
            if op == "mutatevalid":
                return self.call(op, x, ip=True, a={"cell": rnd.randint(1, N)})
            if op == "updateconst":
                return self.call(op, x, ip=True, a={"c": rnd.choice([-2, 3, 0, 7])})
            if op == "setarray":
                return self.call(op, x, ip=True, a={"p": rnd.randint(1, 9)})
            if op == "writearray":
                return self.call(op, x, ip=True, a={"cell": rnd.randint(1, N), "v": rnd.choice([7, -3, 0, 12])})
            if op == "selplane":
                if nd < 2:
                    continue
                d = rnd.randint(1, nd)
                return self.call(op, x, dst=self.dst(x), a={"d": d, "j": rnd.randint(0, n[d - 1] - 1)})
            if op == "selrange":
                d = rnd.randint(1, nd)
                j1 = rnd.randint(0, n[d - 1] - 1)
                return self.call(op, x, dst=self.dst(x), a={"d": d, "j1": j1, "j2": rnd.randint(j1, n[d - 1] - 1)})
            if op == "getsub":
                k = len(f.mesh.subregions)
                if not k:
                    continue
                return self.call(op, x, dst=self.dst(x), a={"s": rnd.randint(1, k)})
            if op == "getregion":
                a = [rnd.randint(0, n[d] - 1) for d in range(nd)]
                b = [rnd.randint(a[d], n[d] - 1) for d in range(nd)]
                return self.call(op, x, dst=self.dst(x), a={"a": a, "b": b})
            if op == "pad":
                d = rnd.randint(1, nd)
                l, r = rnd.randint(0, min(2, n[d - 1])), rnd.randint(0, min(2, n[d - 1]))
                if l + r == 0 or N // n[d - 1] * (n[d - 1] + l + r) > 60:
                    continue
                return self.call(op, x, dst=self.dst(x), a={"d": d, "l": l, "r": r, "mode": rnd.choice(PAD_MODES)})
            if op == "resample":
                return self.call(op, x, dst=self.dst(x), a={"n": n})
            if op in ("h5", "xarray", "vtk", "ovf"):
                if op in ("vtk", "ovf") and nd != 3:
                    continue
                return self.call(op, x, dst=self.dst(x))
            if op == "mkfield":
                M = [v for v in sorted(w.vars) if isinstance(w.vars[v], df.Mesh)]
                if not M:
                    continue
                m = rnd.choice(M)
                nv = rnd.choice([1, len(w.vars[m].n)])
                return self.call(op, m, dst=rnd.choice(["f", self.fresh("f")]), a={"nv": nv, "p": rnd.randint(1, 9)})
            # ---- geometry
            V = sorted(w.vars)
            if op == "fieldrotate":
                if nd < 2:
                    continue
                a, b = rnd.sample(range(1, nd + 1), 2)
                ip = rnd.random() < 0.4
                ref = [] if rnd.random() < 0.6 else [_pair(Fraction(rnd.randint(-8, 8), rnd.choice([1, 2]))) for _ in range(nd)]
                c = self.call("rotate90", x, dst=x if ip else self.dst(x), ip=ip, a={"a": a, "b": b, "k": rnd.choice([1, 1, 2, 3, -1, -2, 5, 0, 4]), "ref": ref})
            else:
                xv = rnd.choice(V)
                o = w.vars[xv]
                tgs = ["mesh", "region"] if isinstance(o, df.Field) else (["self", "region"] if isinstance(o, df.Mesh) else ["self"])
                tg = rnd.choice(tgs)
                ip = rnd.random() < 0.55
                c = self.call("translate", xv, tg=tg, ip=ip)
                t = w.target(c)
                tnd = t.ndim if isinstance(t, df.Region) else t.region.ndim
                dstv = xv if ip else ("r" if isinstance(t, df.Region) else "m")
                if op == "translate":
                    zero = rnd.random() < 0.15   # the zero vector is a vector like any other
                    c = self.call("translate", xv, dst=dstv, tg=tg, ip=ip, a={"v": [_pair(Fraction(0 if zero else rnd.randint(-6, 6), rnd.choice([1, 1, 2]))) for _ in range(tnd)]})
                elif op == "scale":
                    fac = rnd.choice([Fraction(-1)] + ([Fraction(1, 2)] if self.level >= 0 else []) + ([Fraction(2)] if self.level <= 0 else []))
                    c = self.call("scale", xv, dst=dstv, tg=tg, ip=ip, a={"s": [_pair(fac)] * tnd, "ref": []})
                    c["_lvl"] = 1 if fac == 2 else -1 if fac == Fraction(1, 2) else 0
                else:
                    if tnd < 2:
                        continue
                    a, b = rnd.sample(range(1, tnd + 1), 2)
                    c = self.call("rotate90", xv, dst=dstv, tg=tg, ip=ip, a={"a": a, "b": b, "k": rnd.choice([1, 2, 3, -1]), "ref": []})
            if self._alias_pattern(c):
                continue
            lvl = c.pop("_lvl", 0)
            if c["ip"]:
                self.level += lvl
            return c
        return None


def gen_trace(df, rnd, tid, emb, scratch, length, big=True):
    heap, roots = random_scenario(rnd, big)
    w = W.World(df, heap, roots, emb, scratch)
    h0, r0, an0 = w.project()
    t = {"id": tid, "emb": emb.name, "heap0": W.jsonable_heap(h0), "roots0": [[x, o] for x, o in sorted(r0.items())], "ev": [], "note": ""}
    drv = Driver(df, rnd, w)
    for _ in range(length):
        c = drv.pick()
        if c is None:
            break
        c.pop("_lvl", None)
        outcome, retself, ex = w.do_call(c)
        try:
            h, r, an = w.project()
        except W.TooBig:
            t["note"] = "ended: coordinates beyond the logged range"
            break
        ev = {"call": c, "outcome": outcome, "retself": bool(retself), "post": W.jsonable_heap(h), "rpost": [[x, o] for x, o in sorted(r.items())],
              "anomalies": [list(x) for x in an], "exc": type(ex).__name__ if ex is not None else "", "cond": w.last_cond}
        t["ev"].append(ev)
        if an:
            break
    return t


def strip(traces):
    """what TLC reads"""
    return [{"id": t["id"], "heap0": t["heap0"], "roots0": t["roots0"],
             "ev": [{"call": e["call"], "outcome": e["outcome"], "post": e["post"], "rpost": e["rpost"]} for e in t["ev"]]} for t in traces]
