"""Parser for TLA+ values as printed by TLC (state dumps, -simulate files, PrintT output).

Value mapping
  integers            -> int
  TRUE / FALSE        -> bool
  "strings"           -> str
  <<a, b>>            -> tuple
  {a, b}              -> frozenset   (a..b ranges are expanded)
  [k |-> v, ...]      -> dict (str keys)
  (k :> v @@ k :> v)  -> dict (arbitrary hashable keys); a function whose domain is
                         1..n is printed by TLC as a tuple already
  model values        -> str
"""
import re

_TOK = re.compile(
    r"""\s*(?:
      (?P<int>-?\d+)
    | (?P<str>"(?:[^"\\]|\\.)*")
    | (?P<sym><<|>>|\|->|:>|@@|\.\.|/\\|[\[\]{}(),=])
    | (?P<id>[A-Za-z_][A-Za-z0-9_]*)
    )""",
    re.X,
)


def tokenize(text):
    pos = 0
    n = len(text)
    out = []
    while pos < n:
        m = _TOK.match(text, pos)
        if not m:
            if text[pos:].strip() == "":
                break
            raise ValueError(f"cannot tokenize at {pos}: {text[pos:pos+40]!r}")
        pos = m.end()
        kind = m.lastgroup
        val = m.group(kind)
        out.append((kind, val))
    return out


class _P:
    def __init__(self, toks):
        self.t = toks
        self.i = 0

    def peek(self):
        return self.t[self.i] if self.i < len(self.t) else (None, None)

    def next(self):
        tok = self.t[self.i]
        self.i += 1
        return tok

    def expect(self, sym):
        k, v = self.next()
        if v != sym:
            raise ValueError(f"expected {sym!r}, got {v!r} at token {self.i}")

    def value(self):
        k, v = self.next()
        if k == "int":
            val = int(v)
            # range a..b
            if self.peek()[1] == "..":
                self.next()
                hi = self.value()
                return frozenset(range(val, hi + 1))
            return val
        if k == "str":
            return bytes(v[1:-1], "utf-8").decode("unicode_escape")
        if k == "id":
            if v == "TRUE":
                return True
            if v == "FALSE":
                return False
            return v
        if v == "<<":
            items = []
            if self.peek()[1] == ">>":
                self.next()
                return ()
            while True:
                items.append(self.value())
                k2, v2 = self.next()
                if v2 == ">>":
                    return tuple(items)
                if v2 != ",":
                    raise ValueError(f"bad tuple sep {v2!r}")
        if v == "{":
            items = []
            if self.peek()[1] == "}":
                self.next()
                return frozenset()
            while True:
                items.append(_freeze(self.value()))
                k2, v2 = self.next()
                if v2 == "}":
                    return frozenset(items)
                if v2 != ",":
                    raise ValueError(f"bad set sep {v2!r}")
        if v == "[":
            rec = {}
            if self.peek()[1] == "]":
                self.next()
                return rec
            while True:
                k1, name = self.next()
                self.expect("|->")
                rec[name] = self.value()
                k2, v2 = self.next()
                if v2 == "]":
                    return rec
                if v2 != ",":
                    raise ValueError(f"bad record sep {v2!r}")
        if v == "(":
            fn = {}
            while True:
                key = _freeze(self.value())
                self.expect(":>")
                fn[key] = self.value()
                k2, v2 = self.next()
                if v2 == ")":
                    return fn
                if v2 != "@@":
                    raise ValueError(f"bad function sep {v2!r}")
        raise ValueError(f"unexpected token {v!r}")


def _freeze(v):
    if isinstance(v, dict):
        return tuple(sorted((k, _freeze(x)) for k, x in v.items()))
    if isinstance(v, tuple):
        return tuple(_freeze(x) for x in v)
    return v


def parse_value(text):
    p = _P(tokenize(text))
    v = p.value()
    if p.i != len(p.t):
        raise ValueError("trailing tokens")
    return v


_STATE_HDR = re.compile(r"^State \d+:\s*$", re.M)


def parse_state_text(block):
    """Parse one state '/\\ var = value' conjunction into {var: value}."""
    toks = tokenize(block)
    p = _P(toks)
    out = {}
    while p.i < len(toks):
        if p.peek()[1] == "/\\":
            p.next()
        k, name = p.next()
        p.expect("=")
        out[name] = p.value()
    return out


def parse_dump(path):
    """Yield {var: value} for each state in a `tlc -dump` file."""
    with open(path) as fh:
        text = fh.read()
    parts = _STATE_HDR.split(text)
    for blk in parts:
        if blk.strip():
            yield parse_state_text(blk)


_SIM_STATE = re.compile(r"^STATE_(\d+) ==\s*$", re.M)
_SIM_ACT = re.compile(r"^\\\* <(\w+) line")


def parse_behaviour(path):
    """Parse one `tlc -simulate file=...` behaviour: list of (action_name, state)."""
    with open(path) as fh:
        lines = fh.read().split("\n")
    out = []
    act = None
    cur = None
    for ln in lines:
        m = _SIM_ACT.match(ln)
        if m:
            act = m.group(1)
            continue
        if ln.startswith("STATE_"):
            cur = []
            continue
        if cur is not None:
            if ln.strip() == "" or ln.startswith("===="):
                if cur:
                    out.append((act, parse_state_text("\n".join(cur))))
                cur = None
                continue
            cur.append(ln)
    return out


def extract_printed(text, tag):
    """Find all PrintT'ed tuples <<"tag", ...>> in TLC stdout (may span lines / interleave)."""
    res = []
    needle = '<<"' + tag + '"'
    needle2 = '<< "' + tag + '"'
    i = 0
    n = len(text)
    while True:
        a = text.find(needle, i)
        b = text.find(needle2, i)
        cand = [x for x in (a, b) if x >= 0]
        if not cand:
            break
        s = min(cand)
        depth = 0
        j = s
        instr = False
        while j < n:
            ch = text[j]
            if instr:
                if ch == "\\":
                    j += 1
                elif ch == '"':
                    instr = False
            else:
                if ch == '"':
                    instr = True
                elif text.startswith("<<", j):
                    depth += 1
                    j += 1
                elif text.startswith(">>", j):
                    depth -= 1
                    j += 1
                    if depth == 0:
                        j += 1
                        break
            j += 1
        try:
            res.append(parse_value(text[s:j]))
        except ValueError:
            pass
        i = j
    return res
