"""Operator extraction for C04 (and the directional-derivative tables of C05).

A *carrier* is a mesh of 1-4 dimensions one of whose axes (`axis`) is the differentiated
direction; every grid line along that axis carries its own validity pattern.  The real
``Field.diff`` is probed with unit vectors (scaled differently on every line and component)
and with random integer fields; outputs are projected to integers
(weight * denominator * sc, denominator 2h resp. h^2) - exactly on dyadic embeddings, within
1e-9 relative otherwise.  Nothing here knows a stencil: the matrices are *observations* that
spec/C04Trace.tla judges.
"""
import numpy as np

from . import lat

SCALES = (1, 2, 4, 8, 16, 3, 6, 12, 24, 48, 5, 10, 20, 60, 120, 720)
DTYPES = {"f8": None, "c16": np.complex128, "i8": np.int64}
PERIODIC_WORDS = ("neumann", "dirichlet")


class Unprojectable(Exception):
    pass


class DiffRaised(Exception):
    """Field.diff (or building the field) raised on a well-formed request"""


def is_periodic(car):
    """what the *mesh definition* says: a direction is periodic iff bc lists its name"""
    bc = car["bc"]
    return bc not in PERIODIC_WORDS and car["dims"][car["axis"]] in bc


def build_mesh(df, emb, car):
    m = {"lo": list(car["lo"]), "c": list(car["c"]), "n": list(car["n"])}
    return lat.mesh_of(df, m, emb, dims=list(car["dims"]), units=car.get("units"), bc=car["bc"])


def den_of(emb, car, order):
    h = emb.length(car["c"][car["axis"]])
    return 2 * h if order == 1 else h * h


def make_field(df, mesh, car, arr, valid):
    dt = DTYPES[car.get("dtype", "f8")]
    if dt is np.int64:
        arr = np.asarray(arr).astype(np.int64)
    kw = {}
    if dt is not None:
        kw["dtype"] = dt
    if car.get("mapping") is not None:
        kw["vdim_mapping"] = car["mapping"]
    mask = np.array(valid, dtype=bool)
    if (int(mask.sum()) + mask.size + int(car["nv"])) % 2 == 0 and not mask.all():
        # the invalid cells are switched off by writing into the public mask of a fully valid field (the idiom of the
        # repository's own tests: f.valid[...] = False), not through the setter: the mask IS the validity (seeded changes
        # C04-12 / C08-12 kept an "all valid" flag that only the setter refreshed)
        f = df.Field(mesh, nvdim=car["nv"], value=arr, valid=True, vdims=car.get("vdims"), unit=car.get("unit"), **kw)
        f.valid[...] = mask
        return f
    return df.Field(mesh, nvdim=car["nv"], value=arr, valid=mask, vdims=car.get("vdims"),
                    unit=car.get("unit"), **kw)


def meta_flags(f, g):
    return {
        "mesh": bool(g.mesh == f.mesh and g.mesh.bc == f.mesh.bc and g.mesh.subregions == f.mesh.subregions),
        "labels": g.vdims == f.vdims,
        "unit": g.unit == f.unit,
        "validity": bool(g.valid.shape == f.valid.shape and g.valid.dtype == bool and np.array_equal(g.valid, f.valid)),
        "shape": bool(g.nvdim == f.nvdim and g.array.shape == f.array.shape),
    }


def to_lines(a, axis, nd):
    """array (*n, nv) -> (nlines, nv, L);  array (*n) -> (nlines, L)"""
    if a.ndim == nd + 1:
        b = np.moveaxis(a, axis, -1)  # (*trans, nv, L)
        return b.reshape((-1, b.shape[-2], b.shape[-1]))
    b = np.moveaxis(a, axis, -1)
    return b.reshape((-1, b.shape[-1]))


def pick_scale(arrays, exact):
    """smallest sc in SCALES such that every entry * sc is an integer (exactly / within tolerance)"""
    for sc in SCALES:
        ok = True
        for x in arrays:
            y = x * sc
            r = np.rint(y)
            with np.errstate(invalid="ignore"):
                tol = 0.0 if exact else 1e-9 * (1.0 + np.abs(y))
                if not (np.all(np.isfinite(y)) and np.all(np.abs(y - r) <= tol)):
                    ok = False
                    break
        if ok:
            return sc
    raise Unprojectable()


def call_diff(f, car, order, r2v):
    try:
        return f.diff(car["dims"][car["axis"]], order=order, restrict2valid=r2v)
    except Exception as ex:  # the property defines a result for every line; raising is a disagreement
        raise DiffRaised(f"{type(ex).__name__}: {ex}") from ex


def extract(df, emb, car, valid, order, r2v, rnd, nrand=2, mesh=None):
    """Probe Field.diff on the carrier.  Returns dict(mats, lines, meta, sc, L) where
    mats = list of (pattern tuple, matrix tuple-of-tuples) distinct over lines/components,
    lines = list of (mat index (1-based), data line, observed numerators line),
    meta = {name: all calls kept it}.  Raises Unprojectable."""
    nd, axis, nv = len(car["n"]), car["axis"], car["nv"]
    L = car["n"][axis]
    mesh = mesh if mesh is not None else build_mesh(df, emb, car)
    den = den_of(emb, car, order)
    cplx = car.get("dtype") == "c16"
    tshape = tuple(1 if d == axis else car["n"][d] for d in range(nd)) + (nv,)
    scale = np.array([rnd.choice((1, -1, 2, -2, 4)) for _ in range(int(np.prod(tshape)))], dtype=float).reshape(tshape)
    meta = {}
    cols = []
    imag_dirty = False
    for j in range(L):
        arr = np.zeros(tuple(car["n"]) + (nv,))
        idx = [slice(None)] * (nd + 1)
        idx[axis] = slice(j, j + 1)
        arr[tuple(idx)] = scale
        f = make_field(df, mesh, car, arr, valid)
        g = call_diff(f, car, order, r2v)
        for k, v in meta_flags(f, g).items():
            meta[k] = meta.get(k, True) and v
        out = np.asarray(g.array)
        if np.iscomplexobj(out):
            if np.any(out.imag != 0):
                imag_dirty = True
            out = out.real
        cols.append(to_lines(out * den / scale, axis, nd))  # (nlines, nv, L): response of cell i to e_j
    M = np.stack(cols, axis=-1)  # (nlines, nv, L(i), L(j))
    probes = []
    for _ in range(nrand):
        shape = tuple(car["n"]) + (nv,)
        F = np.array([rnd.randrange(-9, 10) for _ in range(int(np.prod(shape)))], dtype=float).reshape(shape)
        if cplx:
            Fi = np.array([rnd.randrange(-9, 10) for _ in range(int(np.prod(shape)))], dtype=float).reshape(shape)
            f = make_field(df, mesh, car, F + 1j * Fi, valid)
        else:
            f = make_field(df, mesh, car, F, valid)
        g = call_diff(f, car, order, r2v)
        for k, v in meta_flags(f, g).items():
            meta[k] = meta.get(k, True) and v
        out = np.asarray(g.array) * den
        if cplx:
            probes.append((to_lines(F, axis, nd), to_lines(out.real, axis, nd)))
            probes.append((to_lines(Fi, axis, nd), to_lines(out.imag, axis, nd)))
        else:
            probes.append((to_lines(F, axis, nd), to_lines(np.real(out), axis, nd)))
    sc = pick_scale([M] + [g for _, g in probes], emb.dyadic)
    Mi = np.rint(M * sc).astype(np.int64)
    pats = to_lines(np.asarray(valid, dtype=bool), axis, nd)  # (nlines, L)
    mats, index, which = [], {}, np.zeros(M.shape[:2], dtype=int)
    for ln in range(M.shape[0]):
        v = tuple(bool(b) for b in pats[ln])
        for c in range(nv):
            key = (v, Mi[ln, c].tobytes())
            if key not in index:
                mats.append((v, tuple(tuple(int(x) for x in row) for row in Mi[ln, c])))
                index[key] = len(mats)
            which[ln, c] = index[key]
    lines = []
    for F, G in probes:
        Gi = np.rint(G * sc).astype(np.int64)
        for ln in range(M.shape[0]):
            for c in range(nv):
                lines.append((int(which[ln, c]), tuple(int(x) for x in F[ln, c]), tuple(int(x) for x in Gi[ln, c])))
    meta["real-data-real-result"] = not imag_dirty
    return {"mats": mats, "lines": lines, "meta": meta, "sc": sc, "L": L}


def apply(df, emb, car, valid, data, order, r2v, mesh=None):
    """One real Field.diff call on integer data; returns (numerators as float array (*n, nv), meta flags)."""
    mesh = mesh if mesh is not None else build_mesh(df, emb, car)
    f = make_field(df, mesh, car, np.asarray(data, dtype=float), valid)
    g = call_diff(f, car, order, r2v)
    return np.asarray(g.array) * den_of(emb, car, order), meta_flags(f, g)


def merge_event(parts, L, order, pbc, r2v, want_orbits):
    """Merge extraction results of several carriers (same L/order/pbc/r2v/sc class) into one event for TLC."""
    sc = 1
    for p in parts:
        sc = int(np.lcm(sc, p["sc"]))
    mats, lines, meta = [], [], {}
    first = {}
    for p in parts:
        k = sc // p["sc"]
        off = len(mats)
        for v, m in p["mats"]:
            mats.append({"v": list(v), "m": [[x * k for x in row] for row in m]})
            first.setdefault(v, len(mats))
        for mi, f, g in p["lines"]:
            lines.append({"mi": mi + off, "f": list(f), "g": [x * k for x in g]})
        for name, ok in p["meta"].items():
            meta[name] = meta.get(name, True) and bool(ok)
    orbits = []
    if want_orbits and pbc:
        seen = set()
        for v in list(first):
            if v in seen:
                continue
            rot = [tuple(np.roll(np.array(v), s).tolist()) for s in range(L)]
            seen.update(rot)
            if all(r in first for r in rot):
                orbits.append([first[r] for r in rot])
    return {"k": "diff", "L": L, "order": order, "pbc": bool(pbc), "r2v": bool(r2v), "sc": sc, "mats": mats,
            "orbits": orbits, "lines": lines, "meta": [{"name": k, "ok": v} for k, v in sorted(meta.items())]}
