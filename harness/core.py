"""Run context shared by all property checks: scratch, TLC runs, replay pool, findings,
evidence.  See DESIGN.md §4-§6."""
import fnmatch
import hashlib
import json
import multiprocessing as mp
import os
import shutil
import sys
import tempfile
import time
import traceback

from . import tlc as _tlc
from . import tlaval

ROOT = os.path.dirname(os.path.dirname(os.path.abspath(__file__)))
REPO = os.environ.get("DF_VERIF_REPO", "/repo")


def import_library():
    """Import discretisedfield from the working tree under test (REPO)."""
    if REPO not in sys.path:
        sys.path.insert(0, REPO)
    os.environ.setdefault("MPLBACKEND", "Agg")
    import warnings

    warnings.filterwarnings("ignore")
    import discretisedfield as df  # noqa

    got = os.path.realpath(os.path.dirname(os.path.dirname(df.__file__)))
    if got != os.path.realpath(REPO):
        raise _tlc.MachineryError(f"discretisedfield imported from {got}, expected {REPO}")
    return df


def jsonable(v):
    from fractions import Fraction

    try:
        import numpy as np
    except Exception:  # pragma: no cover
        np = None
    if isinstance(v, dict):
        return {str(k): jsonable(x) for k, x in v.items()}
    if isinstance(v, (list, tuple)):
        return [jsonable(x) for x in v]
    if isinstance(v, (set, frozenset)):
        return sorted((jsonable(x) for x in v), key=repr)
    if isinstance(v, Fraction):
        return f"{v.numerator}/{v.denominator}"
    if np is not None:
        if isinstance(v, np.ndarray):
            return jsonable(v.tolist())
        if isinstance(v, np.generic):
            return jsonable(v.item())
    if isinstance(v, complex):
        return [v.real, v.imag]
    if isinstance(v, (str, int, float, bool)) or v is None:
        return v
    return repr(v)


class Ctx:
    def __init__(self, prop, tier, seed):
        self.prop = prop
        self.tier = tier
        self.seed = seed
        self.t0 = time.time()
        self.scratch = tempfile.mkdtemp(prefix=f"verif-{prop}-")
        self.tlc_runs = []
        self.states = 0
        self.transitions = 0
        self.traces = 0  # traces / behaviours / states validated against the implementation
        self.evaluations = 0
        self.nontrivial = set()
        self.samples = []
        self.found = {}  # key -> dict(what, witness)
        self.notes = {}
        self.assumptions = []
        self.exhaustive = True
        self.coverage_actions = {}

    # ---------------------------------------------------------------- TLC
    def model(self, module, cfg, *, dump=False, coverage=None, workers=16, timeout=1500, env=None, heap="6g"):
        if coverage is None:
            coverage = self.tier == "thorough"
        r = _tlc.run(module, cfg, self.scratch, workers=workers, dump=dump, coverage=coverage,
                     timeout=timeout, env=env, heap=heap)
        self.tlc_runs.append({"cmd": r.cmd.replace(self.scratch, "$SCRATCH"), "generated": r.generated,
                              "distinct": r.distinct, "depth": r.depth, "wall_s": round(r.wall_s, 2),
                              "violated": r.violated})
        self.states += r.distinct
        self.transitions += r.generated
        for a, c in r.coverage.items():
            self.coverage_actions[f"{module}.{a}"] = c[0]
        if r.violated:
            for inv in r.violated:
                self.violation(key=f"model:{module}:{inv}",
                               what=f"TLC: {inv} violated by the specification {module} under {cfg}",
                               witness={"tlc_output_tail": r.stdout.strip().split("\n")[-60:]})
        return r

    def dump_states(self, r):
        return list(tlaval.parse_dump(r.dump))

    def dump_blocks(self, r, nblocks=64):
        """split a dump into text blocks of whole states (parsed inside the pool workers)"""
        with open(r.dump) as fh:
            text = fh.read()
        parts = [p for p in tlaval._STATE_HDR.split(text) if p.strip()]
        if len(parts) != r.distinct:
            raise _tlc.MachineryError(f"dump has {len(parts)} states, TLC reports {r.distinct}")
        return parts

    def simulate(self, module, cfg, num, depth, workers=8, timeout=1500):
        """tlc -simulate; returns list of behaviour files (one TLA+ module per behaviour)"""
        r = _tlc.run(module, cfg, self.scratch, workers=workers, timeout=timeout,
                     simulate={"num": max(1, num // workers), "depth": depth, "seed": self.seed % 100000, "file": True},
                     tag=f"sim_{module}_{len(self.tlc_runs)}")
        self.tlc_runs.append({"cmd": r.cmd.replace(self.scratch, "$SCRATCH"), "mode": "simulate",
                              "wall_s": round(r.wall_s, 2), "violated": r.violated})
        import re as _re
        m = _re.search(r"The number of states generated: (\d+)", r.stdout)
        if m:
            self.transitions += int(m.group(1))
        if r.violated:
            for inv in r.violated:
                self.violation(key=f"model:{module}:{inv}", what=f"TLC simulation: {inv} violated by {module}",
                               witness={"tlc_output_tail": r.stdout.strip().split("\n")[-60:]})
        files = sorted(os.path.join(r.simdir, f) for f in os.listdir(r.simdir))
        return r, files

    def trace_check(self, module, cfg, traces, *, tag="VERDICT", timeout=1500, heap="6g", name=None):
        """Validate recorded traces with a trace spec. Returns list of verdict tuples."""
        name = name or module
        path = os.path.join(self.scratch, f"trace_{name}_{len(self.tlc_runs)}.json")
        if os.environ.get("VERIF_SELFTEST_CORRUPT") == "1":
            traces = corrupt_one_observation(traces)   # binding self-test: one logged number is altered
        with open(path, "w") as fh:
            json.dump(traces, fh)
        r = _tlc.run(module, cfg, self.scratch, workers=1, env={"TRACE_FILE": path}, timeout=timeout,
                     heap=heap, tag=f"{name}_{len(self.tlc_runs)}")
        self.tlc_runs.append({"cmd": r.cmd.replace(self.scratch, "$SCRATCH"), "generated": r.generated,
                              "distinct": r.distinct, "depth": r.depth, "wall_s": round(r.wall_s, 2),
                              "violated": r.violated, "traces": len(traces)})
        self.states += r.distinct
        self.transitions += r.generated
        if r.violated:
            for inv in r.violated:
                self.violation(key=f"trace:{module}:{inv}",
                               what=f"TLC: {inv} violated on a recorded trace ({module})",
                               witness={"tlc_output_tail": r.stdout.strip().split("\n")[-60:]})
        verdicts = tlaval.extract_printed(r.stdout, tag)
        done = tlaval.extract_printed(r.stdout, "DONE")
        return r, verdicts, done

    # ---------------------------------------------------------------- bookkeeping
    def count(self, n=1):
        self.evaluations += n

    def nontriv(self, *key):
        self.nontrivial.add(hashlib.blake2b(repr(key).encode(), digest_size=8).hexdigest())

    def sample(self, s, cap=6):
        if len(self.samples) < cap:
            self.samples.append(jsonable(s))

    def violation(self, key, what, witness=None):
        if key not in self.found:
            self.found[key] = {"what": what, "witness": jsonable(witness), "count": 1}
        else:
            self.found[key]["count"] += 1

    def merge(self, part):
        """merge a worker's partial result dict"""
        self.evaluations += part.get("evaluations", 0)
        self.traces += part.get("traces", 0)
        self.nontrivial.update(part.get("nontrivial", ()))
        for s in part.get("samples", ()):
            self.sample(s)
        for key, what, wit in part.get("violations", ()):
            self.violation(key, what, wit)
        for k, v in part.get("notes", {}).items():
            self.notes[k] = self.notes.get(k, 0) + v

    # ---------------------------------------------------------------- pool
    def pmap(self, fn, items, procs=None, chunk=None):
        """Run fn(chunk_of_items) -> partial dict in forked workers; merge partials."""
        items = list(items)
        if not items:
            return
        procs = procs or min(16, max(1, len(items)))
        chunk = chunk or max(1, len(items) // (procs * 4))
        chunks = [items[i:i + chunk] for i in range(0, len(items), chunk)]
        if procs == 1 or len(chunks) == 1:
            for c in chunks:
                self.merge(_safe(fn, c))
            return
        global _WORK
        _WORK = (fn, chunks)  # inherited by the forked workers; only chunk numbers are pickled
        try:
            with mp.get_context("fork").Pool(procs) as pool:
                for part in pool.imap_unordered(_run_chunk, range(len(chunks))):
                    self.merge(part)
        finally:
            _WORK = None

    def close(self):
        shutil.rmtree(self.scratch, ignore_errors=True)


_WORK = None


def _run_chunk(k):
    fn, chunks = _WORK
    return dict(_safe(fn, chunks[k]))


def corrupt_one_observation(traces):
    """a deep copy of the recorded traces in which ONE logged observation is altered: an integer inside an observed array if
    there is one (the middle one of the middle trace), else an observed integer, else an observed Boolean; used by
    `./check selftest` to show that every trace specification rejects a trace the library did not produce"""
    import copy
    bad = copy.deepcopy(traces)
    observed = ("r", "res", "ret", "out", "obs", "post", "got", "back", "vals", "valid", "arr", "field", "value", "values",
                "result", "norm2", "xs", "data", "D", "q", "charge", "angle", "comps", "v", "n", "bl", "cont", "ok", "cpok", "ipok", "agree")
    seq = bad if isinstance(bad, list) else [bad]
    order = seq[len(seq) // 2:] + seq[:len(seq) // 2]
    for want in ("int-in-list", "int", "bool"):
        for t in order:
            evs = t.get("ev", t.get("events")) if isinstance(t, dict) else None
            cands = []

            def walk(node, under, inlist, setter):
                if isinstance(node, dict):
                    for k in sorted(node):
                        if k in ("id", "tid", "seed", "i", "cut", "cr", "k", "op", "kind"):
                            continue
                        walk(node[k], under or k in observed, False, (node, k))
                elif isinstance(node, list):
                    for idx, v in enumerate(node):
                        walk(v, under, True, (node, idx))
                elif under and isinstance(node, bool):
                    if want == "bool":
                        cands.append(setter)
                elif under and isinstance(node, int):
                    if want == "int" or (want == "int-in-list" and inlist):
                        cands.append(setter)

            walk(evs if evs else t, False, False, None)
            if cands:
                holder, key = cands[len(cands) // 2]
                holder[key] = (not holder[key]) if isinstance(holder[key], bool) else holder[key] + 7   # more than any quantisation allowance
                return bad
    return bad


def library_exception(ex):
    """(key, what, witness) when `ex` was raised inside the library under test (or below it) on a call made by the harness
    without a guard, None when it comes from the harness's own code"""
    tb = traceback.extract_tb(ex.__traceback__)
    repo = os.path.realpath(REPO) + os.sep
    inner = tb[-1] if tb else None
    lib_frames = [f for f in tb if os.path.realpath(f.filename).startswith(repo)]
    if inner is None or not lib_frames or not (os.path.realpath(inner.filename).startswith(repo) or "site-packages" in inner.filename):
        return None
    where = lib_frames[0]
    return (f"unexpected-library-exception/{type(ex).__name__}/{os.path.basename(where.filename)}:{where.name}",
            "the library raised on a call that is legitimate for every case of this check (it never raises on the unchanged tree)",
            {"exception": repr(ex)[:400], "traceback": "".join(traceback.format_exception(type(ex), ex, ex.__traceback__)).strip().split("\n")[-14:]})


def _safe(fn, chunk):
    try:
        return fn(chunk)
    except _tlc.MachineryError:
        raise
    except Exception as ex:
        # An exception that the LIBRARY raised on a call the harness makes unguarded - i.e. a call that is legitimate for
        # every input the harness builds and never raises on the unchanged tree (it would be a machinery error there) - is
        # a refusal of legitimate input: reported as a violation of the property being checked, with the place it came from.
        # Anything raised by the harness's own code stays a machinery error.
        cls = library_exception(ex)
        if cls is not None:
            part = Part()
            part.violation(*cls)
            part.note("chunks_abandoned_after_a_library_exception")
            return part
        # a crash of the harness itself is machinery, not a property violation
        raise _tlc.MachineryError("replay worker crashed:\n" + traceback.format_exc())


class Part(dict):
    """partial result built inside a worker"""

    def __init__(self):
        super().__init__(evaluations=0, traces=0, nontrivial=set(), samples=[], violations=[], notes={})

    def count(self, n=1):
        self["evaluations"] += n

    def trace(self, n=1):
        self["traces"] += n

    def nontriv(self, *key):
        self["nontrivial"].add(hashlib.blake2b(repr(key).encode(), digest_size=8).hexdigest())

    def sample(self, s):
        if len(self["samples"]) < 3:
            self["samples"].append(jsonable(s))

    def violation(self, key, what, witness=None):
        if sum(1 for k, _, _ in self["violations"] if k == key) < 3:
            self["violations"].append((key, what, jsonable(witness)))

    def note(self, k, n=1):
        self["notes"][k] = self["notes"].get(k, 0) + n



# -------------------------------------------------------------------- the mixed-history stage (spec/DF.tla)
# properties whose texts the clauses of DF.tla come from; the stage runs inside their checks and keeps only what belongs
# to the property being checked (harness/props/df.py::owners_of)
DF_STAGE_THOROUGH = ("C02", "C03", "C06", "C07", "C08", "C09", "C10", "C12", "C13", "C14", "C16", "C17")
DF_STAGE_QUICK_LITE = ("C03", "C09", "C10", "C12", "C13", "C14", "C17")


def df_stage(ctx, df):
    """run the DF stage for the property of ctx when it is one of its owners (called just before finish)"""
    if os.environ.get("DF_VERIF_NO_DF_STAGE"):
        return
    from .props import df as _dfstage
    if ctx.tier == "thorough" and ctx.prop in DF_STAGE_THOROUGH:
        _dfstage.run_stage(ctx, df, owner=ctx.prop, lite=False)
    elif ctx.tier == "quick" and ctx.prop in DF_STAGE_QUICK_LITE:
        _dfstage.run_stage(ctx, df, owner=ctx.prop, lite=True)

# -------------------------------------------------------------------- findings / evidence
def load_known():
    """known_findings.json plus provisional fragments known_findings.d/*.json (merged at integration)."""
    out = {"findings": [], "fixed": []}
    paths = [os.path.join(ROOT, "known_findings.json")]
    frag = os.path.join(ROOT, "known_findings.d")
    if os.path.isdir(frag):
        paths += sorted(os.path.join(frag, f) for f in os.listdir(frag) if f.endswith(".json"))
    for path in paths:
        if os.path.exists(path):
            with open(path) as fh:
                d = json.load(fh)
            out["findings"] += d.get("findings", [])
            out["fixed"] += d.get("fixed", [])
    return out


def finish(ctx, level="model_checking", rule="", extra=None):
    """Match findings against known_findings.json, write evidence, print lines, return exit code."""
    # a check that skipped most of its cases has not checked anything: that is a fault of the machinery, not a pass
    for k, v in ctx.notes.items():
        if isinstance(v, int) and str(k).startswith("skipped:") and v > 0.5 * max(1, ctx.evaluations):
            raise _tlc.MachineryError(f"{v} of {ctx.evaluations} cases were skipped ({k})")
    known = [k for k in load_known().get("findings", []) if k["property"] == ctx.prop]
    new = []
    matched = {}
    for key, info in sorted(ctx.found.items()):
        hit = None
        for k in known:
            if fnmatch.fnmatchcase(key, k["key"]):
                hit = k
                break
        if hit:
            matched.setdefault(hit["key"], (hit, []))[1].append(key)
        else:
            new.append((key, info))
    for kkey, (hit, keys) in matched.items():
        print(f"KNOWN-FINDING: property={ctx.prop} {hit['what']} [{len(keys)} witness key(s)]")
    rc = 0
    os.makedirs(os.path.join(ROOT, "replays"), exist_ok=True)
    for i, (key, info) in enumerate(new):
        rp = os.path.join(ROOT, "replays", f"{ctx.prop}-{i}.json")
        with open(rp, "w") as fh:
            json.dump({"property": ctx.prop, "key": key, "what": info["what"], "count": info["count"],
                       "witness": info["witness"], "tier": ctx.tier, "seed": ctx.seed}, fh, indent=1)
        print(f"  {key}: {info['what']}  (x{info['count']})")
        print(f"VIOLATION property={ctx.prop} replay={rp}")
        rc = 1
    cov = {
        "states": ctx.states,
        "transitions": ctx.transitions,
        "traces_validated_against_impl": ctx.traces,
        "samples": ctx.samples or ["<none>"],
        "evaluations": ctx.evaluations,
        "distinct_nontrivial": len(ctx.nontrivial),
        "rule": rule,
        "exhaustive": bool(ctx.exhaustive),
        "tlc_runs": ctx.tlc_runs,
        "action_coverage": ctx.coverage_actions,
        "known_findings_seen": sorted(matched),
        "notes": ctx.notes,
    }
    if extra:
        cov.update(extra)
    ev = {
        "property_id": ctx.prop,
        "tier": ctx.tier,
        "seed": ctx.seed,
        "level": level,
        "coverage": jsonable(cov),
        "assumptions": ctx.assumptions,
        "wall_s": round(time.time() - ctx.t0, 2),
        "violations": len(new),
    }
    evdir = os.path.join(ROOT, "evidence")
    if os.path.realpath(REPO) != "/repo" or os.environ.get("VERIF_SELFTEST_CORRUPT") == "1":
        # a run against another tree (mutation testing) must not overwrite the evidence of /repo
        evdir = os.path.join(tempfile.gettempdir(), "verif-evidence-other-tree")
    os.makedirs(evdir, exist_ok=True)
    with open(os.path.join(evdir, f"{ctx.prop}.json"), "w") as fh:
        json.dump(ev, fh, indent=1)
    print(f"{ctx.prop} {ctx.tier}: states={ctx.states} transitions={ctx.transitions} "
          f"impl_cases={ctx.traces} evaluations={ctx.evaluations} nontrivial={len(ctx.nontrivial)} "
          f"known={len(matched)} new={len(new)} wall={ev['wall_s']}s")
    return rc
