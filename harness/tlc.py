"""Thin runner around the pre-installed TLC (tla2tools 1.8).

Every run happens with cwd = /verif/spec so EXTENDS/INSTANCE resolve, and with a private
metadir under the caller's scratch directory.  Any TLC failure other than a reported
property violation raises MachineryError (exit code 2 of ./check), never a VIOLATION.
"""
import os
import re
import subprocess
import time
from dataclasses import dataclass, field

SPEC_DIR = os.path.join(os.path.dirname(os.path.dirname(os.path.abspath(__file__))), "spec")
JAR = "/opt/veriftools/tla/tla2tools.jar:/opt/veriftools/tla/CommunityModules-deps.jar"


class MachineryError(RuntimeError):
    pass


@dataclass
class TlcResult:
    cmd: str
    wall_s: float
    generated: int = 0
    distinct: int = 0
    depth: int = 0
    violated: list = field(default_factory=list)  # invariant / property names
    coverage: dict = field(default_factory=dict)  # action name -> (count, distinct)
    stdout: str = ""
    dump: str | None = None
    simdir: str | None = None
    ok: bool = True


_SUMMARY = re.compile(r"(\d+) states generated, (\d+) distinct states found")
_DEPTH = re.compile(r"The depth of the complete state graph search is (\d+)")
_INV = re.compile(r"Error: Invariant (\w+) is violated")
_PROP = re.compile(r"Error: (?:Action|Temporal) propert(?:y|ies) (\w+)? ?(?:is|were) violated")
_COV = re.compile(r"^<(\w+) line \d+, col \d+ to line \d+, col \d+ of module (\w+)>: (\d+):(\d+)", re.M)


def run(
    module,
    cfg,
    scratch,
    *,
    workers=16,
    dump=False,
    coverage=False,
    simulate=None,  # dict(num=, depth=, seed=, file=bool)
    env=None,
    timeout=1500,
    heap="4g",
    tag=None,
    deque=False,
):
    tag = tag or (module + "_" + os.path.splitext(os.path.basename(cfg))[0])
    meta = os.path.join(scratch, "meta_" + tag)
    os.makedirs(meta, exist_ok=True)
    cmd = [
        "java",
        "-XX:+UseParallelGC",
        f"-Xmx{heap}",
    ]
    if deque:
        cmd.append("-Dtlc2.tool.queue.IStateQueue=StateDeque")
    cmd += [
        "-cp",
        JAR,
        "tlc2.TLC",
        "-workers",
        str(workers),
        "-metadir",
        meta,
        "-noGenerateSpecTE",
        "-config",
        cfg,
    ]
    res = TlcResult(cmd="", wall_s=0.0)
    if dump:
        res.dump = os.path.join(scratch, "dump_" + tag)
        cmd += ["-dump", res.dump]
        res.dump += ".dump"
    if coverage:
        cmd += ["-coverage", "1"]
    if simulate:
        spec = f"num={simulate['num']}"
        if simulate.get("file"):
            res.simdir = os.path.join(scratch, "sim_" + tag)
            os.makedirs(res.simdir, exist_ok=True)
            spec = f"file={res.simdir}/b," + spec
        cmd += ["-simulate", spec, "-depth", str(simulate.get("depth", 10))]
        if "seed" in simulate:
            cmd += ["-seed", str(simulate["seed"])]
    cmd.append(module + ".tla")
    e = dict(os.environ)
    if env:
        e.update({k: str(v) for k, v in env.items()})
    res.cmd = " ".join(cmd)
    t0 = time.time()
    # the limits are sized for an idle 16-core machine; they only exist to stop a run-away model, so they are stretched
    # (a loaded machine must not turn a slow run into a machinery error)
    timeout = timeout * float(os.environ.get("VERIF_TIMEOUT_FACTOR", "4"))
    try:
        p = subprocess.run(
            cmd, cwd=SPEC_DIR, env=e, capture_output=True, text=True, timeout=timeout
        )
    except subprocess.TimeoutExpired as ex:
        raise MachineryError(f"TLC timed out after {timeout}s: {res.cmd}") from ex
    res.wall_s = time.time() - t0
    out = p.stdout + "\n" + p.stderr
    res.stdout = out
    m = None
    for m in _SUMMARY.finditer(out):
        pass
    if m:
        res.generated, res.distinct = int(m.group(1)), int(m.group(2))
    m = _DEPTH.search(out)
    if m:
        res.depth = int(m.group(1))
    res.violated = _INV.findall(out) + [x for x in _PROP.findall(out) if x]
    if "is violated" in out and not res.violated:
        res.violated = ["<unnamed>"]
    for m in _COV.finditer(out):
        res.coverage[m.group(1)] = (int(m.group(3)), int(m.group(4)))
    clean = "Model checking completed. No error has been found." in out or (
        simulate and p.returncode in (0,) and "Error:" not in out
    )
    if res.violated:
        res.ok = False
        return res
    if not clean:
        # anything else (parse error, evaluation error, overflow, deadlock, ...) is machinery
        tail = "\n".join(out.strip().split("\n")[-40:])
        raise MachineryError(f"TLC failed (rc={p.returncode}) for {res.cmd}\n{tail}")
    return res


def sany(module):
    p = subprocess.run(
        ["java", "-cp", JAR, "tla2sany.SANY", module + ".tla"],
        cwd=SPEC_DIR,
        capture_output=True,
        text=True,
        timeout=120,
    )
    out = p.stdout + p.stderr
    if p.returncode != 0 or "*** Errors" in out or "Fatal errors" in out or "Could not parse" in out:
        raise MachineryError(f"SANY rejected {module}.tla:\n{out[-2000:]}")
    return True
