"""Helpers of the C02 check: value-axis embeddings (dtype kinds), turning a specification record of
spec/C02.tla into the Python object handed to the library, and comparing arrays.

Nothing here computes an *expected* result: specifications are inputs, expected arrays come from TLC.
"""
from fractions import Fraction

import numpy as np

from . import fld as fldmod
from . import lat

# ---------------------------------------------------------------- value axis (dtype kinds)
KINDS = ("none", "float", "int", "complex", "bool")
DTYPE = {"none": None, "float": float, "int": int, "complex": complex, "bool": bool}
NPDTYPE = {"none": np.float64, "float": np.float64, "int": np.int64, "complex": np.complex128, "bool": np.bool_}


def _par(v):
    v = int(v)
    v = (v ^ (v >> 3) ^ (v >> 7)) & 0xFFFF
    return bin(v).count("1") % 2 == 1


def enc(kind, v):
    """model integer -> the Python scalar of this dtype kind (0 -> 0 in every kind)"""
    v = int(v)
    if kind in ("none", "float"):
        return v * 0.5
    if kind == "int":
        return v
    if kind == "complex":
        return complex(v, -2 * v)
    if kind == "bool":
        return _par(v)
    raise ValueError(kind)


def enc_rows(kind, rows):
    """sequence of component rows (ints) -> ndarray (len, nv) of the kind's dtype"""
    a = np.asarray(rows, dtype=np.int64)
    if a.ndim == 1:
        a = a[:, None]
    if kind in ("none", "float"):
        return a * 0.5
    if kind == "int":
        return a
    if kind == "complex":
        return a + (-2j) * a
    if kind == "bool":
        return np.vectorize(_par, otypes=[bool])(a)
    raise ValueError(kind)


def dec_rows(kind, arr2d):
    """ndarray (len, nv) observed -> (int rows, exact?) ; not available for bool"""
    a = np.asarray(arr2d)
    if kind in ("none", "float"):
        if np.iscomplexobj(a):
            if np.any(a.imag != 0):
                return None, False
            a = a.real
        r, ok = fldmod.to_ints(np.asarray(a, dtype=float) * 2.0)
        return r, ok
    if kind == "int":
        if a.dtype.kind not in "iu":
            r, ok = fldmod.to_ints(np.asarray(a).real if np.iscomplexobj(a) else a)
            return r, ok and not (np.iscomplexobj(a) and np.any(a.imag != 0))
        return a.astype(np.int64), True
    if kind == "complex":
        re, ok = fldmod.to_ints(np.asarray(a).real)
        if not ok:
            return None, False
        ok2 = bool(np.all(np.asarray(a).imag == -2.0 * re))
        return re, ok2
    raise ValueError(kind)


# ---------------------------------------------------------------- names
VDIM_SCHEMES = (None, ("a", "b", "c", "d"), ("mx", "my", "mz", "mw"), ("v_1", "v_2", "v_3", "v_4"))
SUB_NAMES = ("zeta", "alpha", "mid", "beta", "omega")


def vdims_for(m, nv):
    k = (sum(m["n"]) + m["c"][0] // 4 + nv) % len(VDIM_SCHEMES)
    sch = VDIM_SCHEMES[k]
    if sch is None:
        return None
    return list(sch[:nv])


def default_labels(nv):
    if nv == 1:
        return None
    if nv <= 3:
        return ["x", "y", "z"][:nv]
    return [f"v{i}" for i in range(nv)]


def build_mesh(df, m, S, emb, dims=None, flip=None):
    sub = None
    if S:
        sub = {SUB_NAMES[k]: lat.box_region(df, b, emb) for k, b in enumerate(S)}
    return lat.mesh_of(df, m, emb, dims=dims, flip=flip, subregions=sub)


# ---------------------------------------------------------------- specification -> python value
class OffLattice:
    """collects points handed to a callback that are not lattice points within tolerance"""

    def __init__(self):
        self.pts = []


def _affine_cb(a, b, kind, emb, cq, coords, off, nv_scalar_ok=True):
    nvv = len(b)

    def cb(point):
        p = np.atleast_1d(np.asarray(point, dtype=float))
        q = []
        for d in range(len(p)):
            k, ok = lat.proj_coord(emb, p[d], cq, coords)
            if not ok:
                off.pts.append([float(x) for x in p])
            q.append(k)
        vals = [enc(kind, b[c] + sum(a[c][d] * q[d] for d in range(len(q)))) for c in range(nvv)]
        if nvv == 1:
            return vals[0]
        return tuple(vals)

    return cb


def _item_value(it, kind, emb, cq, coords, off):
    if it["k"] == "const":
        v = [enc(kind, x) for x in it["v"]]
        return v[0] if len(v) == 1 else tuple(v)
    if it["k"] == "func":
        return _affine_cb(it["a"], it["b"], kind, emb, cq, coords, off)
    raise ValueError(it["k"])


def src_field(df, sp, kind, emb, dims):
    """the source field of a 'field' specification: values are the affine form of the source cell centre"""
    src = sp["src"]
    n = tuple(src["n"])
    nd = len(n)
    nvv = len(sp["b"])
    smesh = lat.mesh_of(df, src, emb, dims=dims)
    rows = []
    for i in lat.all_indices(n):
        ctr = [src["lo"][d] + src["c"][d] * i[d] + src["c"][d] // 2 for d in range(nd)]
        rows.append([sp["b"][c] + sum(sp["a"][c][d] * ctr[d] for d in range(nd)) for c in range(nvv)])
    arr = fldmod.unflatten(enc_rows(kind, rows), n)
    return df.Field(smesh, nvdim=nvv, value=arr, dtype=DTYPE[kind] if kind != "none" else arr.dtype)


def spec_value(df, sp, m, S, kind, emb, dims, off, variant=0):
    """Python object for a specification record; `off` collects off-lattice callback points."""
    cq = lat.cellq(m)
    nd = len(m["n"])
    coords = list(m["lo"]) + [m["lo"][d] + m["c"][d] * m["n"][d] for d in range(nd)]
    k = sp["k"]
    if k == "const":
        if sp["form"] == "scalar":
            return enc(kind, sp["v"][0])
        v = [enc(kind, x) for x in sp["v"]]
        if variant % 3 == 1:
            return list(v)
        if variant % 3 == 2:
            return np.array(v)
        return tuple(v)
    if k == "func":
        return _affine_cb(sp["a"], sp["b"], kind, emb, cq, coords, off)
    if k == "array":
        shape = tuple(sp["shape"])
        if sp["arr"]:
            a = fldmod.unflatten(enc_rows(kind, sp["arr"]), m["n"])
            if sp["sq"]:
                a = a[..., 0]
            if a.shape != shape:
                raise AssertionError(f"array spec shape {shape} vs built {a.shape}")
        else:
            a = np.zeros(shape, dtype=NPDTYPE[kind])
        return a.tolist() if variant % 2 == 1 else a
    if k == "dict":
        out = {}
        items = [(SUB_NAMES[j], it) for j, it in enumerate(sp["items"])]
        if (variant // 2) % 2 == 1:
            # "first-listed subregion" is the order of mesh.subregions (anchor: "reversed subregion order so first
            # wins"); the key order of the VALUE dictionary must not matter (seeded change C02-1)
            items.reverse()
        dflt = sp["def"]
        if dflt["k"] != "none" and variant % 2 == 1:
            out["default"] = _item_value(dflt, kind, emb, cq, coords, off)
        for name, it in items:
            if it["k"] != "none":
                out[name] = _item_value(it, kind, emb, cq, coords, off)
        if dflt["k"] != "none" and variant % 2 == 0:
            out["default"] = _item_value(dflt, kind, emb, cq, coords, off)
        return out
    if k == "field":
        return src_field(df, sp, kind, emb, dims)
    if k == "type":
        return {"str": "abc", "none": None, "object": object()}[sp["t"]]
    raise ValueError(k)


def spec_class(sp):
    """condition class of a specification for canonical violation keys"""
    k = sp["k"]
    if k == "const":
        return "const-" + sp["form"]
    if k == "array":
        return "array-squeezed" if sp.get("sq") else "array"
    if k == "dict":
        kinds = {it["k"] for it in sp["items"]} - {"none"}
        items = "+".join(sorted(kinds)) or "noitems"
        return f"dict-{items}/default-{sp['def']['k']}"
    if k == "field":
        return "field-" + str(sp.get("kind", "src"))
    if k == "type":
        return "type-" + sp["t"]
    return k


# ---------------------------------------------------------------- comparison
def rows_of(arr):
    """library array (*n, nv) -> 2-D (cells in iteration order, nv)"""
    return fldmod.flatten(arr)


def compare_array(kind, got_arr, n, nv, exp_rows, extra=()):
    """-> None if equal to the expected rows (or an admissible alternative), else description"""
    n = tuple(int(x) for x in n)
    if tuple(got_arr.shape) != n + (nv,):
        return {"why": "shape", "got_shape": list(got_arr.shape), "want_shape": list(n + (nv,))}
    got = rows_of(got_arr)
    want = enc_rows(kind, exp_rows)
    with np.errstate(invalid="ignore"):
        eq = np.all(got == want, axis=1)
    if bool(np.all(eq)):
        return None
    alt = {}
    for q, v in extra:
        alt.setdefault(q - 1, []).append(v)
    bad = []
    for q in np.nonzero(~eq)[0]:
        ok = False
        for v in alt.get(int(q), ()):
            w = enc_rows(kind, [list(v)])[0]
            if bool(np.all(got[q] == w)):
                ok = True
                break
        if not ok:
            bad.append(int(q))
    if not bad:
        return None
    q = bad[0]
    wrong = got[bad]
    with np.errstate(invalid="ignore"):
        if wrong.dtype.kind in "fc" and bool(np.any(np.isnan(wrong))):
            sig = "nan-leak"          # a NaN sentinel survived
        elif bool(np.all(wrong == 0)):
            sig = "zero-fill"         # cells never written
        else:
            sig = "wrong-value"
    return {"why": "values", "sig": sig, "cells_wrong": len(bad), "first_cell_flat": q,
            "got": got[q].tolist(), "want": list(exp_rows[q]), "want_encoded": want[q].tolist(),
            "got_all": got.tolist() if got.size <= 64 else None}


def row_matches(kind, got_row, cands):
    g = np.atleast_1d(np.asarray(got_row))
    for v in cands:
        w = enc_rows(kind, [list(v)])[0]
        if g.shape == w.shape and bool(np.all(g == w)):
            return True
    return False


def pow2(k):
    return k >= 1 and (k & (k - 1)) == 0


def line_tol(emb, cq, coords, den):
    """admissible deviation (lattice units) of a line point; exact only where the step is dyadic"""
    if emb.dyadic and pow2(den):
        return Fraction(0)
    if emb.dyadic:
        return Fraction(1, 10**9) * cq
    return emb.tol_q(cq, coords)
