"""Adapters between lattice configurations of the specification and library objects."""
from fractions import Fraction

import numpy as np

NAME_SCHEMES = [("x", "y", "z", "x3"), ("a", "b", "c", "d"), ("z", "y", "x", "w"), ("x0", "x1", "x2", "x3")]


def names_for(m):
    """dimension names used for a mesh configuration (a harness-level choice, deterministic)."""
    nd = len(m["n"])
    if nd == 4:
        k = (m["c"][0] // 4) % 2
        return (NAME_SCHEMES[3] if k == 0 else NAME_SCHEMES[1])[:nd]
    k = (m["c"][0] // 4 + m["lo"][0] // 4) % 3
    return NAME_SCHEMES[k][:nd]


def flip_for(m):
    """which axes get their corners swapped in the Region constructor call"""
    nd = len(m["n"])
    if m["lo"][0] == 0:
        return [False] * nd
    return [(d % 2 == 0) for d in range(nd)]


def int_corners(m, emb, coords):
    """deterministic harness-level choice: on dyadic embeddings whose corners are whole numbers, every second mesh
    configuration is built from Python ints (seeded changes C07-2 / C02-3 only showed with integer-typed input)"""
    import os

    if os.environ.get("VERIF_INT_CORNERS", "1") != "1" or not emb.dyadic:
        return False
    if not all(float(v).is_integer() and abs(v) < 2**40 for v in coords):
        return False
    return (sum(int(x) for x in m["n"]) + sum(int(x) // 4 for x in m["lo"])) % 2 == 1


def region_of(df, m, emb, dims=None, units=None, flip=None, **kw):
    nd = len(m["n"])
    lo = [emb.x(m["lo"][d]) for d in range(nd)]
    hi = [emb.x(m["lo"][d] + m["c"][d] * m["n"][d]) for d in range(nd)]
    flip = flip if flip is not None else [False] * nd
    if int_corners(m, emb, lo + hi):
        # integer-typed corners (Region keeps an int64 pmin/pmax): the numeric type of the corners must not matter
        lo, hi = [int(v) for v in lo], [int(v) for v in hi]
    p1 = [hi[d] if flip[d] else lo[d] for d in range(nd)]
    p2 = [lo[d] if flip[d] else hi[d] for d in range(nd)]
    # the container type of the corners is a harness-level choice too: list / tuple / ndarray
    form = (sum(int(x) for x in m["n"]) + nd) % 3
    if form == 1:
        p1, p2 = tuple(p1), tuple(p2)
    elif form == 2:
        p1, p2 = np.array(p1), np.array(p2)
    return df.Region(p1=p1, p2=p2, dims=dims, units=units, **kw)


def mesh_of(df, m, emb, dims=None, units=None, flip=None, bc="", subregions=None):
    reg = region_of(df, m, emb, dims=dims, units=units, flip=flip)
    n = tuple(int(x) for x in m["n"])
    form = (sum(n) + int(m["c"][0]) // 4) % 3
    if form == 1:
        n = list(n)
    elif form == 2:
        n = np.array(n)
    mesh = df.Mesh(region=reg, n=n, bc=bc, subregions=subregions)
    from . import fld
    fld.disown(subregions)   # the input Region objects remain the caller's: moving them must not move the mesh's
    return mesh


def box_region(df, b, emb, **kw):
    lo = [emb.x(v) for v in b["lo"]]
    hi = [emb.x(v) for v in b["hi"]]
    return df.Region(p1=lo, p2=hi, **kw)


def cellq(m):
    return max(m["c"])


def proj_coord(emb, x, cell_q, coords_q=()):
    """project float x to an integer lattice coordinate; returns (int, exact?)"""
    q = emb.q_of(x)
    k = round(q)
    ok = abs(q - k) <= emb.tol_q(cell_q, tuple(coords_q) + (k,))
    return int(k), bool(ok)


def proj_frac(emb, x, cell_q, den, coords_q=()):
    """project float x to a lattice rational with denominator dividing den"""
    q = emb.q_of(x)
    k = round(q * den)
    f = Fraction(k, den)
    ok = abs(q - f) <= emb.tol_q(cell_q, tuple(coords_q) + (f,))
    return f, bool(ok)


def all_indices(n):
    """indices in library order (first dimension fastest)"""
    return [tuple(int(v) for v in np.unravel_index(k, n, order="F")) for k in range(int(np.prod(n)))]


def proj_region(emb, reg, cell_q, den=1):
    """project a library Region to a box of lattice rationals; (box, exact?)"""
    lo, hi, ok = [], [], True
    for a, b in zip(np.asarray(reg.pmin, dtype=float), np.asarray(reg.pmax, dtype=float)):
        fa, oa = proj_frac(emb, a, cell_q, den)
        fb, ob = proj_frac(emb, b, cell_q, den)
        lo.append(fa)
        hi.append(fb)
        ok = ok and oa and ob
    return {"lo": lo, "hi": hi}, ok
