"""Adapters between lattice configurations of the specification and library objects."""
from fractions import Fraction

import numpy as np

NAME_SCHEMES = [("x", "y", "z", "x3"), ("a", "b", "c", "d"), ("z", "y", "x", "w"), ("x0", "x1", "x2", "x3")]


def names_for(m):
    """dimension names used for a mesh configuration (a harness-level choice, deterministic)."""
    nd = len(m["n"])
    if nd == 4:
        k = (m["c"][0] // 4) % 2
        return (NAME_SCHEMES[3] if k == 0 else NAME_SCHEMES[1])[:nd]
    k = (m["c"][0] // 4 + m["lo"][0] // 4) % 3
    return NAME_SCHEMES[k][:nd]


def flip_for(m):
    """which axes get their corners swapped in the Region constructor call"""
    nd = len(m["n"])
    if m["lo"][0] == 0:
        return [False] * nd
    return [(d % 2 == 0) for d in range(nd)]


def int_corners(m, emb, coords):
    """deterministic harness-level choice: on dyadic embeddings whose corners are whole numbers, every second mesh
    configuration is built from Python ints (seeded changes C07-2 / C02-3 only showed with integer-typed input)"""
    import os

    if os.environ.get("VERIF_INT_CORNERS", "1") != "1" or not emb.dyadic:
        return False
    if not all(float(v).is_integer() and abs(v) < 2**40 for v in coords):
        return False
    return (sum(int(x) for x in m["n"]) + sum(int(x) // 4 for x in m["lo"])) % 2 == 1


def region_of(df, m, emb, dims=None, units=None, flip=None, **kw):
    nd = len(m["n"])
    lo = [emb.x(m["lo"][d]) for d in range(nd)]
    hi = [emb.x(m["lo"][d] + m["c"][d] * m["n"][d]) for d in range(nd)]
    flip = flip if flip is not None else [False] * nd
    if int_corners(m, emb, lo + hi):
        # integer-typed corners (Region keeps an int64 pmin/pmax): the numeric type of the corners must not matter
        lo, hi = [int(v) for v in lo], [int(v) for v in hi]
    p1 = [hi[d] if flip[d] else lo[d] for d in range(nd)]
    p2 = [lo[d] if flip[d] else hi[d] for d in range(nd)]
    # the container type of the corners is a harness-level choice too: list / tuple / ndarray
    form = (sum(int(x) for x in m["n"]) + nd) % 3
    if form == 1:
        p1, p2 = tuple(p1), tuple(p2)
    elif form == 2:
        p1, p2 = np.array(p1), np.array(p2)
    return df.Region(p1=p1, p2=p2, dims=dims, units=units, **kw)


def mesh_of(df, m, emb, dims=None, units=None, flip=None, bc="", subregions=None):
    reg = region_of(df, m, emb, dims=dims, units=units, flip=flip)
    n = tuple(int(x) for x in m["n"])
    form = (sum(n) + int(m["c"][0]) // 4) % 3
    if form == 1:
        n = list(n)
    elif form == 2:
        n = np.array(n)
    mesh = df.Mesh(region=reg, n=n, bc=bc, subregions=subregions)
    from . import fld
    fld.disown(subregions)   # the input Region objects remain the caller's: moving them must not move the mesh's
    return arrive_in_place(df, mesh, emb, (sum(int(x) for x in m["n"]) * 7 + sum(int(x) // 4 for x in m["lo"]) * 3 + int(m["c"][0]) // 4 + len(emb.name)))


# ---------------------------------------------------------------- objects that ARRIVE at their state by in-place steps
def _core(mesh):
    regs = [mesh.region] + [mesh.subregions[k] for k in mesh.subregions]
    return ([(np.asarray(r.pmin, dtype=float), np.asarray(r.pmax, dtype=float), tuple(r.units), tuple(r.dims)) for r in regs],
            tuple(int(v) for v in mesh.n), tuple(mesh.subregions), mesh.bc)


def _same_core(a, b, exact):
    (ra, na, ka, ba), (rb, nb, kb, bb) = _core(a), _core(b)
    if na != nb or ka != kb or ba != bb or len(ra) != len(rb):
        return False
    scale = max(float(np.max(np.abs(np.concatenate([ra[0][0], ra[0][1]])))), float(np.min(ra[0][1] - ra[0][0])))
    for (l1, h1, u1, d1), (l2, h2, u2, d2) in zip(ra, rb):
        if u1 != u2 or d1 != d2:
            return False
        if exact:
            if not (np.array_equal(l1, l2) and np.array_equal(h1, h2)):
                return False
        elif not (np.all(np.abs(l1 - l2) <= 1e-13 * scale) and np.all(np.abs(h1 - h2) <= 1e-13 * scale)):
            return False
    return True


def _warm(mesh):
    try:
        mesh.cell, mesh.dV, len(mesh), mesh.cells, mesh.vertices, mesh.region.edges, mesh.region.center, mesh.region.volume
        mesh.index2point(tuple(0 for _ in mesh.n)), list(mesh.indices)[:1], list(mesh)[:1]
    except Exception:  # noqa: BLE001  (reads only; nothing is judged here)
        pass


ARRIVALS = {"direct": 0, "translate": 0, "scale": 0, "rotate90": 0, "fallback": 0}


def arrive_in_place(df, mesh, emb, salt):
    """Half of the meshes the checks work on are not fresh from the constructor but ARRIVE at the same state through
    in-place steps of the public API (there and back by a translation / a scaling, or a quarter turn from the pre-image),
    after every derived attribute has been read once: nothing the library derives from (region, n) may be stale afterwards
    (seeded changes C01-3, C06-1, C07-11, C13-11, C14-11 memoised cell / dV / cells and forgot one of the in-place paths).
    The arrival itself is not judged here (that is C12 / C13): if the arrived object does not have the state of the directly
    constructed one BIT FOR BIT, the direct one is used.  (A first version accepted 1e-13 on non-dyadic embeddings: requests
    exactly on the region boundary, which the checks derive from the ideal lattice, were then one ulp outside the arrived
    region and `sel` refused them - a false alarm of the harness, corrected by demanding identity.)"""
    import os

    route = salt % 6
    if mesh.region.ndim >= 2 and int(mesh.n[0]) != int(mesh.n[1]) and salt % 3 == 0:
        route = 5   # the quarter turn is the route on which cell counts and cell sizes change places: take it more often
    regs = [mesh.region] + list(mesh.subregions.values())
    if route < 3 or os.environ.get("VERIF_ARRIVE", "1") != "1" or any(r.pmin.dtype.kind != "f" or r.pmax.dtype.kind != "f" for r in regs):
        ARRIVALS["direct"] += 1
        return mesh
    nd = mesh.region.ndim
    edges = np.asarray(mesh.region.edges, dtype=float)
    try:
        if route == 5 and nd >= 2:
            kind = "rotate90"
            a, b = 0, 1
            lo, hi = np.asarray(mesh.region.pmin, dtype=float), np.asarray(mesh.region.pmax, dtype=float)
            c = (lo + hi) / 2

            def pre(l, h):
                l2, h2 = l.copy(), h.copy()
                l2[a], h2[a] = c[a] + (l[b] - c[b]), c[a] + (h[b] - c[b])
                l2[b], h2[b] = c[b] - (h[a] - c[a]), c[b] - (l[a] - c[a])
                return l2, h2

            units, n = list(mesh.region.units), [int(v) for v in mesh.n]
            units[a], units[b] = units[b], units[a]
            n[a], n[b] = n[b], n[a]
            plo, phi = pre(lo, hi)
            subs = {}
            for k, r in mesh.subregions.items():
                sl, sh = pre(np.asarray(r.pmin, dtype=float), np.asarray(r.pmax, dtype=float))
                subs[k] = df.Region(p1=sl, p2=sh, dims=mesh.region.dims, units=units)
            other = df.Mesh(region=df.Region(p1=plo, p2=phi, dims=mesh.region.dims, units=units,
                                             tolerance_factor=mesh.region.tolerance_factor), n=n, bc=mesh.bc, subregions=subs)
            _warm(other)
            other.rotate90(mesh.region.dims[a], mesh.region.dims[b], k=1, inplace=True)
        else:
            kind = "translate" if route != 4 else "scale"
            other = df.Mesh(region=df.Region(p1=mesh.region.pmin, p2=mesh.region.pmax, dims=mesh.region.dims, units=mesh.region.units,
                                             tolerance_factor=mesh.region.tolerance_factor),
                            n=tuple(int(v) for v in mesh.n), bc=mesh.bc,
                            subregions={k: df.Region(p1=r.pmin, p2=r.pmax, dims=r.dims, units=r.units) for k, r in mesh.subregions.items()})
            # (no reads before the first step: a quantity memoised HERE would be right again at the end; the reads happen at the
            # far end of the there-and-back, so that anything memoised there is stale when the mesh is back)
            # a mesh keeps the Region object it is built on (public, mutable): without subregions, every second arrival moves
            # the REGION in place instead of the mesh (seeded change C15-12 cached the cell centres in the mesh and dropped
            # them only in the in-place methods of the mesh itself)
            tgt = other.region if (not other.subregions and (salt // 6) % 2 == 0) else other
            if kind == "translate":
                v = tuple(float(4 * e) for e in edges)
                tgt.translate(v, inplace=True)
                _warm(other)
                tgt.translate(tuple(-x for x in v), inplace=True)
            else:
                ref = tuple(float(x) for x in mesh.region.pmin)
                tgt.scale(2.0, reference_point=ref, inplace=True)
                _warm(other)
                tgt.scale(0.5, reference_point=ref, inplace=True)
    except Exception:  # noqa: BLE001  a refusal of the in-place route is C13's business, not this check's
        ARRIVALS["fallback"] += 1
        return mesh
    if not _same_core(mesh, other, exact=True):
        ARRIVALS["fallback"] += 1
        return mesh
    ARRIVALS[kind] += 1
    return other


def box_region(df, b, emb, **kw):
    lo = [emb.x(v) for v in b["lo"]]
    hi = [emb.x(v) for v in b["hi"]]
    return df.Region(p1=lo, p2=hi, **kw)


def cellq(m):
    return max(m["c"])


def proj_coord(emb, x, cell_q, coords_q=()):
    """project float x to an integer lattice coordinate; returns (int, exact?)"""
    q = emb.q_of(x)
    k = round(q)
    ok = abs(q - k) <= emb.tol_q(cell_q, tuple(coords_q) + (k,))
    return int(k), bool(ok)


def proj_frac(emb, x, cell_q, den, coords_q=()):
    """project float x to a lattice rational with denominator dividing den"""
    q = emb.q_of(x)
    k = round(q * den)
    f = Fraction(k, den)
    ok = abs(q - f) <= emb.tol_q(cell_q, tuple(coords_q) + (f,))
    return f, bool(ok)


def all_indices(n):
    """indices in library order (first dimension fastest)"""
    return [tuple(int(v) for v in np.unravel_index(k, n, order="F")) for k in range(int(np.prod(n)))]


def proj_region(emb, reg, cell_q, den=1):
    """project a library Region to a box of lattice rationals; (box, exact?)"""
    lo, hi, ok = [], [], True
    for a, b in zip(np.asarray(reg.pmin, dtype=float), np.asarray(reg.pmax, dtype=float)):
        fa, oa = proj_frac(emb, a, cell_q, den)
        fb, ob = proj_frac(emb, b, cell_q, den)
        lo.append(fa)
        hi.append(fb)
        ok = ok and oa and ob
    return {"lo": lo, "hi": hi}, ok
