"""Channel T for C03 (and the shared trace machinery for C08): seeded random programs of the register
machine are executed on the real library and every call is logged for spec/C03Trace.tla.

Logged numbers are integers only: values are Gaussian rationals [re, im, den] obtained by projecting
the floats the library returned (harness/c03_machine.project_value); a register whose values are not
small rationals is logged with vx = false and is then not compared by value.
"""
import random

import numpy as np

from . import c03_machine as mc
from . import core, embed

LABEL_SETS = {1: [["s"], ["t"], ["u0"]],
              2: [["a", "b"], ["mx", "my"], ["p", "q"]],
              3: [["a", "b", "c"], ["mx", "my", "mz"], ["p", "q", "r"]],
              4: [["a", "b", "c", "d"], ["w0", "w1", "w2", "w3"]]}
DIM_SETS = [["x", "y", "z", "w"], ["a1", "a2", "a3", "a4"], ["z", "y", "x", "t"]]


def rand_mesh(rnd, maxcells=36, ndims=(1, 2, 2, 3, 3, 4)):
    nd = rnd.choice(ndims)
    while True:
        n = [rnd.randint(1, 4) for _ in range(nd)]
        if int(np.prod(n)) <= maxcells:
            break
    dims = rnd.choice(DIM_SETS)[:nd]
    return {"lo": [4 * rnd.randint(-5, 5) for _ in range(nd)], "c": [4 * rnd.randint(1, 3) for _ in range(nd)], "n": n, "dims": dims}


def rand_value(rnd, cplx, zero_free):
    while True:
        re = rnd.randint(-9, 9)
        im = rnd.randint(-4, 4) if cplx else 0
        if not zero_free or re != 0 or im != 0:
            return [re, im, 1]


def rand_field(rnd, m, nv=None, cplx=None, other_labels=None):
    ncell = int(np.prod(m["n"]))
    nv = nv or rnd.choice([1, 1, 2, 3, 3, 4])
    cplx = rnd.random() < 0.15 if cplx is None else cplx
    zf = rnd.random() < 0.6
    val = [[rand_value(rnd, cplx, zf) for _ in range(nv)] for _ in range(ncell)]
    mode = rnd.random()
    valid = [True] * ncell if mode < 0.25 else [rnd.random() < 0.6 for _ in range(ncell)]
    nd = len(m["n"])
    custom = rnd.random() < (0.15 if nv == 1 else 0.4)
    if custom:
        vdims = list(rnd.choice(LABEL_SETS[nv]))
        r = rnd.random()
        if nv == nd and r < 0.5:
            perm = list(m["dims"])
            rnd.shuffle(perm)
            mp = perm
        elif nv == 1 and r < 0.5:
            mp = [rnd.choice(m["dims"])]
        else:
            mp = []
    else:
        vdims = mc.default_vdims(nv)
        mp = list(m["dims"]) if (nv == nd and nv > 1) else []
    dt = "complex" if cplx else rnd.choice(["float", "float", "int"])
    return {"k": "field", "m": m, "nv": nv, "val": val, "vx": True, "valid": valid, "vt": "bool", "vdims": vdims, "map": mp,
            "aux": [], "vo": 0, "dt": dt}


def rand_num(rnd):
    r = rnd.random()
    if r < 0.5:
        return {"k": "num", "val": [rnd.choice([-3, -2, -1, 2, 3, 4]), 0, 1]}
    if r < 0.75:
        return {"k": "num", "val": [rnd.choice([-3, -1, 1, 3, 5]), 0, 2]}
    return {"k": "num", "val": [rnd.randint(-3, 3), rnd.choice([-2, -1, 1, 2]), 1]}


def rand_vec(rnd, nv):
    nv = max(nv, 2)  # a one-element "vector" is a number
    return {"k": "vec", "val": [[rnd.choice([-3, -2, -1, 1, 2, 3]), 0, 1] for _ in range(nv)]}


def rand_arr(rnd, m, nv):
    ncell = int(np.prod(m["n"]))
    return {"k": "arr", "m": m, "nv": nv, "val": [[[rnd.choice([-4, -3, -2, -1, 1, 2, 3, 4]), 0, 1] for _ in range(nv)] for _ in range(ncell)]}


class TraceMachine(mc.Machine):
    """Machine that also keeps the *observed* model image of every register."""

    def __init__(self, df, emb, scratch, meshes):
        super().__init__(df, emb, scratch)
        self.meshrecs = list(meshes)  # model mesh records known to this trace
        self.mregs = []
        self.num_style = {}

    def add_initial(self, reg, rnd):
        obj = self.build(reg)
        if reg["k"] == "num" and rnd.random() < 0.3:  # NumPy scalars are numbers too
            obj = np.float64(obj) if not isinstance(obj, complex) else np.complex128(obj)
        if reg["k"] == "vec":
            style = rnd.random()
            obj = list(obj) if style < 0.3 else (np.array(obj) if style < 0.5 else obj)
        self.push(obj)
        self.mregs.append(self.observe(obj, reg))

    def mesh_record(self, mesh):
        key = mc.mesh_key(mesh)
        for m in self.meshrecs:
            if mc.mesh_key(self.mesh_of(m)) == key:
                return m
        nd = mesh.region.ndim
        return {"lo": [-999] * nd, "c": [4] * nd, "n": [int(v) for v in mesh.n], "dims": list(mesh.region.dims)}

    def vo_of(self, f):
        for k, o in enumerate(self.objs):
            if isinstance(o, self.df.Field) and (o.valid is f.valid or np.shares_memory(o.valid, f.valid)):
                return self.mregs[k]["vo"] if k < len(self.mregs) else k + 1
        return len(self.objs) + 1

    def observe(self, obj, reg=None):
        """model image of a library object (initial non-field registers keep their exact definition)"""
        if not isinstance(obj, self.df.Field):
            return {k: v for k, v in reg.items()}
        m = self.mesh_record(obj.mesh)
        val = mc.project_array(obj.array)
        vx = val is not None
        ncell = int(np.prod(obj.array.shape[:-1]))
        if not vx:
            val = [[[0, 0, 1]] * obj.array.shape[-1] for _ in range(ncell)]
        dt = str(obj.valid.dtype)
        return {"k": "field", "m": m, "nv": int(obj.nvdim), "val": val, "vx": vx,
                "valid": [bool(v) for v in mc.flat_mask(obj.valid)], "vt": "bool" if dt == "bool" else dt,
                "vdims": list(mc.vdims_seq(obj)), "map": list(mc.mapping_seq(obj)), "aux": [], "vo": self.vo_of(obj)}


def field_idx(tm):
    return [k + 1 for k, r in enumerate(tm.mregs) if r["k"] == "field"]


def pick(rnd, items, recent_bias=0.5):
    """prefer recently created registers so that expressions get deep"""
    items = list(items)
    if len(items) > 1 and rnd.random() < recent_bias:
        return items[-1] if rnd.random() < 0.6 else rnd.choice(items[-3:])
    return rnd.choice(items)


C03_OPS = [("neg", 3), ("pos", 2), ("abs", 3), ("real", 1), ("imag", 1), ("conj", 1), ("cabs", 1),
           ("add", 8), ("sub", 6), ("mul", 8), ("div", 5), ("pow", 3), ("dot", 4), ("cross", 3), ("angle", 2),
           ("lshift", 4), ("comp", 3), ("restack", 2), ("ufunc1", 3), ("ufunc2", 5)]


def gen_instruction(rnd, tm, ops):
    """a structurally well-formed instruction over the current registers (TLC decides whether it is inside the bounds)"""
    names = [o for o, w in ops for _ in range(w)]
    F = field_idx(tm)
    allr = list(range(1, len(tm.mregs) + 1))
    nonf = [k for k in allr if k not in F]
    for _ in range(50):
        op = rnd.choice(names)
        if op in ("neg", "pos", "abs", "real", "imag", "conj", "cabs", "phase", "norm", "orientation", "restack", "grad", "divg", "curl", "laplace", "h5", "vtk"):
            i = pick(rnd, F)
            r = tm.mregs[i - 1]
            if op == "restack" and r["nv"] < 2:
                continue
            return (op, i, 0, [])
        if op in ("add", "sub", "mul", "div"):
            if nonf and rnd.random() < 0.25:
                i, j = rnd.choice(nonf), pick(rnd, F)
                if tm.mregs[i - 1]["k"] == "arr" and tm.mregs[i - 1]["m"]["n"] != tm.mregs[j - 1]["m"]["n"]:
                    continue
            else:
                i, j = pick(rnd, F), pick(rnd, allr, 0.3)
            o = tm.mregs[j - 1] if tm.mregs[i - 1]["k"] == "field" else tm.mregs[i - 1]
            s = tm.mregs[i - 1] if tm.mregs[i - 1]["k"] == "field" else tm.mregs[j - 1]
            if o["k"] == "arr" and not (o["m"]["n"] == s["m"]["n"] and (o["nv"] == s["nv"] or s["nv"] == 1)):
                continue
            return (op, i, j, [])
        if op == "pow":
            i = pick(rnd, F)
            cand = [k for k in allr if tm.mregs[k - 1]["k"] == "num" and tm.mregs[k - 1]["val"][1] == 0 and tm.mregs[k - 1]["val"][2] == 1]
            if not cand:
                continue
            j = rnd.choice(cand)
            if tm.mregs[j - 1]["val"][0] < 0 and np.issubdtype(tm.objs[i - 1].array.dtype, np.integer):
                continue  # NumPy itself refuses integer ** negative integer
            return (op, i, j, [])
        if op in ("dot", "cross"):
            if rnd.random() < 0.2:
                vs = [k for k in nonf if tm.mregs[k - 1]["k"] == "vec" and isinstance(tm.objs[k - 1], (tuple, list))]
                if not vs:
                    continue
                return (op, rnd.choice(vs), pick(rnd, F), [])
            i = pick(rnd, F)
            cand = [k for k in allr if tm.mregs[k - 1]["k"] in ("field", "vec")]
            return (op, i, pick(rnd, cand, 0.3), [])
        if op == "angle":
            i = pick(rnd, F)
            # a tuple whose length differs from the component count is ambiguous on 1-D meshes (it may be read as per-cell values)
            cand = [k for k in allr if tm.mregs[k - 1]["k"] == "field" or
                    (tm.mregs[k - 1]["k"] == "vec" and len(tm.mregs[k - 1]["val"]) == tm.mregs[i - 1]["nv"])]
            return (op, i, pick(rnd, cand, 0.3), [])
        if op == "lshift":
            cand = [k for k in allr if tm.mregs[k - 1]["k"] != "arr"]
            if rnd.random() < 0.2:
                nf = [k for k in cand if k not in F and not isinstance(tm.objs[k - 1], (np.ndarray, np.number))]
                if not nf:
                    continue
                return (op, rnd.choice(nf), pick(rnd, F), [])
            return (op, pick(rnd, F), pick(rnd, cand, 0.3), [])
        if op == "comp":
            cand = [k for k in F if tm.mregs[k - 1]["vdims"]]
            if not cand:
                continue
            i = pick(rnd, cand)
            return (op, i, 0, rnd.randint(1, tm.mregs[i - 1]["nv"]))
        if op == "ufunc1":
            return (op, pick(rnd, F), 0, rnd.choice(["negative", "absolute", "square", "conjugate", "sin"]))
        if op == "ufunc2":
            u = rnd.choice(["add", "subtract", "multiply", "maximum", "minimum"])
            cand = [k for k in allr if tm.mregs[k - 1]["k"] in ("field", "num", "arr")]
            i, j = pick(rnd, F), pick(rnd, cand, 0.3)
            o = tm.mregs[j - 1]
            if o["k"] == "arr" and not (o["m"]["n"] == tm.mregs[i - 1]["m"]["n"] and (o["nv"] == tm.mregs[i - 1]["nv"] or tm.mregs[i - 1]["nv"] == 1 or o["nv"] == 1)):
                continue
            if rnd.random() < 0.3:
                i, j = j, i
            return (op, i, j, u)
    return ("neg", F[0], 0, [])


def gen_trace(df, rnd, tid, scratch, ops=C03_OPS, nev=(5, 9)):
    m = rand_mesh(rnd)
    mx = dict(m, lo=[m["lo"][0] + m["c"][0]] + list(m["lo"][1:]))  # the same cells one cell further along the first axis
    tm = TraceMachine(df, embed.DYADIC[0], scratch, [m, mx])
    nv0 = rnd.choice([1, 2, 3, 3])
    regs = [rand_field(rnd, m, nv=nv0), rand_field(rnd, m), rand_field(rnd, m, nv=rnd.choice([1, nv0]))]
    if rnd.random() < 0.5:
        regs.append(rand_field(rnd, m, nv=nv0))
    regs.append(rand_num(rnd))
    regs.append(rand_vec(rnd, rnd.choice([nv0, nv0, 2, 3])))
    if rnd.random() < 0.4:
        regs.append(rand_arr(rnd, m, rnd.choice([1, nv0])))
    if rnd.random() < 0.3:
        regs.append(rand_field(rnd, mx, nv=rnd.choice([1, nv0])))
    for r in regs:
        tm.add_initial(r, rnd)
    init_regs = [dict(r) for r in tm.mregs]
    events = []
    for _ in range(rnd.randint(*nev)):
        ins = gen_instruction(rnd, tm, ops)
        events.append(run_event(tm, ins))
    return {"id": tid, "mesh": m, "regs": init_regs, "ev": events}


def run_event(tm, ins):
    df = tm.df
    op, i, j, x = ins
    opc = mc.op_class(ins, tm.objs)
    ev = {"ins": [op, i, j, x], "opc": opc, "sw": {"has": False}, "ch": [], "cond": {}}
    try:
        F = tm.execute(ins, tm.mregs)
        ok = isinstance(F, df.Field)
        if not ok:
            ev["exc"] = f"returned {type(F).__name__}"
    except mc.Rejected as ex:
        F, ok = None, False
        ev["exc"] = type(ex.exc).__name__
    ev["ok"] = ok
    if ok:
        ev["reg"] = tm.observe(F)
        same, shared = tm.aliases(F)
        ev["alias"] = {"same": same, "shared": shared}
    # a op b vs b op a on the real operators
    if op in ("add", "mul") and j > 0:
        sw = {"has": True}
        try:
            G = tm.execute((op, j, i, x), tm.mregs)
            sw["ok"] = isinstance(G, df.Field)
        except mc.Rejected as ex:
            G, sw["ok"] = None, False
        if sw["ok"]:
            sw["reg"] = tm.observe(G)
            if ok:
                d = [k for k in ("m", "nv", "val", "valid", "vdims", "map") if sw["reg"][k] != ev["reg"][k]]
                ev["cond"]["C03_Commutes"] = "+".join({"m": "mesh", "nv": "shape", "val": "values", "valid": "validity", "vdims": "labels", "map": "mapping"}[k] for k in d) or "vx"
        if sw["ok"] != ok:
            ev["cond"]["C03_Commutes"] = "one-order-raises"
        ev["sw"] = sw
    ch = tm.changed()
    ev["ch"] = sorted(ch)
    if ch:
        ev["cond"]["C03_OperandsUnchanged"] = "+".join(sorted({p for v in ch.values() for p in v}))
    if ok:
        tm.push(F)
        tm.mregs.append(ev["reg"])
    two = j > 0 and tm.mregs[i - 1]["k"] == "field" and tm.mregs[j - 1]["k"] == "field"
    ev["cond"]["C03_RejectMismatch"] = "accepted-" + ("different-mesh" if two and tm.mregs[i - 1]["m"] != tm.mregs[j - 1]["m"] else "component-count")
    ev["cond"]["C03_Cellwise-raises"] = "raises-" + ev.get("exc", "")
    return ev


def strip(traces):
    """what TLC reads: without the harness-only annotations"""
    out = []
    for t in traces:
        evs = []
        for e in t["ev"]:
            d = {"ins": e["ins"], "ok": e["ok"], "sw": e["sw"], "ch": e["ch"]}
            if e["ok"]:
                d["reg"] = e["reg"]
            evs.append(d)
        out.append({"id": t["id"], "regs": t["regs"], "ev": evs})
    return out


def run_traces(ctx, df, ntraces, module="C03Trace", ops=C03_OPS, batch=400):
    rnd = random.Random(ctx.seed * 104729 + 3)
    traces = [gen_trace(df, rnd, t + 1, ctx.scratch, ops) for t in range(ntraces)]
    byid = {t["id"]: t for t in traces}
    verdicts = []
    for b in range(0, len(traces), batch):
        part = traces[b:b + batch]
        r, vs, _ = ctx.trace_check(module, f"{module}.cfg", strip(part), timeout=900)
        expect = sum(len(t["ev"]) + 2 for t in part)
        if r.distinct != expect:
            raise core._tlc.MachineryError(f"{module} consumed {r.distinct} states, expected {expect}")
        verdicts += vs
    seen = set()
    for v in verdicts:
        _, tid, l, clause = v
        if (tid, l, clause) in seen:
            continue
        seen.add((tid, l, clause))
        t = byid[tid]
        e = t["ev"][l - 1]
        cond = e["cond"].get(clause) or (clause.split("-", 1)[1] if "-" in clause else "values")
        kclause = "C03_Cellwise" if clause.startswith("C03_Cellwise") else clause
        ctx.violation(f"{kclause}/{e['opc']}/{cond}" if kclause != "C03_Commutes" else
                      f"C03_Commutes/{e['ins'][0]}.{''.join(sorted(e['opc'].split('.')[-1]))}/{cond}",
                      f"recorded execution rejected by {module}: clause {clause}",
                      {"mesh": t["mesh"], "registers": summarize(t["regs"]), "event": {k: e[k] for k in ("ins", "ok", "opc", "cond", "ch") if k in e},
                       "program": [x["ins"] for x in t["ev"][:l]]})
    ctx.traces += len(traces)
    nev = sum(len(t["ev"]) for t in traces)
    ctx.evaluations += nev
    valchk = sum(1 for t in traces for e in t["ev"] if e["ok"] and e["reg"]["vx"])
    ctx.notes["T_events"] = ctx.notes.get("T_events", 0) + nev
    ctx.notes["T_events_value_projectable"] = ctx.notes.get("T_events_value_projectable", 0) + valchk
    ctx.notes["T_events_rejected"] = ctx.notes.get("T_events_rejected", 0) + sum(1 for t in traces for e in t["ev"] if not e["ok"])
    for t in traces:
        for e in t["ev"]:
            ctx.nontriv("T", t["id"], str(e["ins"]), e["ok"])
    ctx.sample({"channel": "T", "trace": {"id": traces[0]["id"], "mesh": traces[0]["mesh"], "registers": summarize(traces[0]["regs"]),
                                          "events": [{k: e[k] for k in ("ins", "ok", "opc")} for e in traces[0]["ev"]]}})
    return traces


def summarize(regs):
    out = []
    for r in regs:
        if r["k"] == "field":
            out.append({"k": "field", "nv": r["nv"], "vdims": r["vdims"], "map": r["map"], "n": r["m"]["n"], "lo": r["m"]["lo"], "valid": r["valid"]})
        else:
            out.append({"k": r["k"], "val": r["val"] if r["k"] != "arr" else "..."})
    return out
