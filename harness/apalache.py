"""Apalache (symbolic model checker for TLA+) for the unbounded integer core of C13 (spec/C13Core.tla): the normal form
lo < hi /\\ n >= 1 /\\ c >= 1 /\\ hi - lo = n * c is an inductive invariant of translation by any vector, scaling by any
non-zero integer factor about any reference point, and the half turn - for coordinates, vectors and factors of ANY size
and histories of ANY length.  Two obligations: Init => IndInv (length 0) and IndInv /\\ Next => IndInv' (length 1 from
IndInit).  The result is reported in the evidence; a counterexample is a violation of the specification itself, a
time-out or a missing tool is a note (the bounded TLC runs do not depend on it)."""
import os
import shutil
import subprocess
import time

SPEC_DIR = os.path.join(os.path.dirname(os.path.dirname(os.path.abspath(__file__))), "spec")
OBLIGATIONS = (("Init => IndInv", ["--init=Init", "--inv=IndInv", "--length=0"]),
               ("IndInv /\\ Next => IndInv'", ["--init=IndInit", "--inv=IndInv", "--length=1"]))
# spec/C01Core.tla: the index <-> point maps of a 1-d integer lattice with ANY corner, cell size and cell count; every clause is
# an invariant of the (arbitrary) initial states
C01_OBLIGATIONS = tuple((inv, ["--init=Init", f"--inv={inv}", "--length=0"]) for inv in
                        ("C01_IndexPointInverse", "C01_PointInOwnCell", "C01_CellsTileOnce", "C01_CentresIncrease", "C01_OutsideInNoCell"))
def _inits(*invs):
    return tuple((inv, ["--init=Init", f"--inv={inv}", "--length=0"]) for inv in invs)


# spec/C07Core.tla: selection, padding, refinement on the unbounded 1-d integer lattice
C07_OBLIGATIONS = _inits("C07_SelectionKeepsPositions", "C07_SelectionCellAligned", "C07_PaddingKeepsPositions", "C07_PaddingNewCellsOutside",
                         "C07_RefinementTakesContainingCell")
C07_CLAIM = ("Apalache: on the 1-d integer lattice (spec/C07Core.tla) the cells of a range selection and of a padded mesh lie exactly where the "
             "source cells they take their values from lie, new padding cells lie outside the source, and the centre of a refined cell lies "
             "strictly inside the source cell k div m - for unbounded corners, cell sizes, counts and requests (%d of %d obligations, "
             "reported, not relied on)")
# spec/C12Core.tla: the quarter turn in the plane of two axes on the unbounded 2-d integer lattice
C12_OBLIGATIONS = _inits("C12_ResultNormal", "C12_CellsMoveWithTheTurn", "C12_VectorsTurn", "C12_TwoTurnsHalfTurn", "C12_FourTurnsIdentity",
                         "C12_ReferenceFixed")
C12_CLAIM = ("Apalache: on the 2-d integer lattice (spec/C12Core.tla) a quarter turn about any reference point carries the centre of cell (i, j) "
             "to the centre of cell (ny-1-j, i) of a normal mesh with swapped counts and cell sizes, vectors turn with the positions, two turns "
             "are the half turn and four the identity - for unbounded coordinates (%d of %d obligations, reported, not relied on)")
# spec/C04Core.tla: every stencil of operators._1d_diff on the polynomials it is exact for
C04_OBLIGATIONS = _inits("C04_CentralFirstExactOnQuadratics", "C04_LowerEdgeFirstExactOnQuadratics", "C04_UpperEdgeFirstExactOnQuadratics",
                         "C04_TwoCellFirstExactOnLinear", "C04_CentralSecondExactOnCubics", "C04_LowerEdgeSecondExactOnCubics",
                         "C04_UpperEdgeSecondExactOnCubics", "C04_ThreeCellSecondExactOnQuadratics")
C04_CLAIM = ("Apalache: every stencil the specification gives for the first and second derivative (interior, both ends, short lines) reproduces "
             "the derivative of the polynomials it is exact for, for unbounded integer coefficients, positions and cell sizes "
             "(spec/C04Core.tla; %d of %d obligations, reported, not relied on)")
C06_CLAIM = ("Apalache: along a line of ANY length with values of any size the cumulative integral at the last cell plus half that cell equals "
             "the directional integral (sum times cell length), the mean times the extent equals the integral, and sums / integrals / "
             "cumulative integrals are linear in the field (spec/C06Core.tla, inductive invariant of `take the next cell`; %d of %d "
             "obligations, reported, not relied on)")
# spec/C05Core.tla: why the identities and the exactness on quadratics follow from "textbook combinations of directional differences"
C05_OBLIGATIONS = _inits("C05_MixedDifferencesCommute", "C05_DifferenceLinear", "C05_DivCurlVanishes", "C05_CurlGradVanishes",
                         "C05_LaplaceExactOnQuadratics", "C05_GradExactOnQuadratics")
C05_CLAIM = ("Apalache: three-point differences along two different axes commute for ANY coefficients and values, a difference is linear, "
             "hence div(curl v) and every component of curl(grad f) cancel term by term when each component is differenced along its own "
             "axis, and the second / first central differences of a quadratic polynomial in three variables are its exact partial "
             "derivatives at every position for every cell size (spec/C05Core.tla; %d of %d obligations, reported, not relied on)")
# spec/C11Core.tla: where the frequencies of an axis of n cells sit before and after the shift
C11_OBLIGATIONS = _inits("C11_FrequencyCount", "C11_FrequencyRange", "C11_ShiftSortsFrequencies", "C11_UnshiftInvertsShift", "C11_ZeroFrequencyCell")
C11_CLAIM = ("Apalache: for an axis of ANY length n the frequencies -(n div 2) .. (n-1) div 2 occur once each, the shift sorts them (cell p of "
             "the k-mesh holds frequency p - n div 2, the zero frequency cell n div 2), and the inverse shift undoes the shift for odd and "
             "even n (spec/C11Core.tla; %d of %d obligations, reported, not relied on)")
# spec/C17Core.tla: cell centres as coordinates and the importer's reconstruction of the geometry
C17_OBLIGATIONS = _inits("C17_CoordinatesEvenlySpaced", "C17_ImportRecoversCell", "C17_MeanSpacingIsCell", "C17_ImportRecoversRegion", "C17_CoordinatesAreCentres")
C17_CLAIM = ("Apalache: the exported coordinates lo + (i + 1/2) c are evenly spaced and the importer's reconstruction (cell = mean spacing, "
             "corners = outer coordinates -+ half a cell) returns the exported region and cell for unbounded lo, c and n >= 2 "
             "(spec/C17Core.tla; %d of %d obligations, reported, not relied on)")
# spec/C16Core.tla: the rectilinear grid, its read-back and the x-fastest order of the cell data
C16_OBLIGATIONS = _inits("C16_CentreInsideItsGridCell", "C16_ReaderRecoversMesh", "C16_PositionInRange", "C16_PositionDeterminesCell")
C16_CLAIM = ("Apalache: the grid cell between the vertices i and i+1 contains the centre of mesh cell i, the reader's reconstruction returns "
             "the mesh, and the x-fastest position i + nx (j + ny k) is a bijection between cells and positions for meshes of ANY size "
             "(spec/C16Core.tla; %d of %d obligations, reported, not relied on)")
# spec/C09Core.tla: the OVF header's three descriptions of an axis, the reader's reconstruction, components adjacent in the data block
C09_OBLIGATIONS = _inits("C09_HeaderConsistent", "C09_ReaderRecoversMesh", "C09_PositionInRange", "C09_ComponentsAdjacent")
C09_CLAIM = ("Apalache: the OVF header of the specification is consistent in itself (xbase = xmin + xstepsize/2, xmax = xmin + xnodes xstepsize, "
             "node i = centre of cell i), the reader's n = (xmax - xmin) / xstepsize is exact, and the position w + nv q in the data block "
             "determines component and node number, for meshes of ANY size (spec/C09Core.tla; %d of %d obligations, reported, not relied on)")
C14_CLAIM = ("Apalache: a subregion inside the mesh region, on cell faces and a whole positive number of cells long stays so under translation, "
             "scaling by any non-zero integer factor about any point and the half turn (spec/C14Core.tla, inductive invariant for "
             "unbounded coordinates; %d of %d obligations, reported, not relied on)")
C01_CLAIM = ("Apalache: on the 1-d integer lattice (spec/C01Core.tla) index -> centre -> index is the identity, every point of the region "
             "lies in the cell of its index and in no other, for unbounded corners, cell sizes and counts (%d of %d obligations, "
             "reported, not relied on)")


def run_stage(ctx, module="C13Core.tla", timeout=300, obligations=None, claim=None):
    OBLIGATIONS = obligations or globals()["OBLIGATIONS"]
    exe = shutil.which("apalache-mc")
    info = {"tool": "apalache-mc", "module": module, "obligations": [], "discharged": 0}
    if exe is None:
        info["skipped"] = "apalache-mc not on PATH"
        ctx.notes["apalache"] = info
        return info
    for name, args in OBLIGATIONS:
        out_dir = os.path.join(ctx.scratch, "apalache_" + str(len(info["obligations"])))
        t0 = time.time()
        try:
            p = subprocess.run([exe, "check", *args, f"--out-dir={out_dir}", module], cwd=SPEC_DIR, capture_output=True, text=True,
                               timeout=timeout, env=dict(os.environ, JVM_ARGS="-Xmx3g"))
            text = p.stdout + p.stderr
            outcome = "NoError" if "The outcome is: NoError" in text else ("Error" if "The outcome is: Error" in text or "violat" in text.lower() else "unknown")
        except subprocess.TimeoutExpired:
            outcome, text = "timeout", ""
        info["obligations"].append({"obligation": name, "args": args, "outcome": outcome, "wall_s": round(time.time() - t0, 1)})
        if outcome == "NoError":
            info["discharged"] += 1
        elif outcome == "Error":
            ctx.violation(f"model:{module[:-4]}:{name}", f"Apalache found a counterexample to an invariant of spec/{module}",
                          {"output_tail": text.strip().split("\n")[-40:]})
        shutil.rmtree(out_dir, ignore_errors=True)
    ctx.notes["apalache"] = info
    if claim is not None:
        if info["discharged"] == len(OBLIGATIONS):
            ctx.assumptions.append(claim % (info["discharged"], len(OBLIGATIONS)))
        ctx.notes["apalache"] = info
        return info
    if info["discharged"] == len(OBLIGATIONS):
        ctx.assumptions.append("Apalache: the normal form of the 1-d integer core (spec/C13Core.tla) is an inductive invariant for unbounded "
                               "coordinates, vectors, factors and reference points (2 of 2 obligations, reported, not relied on)")
    return info


def tlaps_stage(ctx, module, needs, timeout=600):
    """run the TLA+ proof manager on spec/<module> (copied with the modules it extends into the scratch directory, where tlapm
    keeps its cache); reported in the evidence: proved / not-proved / skipped - never a verdict"""
    exe = shutil.which("tlapm")
    info = {"tool": "tlapm", "module": module}
    if exe is None:
        info["skipped"] = "tlapm not on PATH"
        ctx.notes["tlaps"] = info
        return info
    work = os.path.join(ctx.scratch, "tlaps_" + module[:-4])
    os.makedirs(work, exist_ok=True)
    for f in (module, *needs):
        shutil.copy(os.path.join(SPEC_DIR, f), work)
    t0 = time.time()
    try:
        p = subprocess.run([exe, "--threads", "4", module], cwd=work, capture_output=True, text=True, timeout=timeout)
        text = p.stdout + p.stderr
    except subprocess.TimeoutExpired:
        text = ""
        info["outcome"] = "timeout"
    info["wall_s"] = round(time.time() - t0, 1)
    import re
    m = re.search(r"All (\d+) obligations? proved", text)
    f = re.search(r"(\d+)/(\d+) obligations? failed", text)
    if m:
        info.update(outcome="proved", obligations=int(m.group(1)))
        ctx.assumptions.append(f"TLAPS: spec/{module} - {m.group(1)} proof obligations checked by the proof manager (reported, not relied on)")
    elif f:
        # a back end that runs out of time on a loaded machine also "fails" an obligation: unlike Apalache's counterexample this
        # is not a refutation, so it is a note (Apalache decides the same two facts)
        info.update(outcome="not-proved", failed=int(f.group(1)), obligations=int(f.group(2)), output_tail=text.strip().split("\n")[-8:])
    else:
        info.setdefault("outcome", "unknown")
        info["output_tail"] = text.strip().split("\n")[-5:]
    shutil.rmtree(work, ignore_errors=True)
    ctx.notes["tlaps"] = info
    return info
