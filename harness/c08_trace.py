"""Channel T for C08: seeded random programs over the whole Field API that keeps or maps cells, the
validity setter and in-place mask writes, executed on the real library and logged for spec/C08Trace.tla.

Observed registers carry `vo`, the identity of the observed validity array: a register gets the vo of an
earlier register iff its mask `is` that register's mask or shares memory with it (the heap references of the
model).  Meshes of results are projected to lattice records (integers) from the library mesh.
"""
import random
from fractions import Fraction

import numpy as np

from . import c03_machine as mc
from . import c03_trace as t3
from . import core, embed

C08_OPS = [("neg", 2), ("pos", 2), ("abs", 2), ("real", 1), ("imag", 1), ("conj", 1), ("cabs", 1), ("phase", 1), ("norm", 2), ("orientation", 2),
           ("add", 4), ("sub", 2), ("mul", 4), ("div", 2), ("pow", 1), ("dot", 2), ("cross", 2), ("angle", 1), ("lshift", 3), ("comp", 3),
           ("restack", 1), ("ufunc1", 2), ("ufunc2", 3), ("diff", 3), ("grad", 1), ("divg", 1), ("curl", 1), ("laplace", 1),
           ("sel", 3), ("selrange", 3), ("getitem", 3), ("pad", 5), ("resample", 3), ("rotate90", 5), ("h5", 2), ("vtk", 2),
           ("set_valid", 6), ("mutate_valid", 8)]
PAD_MODES = ["constant", "wrap", "edge", "symmetric", "reflect"]


class TraceMachine8(t3.TraceMachine):
    def mesh_record(self, mesh):
        """lattice record of a library mesh under the (dyadic) embedding; -999 marks a coordinate off the lattice"""
        emb = self.emb
        nd = mesh.region.ndim
        lo, c = [], []
        for d in range(nd):
            q = emb.q_of(mesh.region.pmin[d])
            cl = emb.len_q(mesh.cell[d])
            rq, rc = round(q), round(cl)
            lo.append(int(rq) if abs(q - rq) < Fraction(1, 10**6) else -999)
            c.append(int(rc) if abs(cl - rc) < Fraction(1, 10**6) and rc > 0 else 999)
        return {"lo": lo, "c": c, "n": [int(v) for v in mesh.n], "dims": list(mesh.region.dims)}

    def observe_all(self):
        out = []
        for k, o in enumerate(self.objs):
            if isinstance(o, self.df.Field):
                r = self.observe_keep_vo(o, k)
            else:
                r = self.mregs[k]
            out.append(r)
        return out

    def observe_keep_vo(self, o, k):
        """re-observe register k; its vo: that of the first register whose mask is / shares memory with it, else its own"""
        r = self.observe(o)
        vo = None
        for j, p in enumerate(self.objs):
            if isinstance(p, self.df.Field) and (p.valid is o.valid or np.shares_memory(p.valid, o.valid)):
                vo = j + 1
                break
        r["vo"] = vo if vo is not None else k + 1
        return r

    def vo_of(self, f):
        for k, o in enumerate(self.objs):
            if isinstance(o, self.df.Field) and (o.valid is f.valid or np.shares_memory(o.valid, f.valid)):
                return k + 1
        return len(self.objs) + 1


def traceable_field(rnd, m, nv, cplx=False):
    """values whose magnitudes are pairwise different and non-zero: the source cell of every datum is recognisable"""
    ncell = int(np.prod(m["n"]))
    mags = list(range(1, ncell * nv + 1))
    rnd.shuffle(mags)
    val = [[[mags[k * nv + c] * rnd.choice([-1, 1]), 0, 1] for c in range(nv)] for k in range(ncell)]
    r = t3.rand_field(rnd, m, nv=nv, cplx=False)
    r["val"] = val
    r["dt"] = "float"
    return r


def gen_instruction(rnd, tm):
    names = [o for o, w in C08_OPS for _ in range(w)]
    F = t3.field_idx(tm)
    for _ in range(60):
        op = rnd.choice(names)
        i = t3.pick(rnd, F)
        r = tm.mregs[i - 1]
        n = r["m"]["n"]
        nd = len(n)
        if op == "diff":
            return (op, i, 0, [rnd.randint(1, nd), rnd.choice([1, 2]), rnd.choice([1, 1, 0])])   # third: restrict2valid
        if op in ("grad",):
            if r["nv"] != 1:
                continue
            return (op, i, 0, [])
        if op in ("divg", "curl"):
            if r["nv"] != nd or nd < 2 or len(r["map"]) != r["nv"] or (op == "curl" and nd != 3):
                continue
            return (op, i, 0, [])
        if op == "laplace":
            return (op, i, 0, [])
        if op == "sel":
            if nd < 2:
                continue
            d = rnd.randint(1, nd)
            return (op, i, 0, [d, rnd.randint(0, n[d - 1] - 1)])
        if op == "selrange":
            d = rnd.randint(1, nd)
            j1 = rnd.randint(0, n[d - 1] - 1)
            return (op, i, 0, [d, j1, rnd.randint(j1, n[d - 1] - 1)])
        if op == "getitem":
            a = [rnd.randint(0, n[d] - 1) for d in range(nd)]
            b = [rnd.randint(a[d], n[d] - 1) for d in range(nd)]
            return (op, i, 0, [a, b])
        if op == "pad":
            d = rnd.randint(1, nd)
            mode = rnd.choice(PAD_MODES)
            cap = n[d - 1] - (1 if mode == "reflect" else 0)
            l, rr = rnd.randint(0, min(2, cap)), rnd.randint(0, min(2, cap))
            if l + rr == 0 or int(np.prod(n)) // n[d - 1] * (n[d - 1] + l + rr) > 40:
                continue
            return (op, i, 0, [d, l, rr, mode])
        if op == "resample":
            n2 = []
            for d in range(nd):
                f = rnd.choice([1, 1, 2, 3])
                v = n[d] * f
                if rnd.random() < 0.2 and n[d] % 3 == 0:
                    v = n[d] // 3
                n2.append(v)
            if int(np.prod(n2)) > 40 or any((r["m"]["c"][d] * n[d]) % n2[d] for d in range(nd)):
                continue
            return (op, i, 0, n2)
        if op == "rotate90":
            if nd < 2:
                continue
            a, b = rnd.sample(range(1, nd + 1), 2)
            if r["nv"] > 1 and not (len(r["map"]) == r["nv"] and r["m"]["dims"][a - 1] in r["map"] and r["m"]["dims"][b - 1] in r["map"]):
                continue
            return (op, i, 0, [a, b, rnd.randint(-5, 5)])
        if op == "h5":
            return (op, i, 0, [])
        if op == "vtk":
            if nd != 3:
                continue
            return (op, i, 0, [])
        if op == "set_valid":
            ncell = int(np.prod(n))
            kind = rnd.choice(["array", "array", "intarray", "func", "const", "none", "norm", "norm"])
            if kind in ("array", "intarray", "func"):
                if ncell > 24:
                    continue
                return (op, i, 0, [kind, rnd.getrandbits(ncell)])
            if kind == "const":
                return (op, i, 0, [kind, rnd.randint(0, 1)])
            return (op, i, 0, [kind, 0])
        if op == "mutate_valid":
            ncell = int(np.prod(n))
            return (op, i, 0, rnd.randint(1, ncell))
        ins = t3.gen_instruction(rnd, tm, [(op, 1)])
        if ins[0] == op:
            return ins
    return ("neg", F[0], 0, [])


def norm_classes(f):
    out = []
    with np.errstate(all="ignore"):
        nrm = np.linalg.norm(mc.flat_cells(f.array), axis=-1)
    for v in nrm:
        # the property's threshold is the absolute 1e-8 on the LENGTH; only a hair around it is left unjudged (rounding of the norm)
        out.append("zero" if v == 0 else ("tiny" if v < 0.999e-8 else ("big" if v > 1.001e-8 else "band")))
    return out


def run_event(tm, ins):
    df = tm.df
    op, i, j, x = ins
    opc = mc.op_class(ins, tm.objs)
    ev = {"ins": [op, i, j, x], "opc": opc, "ch": [], "cond": {}, "full": op in ("set_valid", "mutate_valid"), "cls": []}
    before = {k: np.array(o.valid, copy=True) for k, o in enumerate(tm.objs) if isinstance(o, df.Field)}
    if op == "set_valid" and x[0] == "norm":
        ev["cls"] = norm_classes(tm.objs[i - 1])
    try:
        F = tm.execute(ins, tm.mregs)
        ok = ev["full"] or isinstance(F, df.Field)
        if not ok:
            ev["exc"] = f"returned {type(F).__name__}"
    except mc.Rejected as ex:
        F, ok = None, False
        ev["exc"] = type(ex.exc).__name__
    ev["ok"] = ok
    ch = tm.changed()
    ev["ch"] = sorted(ch)
    if ok and not ev["full"]:
        ev["reg"] = tm.observe(F)
        same, shared = tm.aliases(F)
        if same:
            ev["cond"]["C08_OwnMask-new"] = "same-object"
        elif shared:
            ev["cond"]["C08_OwnMask-new"] = "view"
        dt = str(F.valid.dtype)
        ev["cond"]["C08_BoolOfMeshShape"] = f"dtype-{dt}" if dt != "bool" else "shape"
        # class of a wrong mask, for the key only
        ops = [("left", mc.flat_mask(before[k - 1]).astype(bool)) for k in (i, j) if k and (k - 1) in before]
        got = mc.flat_mask(F.valid).astype(bool)
        if got.all() and any(not m.all() for _, m in ops if m.shape == got.shape):
            ev["cond"]["C08_Propagation"] = "all-true"
        tm.push(F)
        tm.mregs.append(ev["reg"])
    elif ok:
        for k in ch:
            tm.resnap(k - 1)
        tm.mregs = tm.observe_all()
        ev["regs"] = [dict(r) for r in tm.mregs]
        # the alias was made by the call that created the youngest of the registers involved; its relation to the others names the class
        involved = sorted(set([k for k in ch if k != i] + [i]))
        y = involved[-1]
        how = "same-object" if any(tm.objs[z - 1].valid is tm.objs[y - 1].valid for z in involved[:-1]) else "view"
        ev["creator"] = tm.creator.get(y, "initial")
        if op == "set_valid":
            dt = str(tm.objs[i - 1].valid.dtype)
            ev["cond"]["C08_BoolOfMeshShape"] = f"dtype-{dt}" if dt != "bool" else "shape"
            ev["cond"]["C08_SetValidKeepsValues"] = "+".join(p for p in ch.get(i, []) if p != "validity") or "values"
            ev["cond"]["C08_OwnMask-setter"] = how
        if op == "mutate_valid":
            ev["cond"]["C08_OwnMask-write"] = how
    elif ch:  # a rejected call must not change anything either; adopt what is there
        for k in ch:
            tm.resnap(k - 1)
    if ok and not ev["full"]:
        tm.creator[len(tm.objs)] = opc
    return ev


def gen_trace(df, rnd, tid, scratch):
    m = t3.rand_mesh(rnd, maxcells=18, ndims=(1, 2, 2, 3, 3, 3, 4))
    tm = TraceMachine8(df, embed.DYADIC[0], scratch, [m])
    tm.creator = {}
    nd = len(m["n"])
    nv0 = rnd.choice([1, 2, 3, nd, nd])
    regs = [traceable_field(rnd, m, nv0), traceable_field(rnd, m, rnd.choice([1, nv0])), t3.rand_field(rnd, m, nv=rnd.choice([1, nv0]))]
    regs.append(t3.rand_num(rnd))
    regs.append(t3.rand_vec(rnd, max(nv0, 2)))
    if rnd.random() < 0.3:
        regs.append(t3.rand_arr(rnd, m, rnd.choice([1, nv0])))
    for r in regs:
        tm.add_initial(r, rnd)
    if rnd.random() < 0.5:
        # a field with exact zeros, tiny (1e-9 scale) and ordinary values, for valid='norm'
        ncell = int(np.prod(m["n"]))
        nv = rnd.choice([1, 3])
        arr = np.zeros(tuple(m["n"]) + (nv,))
        flat = arr.reshape((-1, nv))
        for k in range(ncell):
            cls = rnd.choice(["zero", "tiny", "big", "big", "edge"])
            if cls == "tiny":
                flat[k] = [rnd.choice([-2, -1, 1, 2]) * 1e-9 for _ in range(nv)]
            elif cls == "edge":
                # every component below the threshold, the length above it for three components (0.8e-8 * sqrt(3) = 1.39e-8),
                # below it for one (seeded change C08-21 applied the threshold component by component)
                flat[k] = [rnd.choice([-1, 1]) * 0.8e-8 for _ in range(nv)]
            elif cls == "big":
                flat[k] = [rnd.choice([-3, -1, 1, 2]) * rnd.choice([1.0, 1e-6, 1e3]) for _ in range(nv)]
        f = df.Field(tm.mesh_of(m), nvdim=nv, value=flat.reshape(tuple(m["n"]) + (nv,)), valid=True)
        tm.push(f)
        tm.mregs.append(tm.observe(f))
    init_regs = [dict(r) for r in tm.mregs]
    events = [run_event(tm, gen_instruction(rnd, tm)) for _ in range(rnd.randint(5, 9))]
    return {"id": tid, "mesh": m, "regs": init_regs, "ev": events}


def strip(traces):
    out = []
    for t in traces:
        evs = []
        for e in t["ev"]:
            d = {"ins": e["ins"], "ok": e["ok"], "ch": e["ch"], "full": e["full"], "cls": e["cls"]}
            if e["ok"]:
                if e["full"]:
                    d["regs"] = e["regs"]
                else:
                    d["reg"] = e["reg"]
            evs.append(d)
        out.append({"id": t["id"], "regs": t["regs"], "ev": evs})
    return out


def run_traces(ctx, df, ntraces, batch=300):
    rnd = random.Random(ctx.seed * 15485863 + 8)
    traces = [gen_trace(df, rnd, t + 1, ctx.scratch) for t in range(ntraces)]
    byid = {t["id"]: t for t in traces}
    verdicts = []
    for b in range(0, len(traces), batch):
        part = traces[b:b + batch]
        r, vs, _ = ctx.trace_check("C08Trace", "C08Trace.cfg", strip(part), timeout=900)
        expect = sum(len(t["ev"]) + 2 for t in part)
        if r.distinct != expect:
            raise core._tlc.MachineryError(f"C08Trace consumed {r.distinct} states, expected {expect}")
        verdicts += vs
    seen = set()
    for v in verdicts:
        _, tid, l, clause = v
        if (tid, l, clause) in seen:
            continue
        seen.add((tid, l, clause))
        t = byid[tid]
        e = t["ev"][l - 1]
        kclause = clause.split("-")[0]
        cond = e["cond"].get(clause) or e["cond"].get(kclause) or (clause.split("-", 1)[1] if "-" in clause else "other")
        opc = e.get("creator", e["opc"]) if clause in ("C08_OwnMask-write", "C08_OwnMask-setter") else e["opc"]
        ctx.violation(f"{kclause}/{opc}/{cond}", f"recorded execution rejected by C08Trace: clause {clause}",
                      {"mesh": t["mesh"], "registers": t3.summarize(t["regs"]), "event": {k: e[k] for k in ("ins", "ok", "opc", "cond", "ch") if k in e},
                       "program": [x["ins"] for x in t["ev"][:l]]})
    ctx.traces += len(traces)
    nev = sum(len(t["ev"]) for t in traces)
    ctx.evaluations += nev
    ctx.notes["T_events"] = ctx.notes.get("T_events", 0) + nev
    ctx.notes["T_events_rejected"] = ctx.notes.get("T_events_rejected", 0) + sum(1 for t in traces for e in t["ev"] if not e["ok"])
    byop = {}
    for t in traces:
        for e in t["ev"]:
            if e["ok"]:
                byop[e["ins"][0]] = byop.get(e["ins"][0], 0) + 1
            ctx.nontriv("T", t["id"], str(e["ins"]), e["ok"])
    ctx.notes["T_events_by_op"] = byop
    ctx.sample({"channel": "T", "trace": {"id": traces[0]["id"], "mesh": traces[0]["mesh"], "registers": t3.summarize(traces[0]["regs"]),
                                          "events": [{k: e[k] for k in ("ins", "ok", "opc")} for e in traces[0]["ev"]]}})
    return traces
