"""Independent OVF 1.0 / 2.0 reader and writer (the *foreign party* of check C09).

Written from the OVF format description (OOMMF user guide, "Vector field format"):

* a file is text lines `# key: value`; keys are case-insensitive and blanks inside them are ignored;
  lines starting with `##` are comments; the first line names the version
  (`# OOMMF: rectangular mesh v1.0` / `# OOMMF OVF 2.0`);
* `# Begin: Header` ... `# End: Header` holds title, meshtype (rectangular), meshunit,
  x/y/zbase (centre of the first cell), x/y/zstepsize, x/y/znodes, x/y/zmin, x/y/zmax and
  - OVF 2.0: valuedim, valuelabels (valuedim entries, `{..}` groups words), valueunits
    (valuedim entries, one entry, or none),
  - OVF 1.0: valueunit, valuemultiplier, ValueRangeMinMag, ValueRangeMaxMag (always 3 components);
* `# Begin: Data Text|Binary 4|Binary 8`, the data, `# End: Data ...`, `# End: Segment`;
  binary data starts with the check value 1234567.0 (4 byte) / 123456789012345.0 (8 byte) and ends
  with a newline; OVF 2.0 binary is little-endian IEEE, OVF 1.0 binary is big-endian;
* the node with index (ix, iy, iz) is record number ix + xnodes*(iy + ynodes*iz): x runs fastest,
  the valuedim components of a node are adjacent.

Shares no code with discretisedfield/io/ovf.py and does not import discretisedfield.
"""
import re
import struct

CHECK = {4: 1234567.0, 8: 123456789012345.0}
GEOM = [k + s for s in ("base", "stepsize", "nodes", "min", "max") for k in "xyz"]
REQUIRED = {2: ["title", "meshtype", "meshunit"] + GEOM + ["valuedim", "valuelabels", "valueunits"],
            1: ["title", "meshtype", "meshunit"] + GEOM + ["valueunit", "valuemultiplier",
                                                            "valuerangeminmag", "valuerangemaxmag"]}


class OvfFormatError(Exception):
    pass


def _words(text):
    """Tcl-like list: words separated by blanks, {..} keeps blanks"""
    return [w[1:-1] if w.startswith("{") else w for w in re.findall(r"\{[^}]*\}|\S+", text)]


def parse(raw, strict=True):
    """Decode the bytes of an OVF file.  Returns a dict:
    version, header (normalised key -> text), repr ('txt'|'bin4'|'bin8'), check (float|None),
    values (list of floats in file order; float32 values widened exactly), valuedim, labels, units,
    offsets {check, data, data_end, end} (byte positions; binary only), problems (list of str).
    With strict=True any departure from the format raises OvfFormatError."""
    problems = []
    pos = 0
    lines = []  # (offset, text)
    begin_data = None
    while pos < len(raw):
        nl = raw.find(b"\n", pos)
        if nl < 0:
            problems.append("header not terminated")
            break
        line = raw[pos:nl].decode("utf-8", errors="replace").rstrip("\r")
        lines.append(line)
        pos = nl + 1
        if re.match(r"#\s*begin\s*:\s*data\b", line, re.I):
            begin_data = line
            break
    if not lines:
        raise OvfFormatError("empty file")
    first = lines[0].strip()
    if re.fullmatch(r"#\s*OOMMF\s+OVF\s+2\.0", first, re.I):
        version = 2
    elif re.fullmatch(r"#\s*OOMMF\s*:\s*rectangular\s+mesh\s+v1\.0", first, re.I):
        version = 1
    else:
        raise OvfFormatError(f"unknown first line {first!r}")
    header, in_header, segs = {}, False, []
    for line in lines[1:]:
        if line.startswith("##") or line.strip() in ("#", ""):
            continue
        if not line.startswith("#") or ":" not in line:
            problems.append(f"not a key line: {line!r}")
            continue
        key, val = line[1:].split(":", 1)
        key = re.sub(r"\s+", "", key).lower()
        val = val.strip()
        if key in ("begin", "end"):
            what = val.lower().split()
            if what[:1] == ["header"]:
                in_header = key == "begin"
            segs.append((key, " ".join(what)))
        elif key == "segmentcount":
            if val != "1":
                problems.append("segment count is not 1")
        elif in_header:
            if key in header and key != "desc":
                problems.append(f"duplicate key {key}")
            header[key] = val
        else:
            problems.append(f"key {key} outside the header")
    if begin_data is None:
        raise OvfFormatError("no '# Begin: Data' line")
    if [s for s in segs if s[1] in ("segment", "header")] != [("begin", "segment"), ("begin", "header"), ("end", "header")]:
        problems.append(f"segment/header block structure {segs}")
    for k in REQUIRED[version]:
        if k not in header:
            problems.append(f"missing header key {k}")
    mode = begin_data.split(":", 1)[1].lower().split()  # ['data', 'binary', '8']
    if mode[1:] == ["text"]:
        rep, nbytes = "txt", 0
    elif len(mode) == 3 and mode[1] == "binary" and mode[2] in ("4", "8"):
        nbytes = int(mode[2])
        rep = f"bin{nbytes}"
    else:
        raise OvfFormatError(f"unknown data mode {begin_data!r}")
    try:
        nodes = [int(header[k + "nodes"]) for k in "xyz"]
        valuedim = int(header["valuedim"]) if version == 2 else 3
        geom = {k: float(header[k]) for k in GEOM if k in header and not k.endswith("nodes")}
    except (KeyError, ValueError) as ex:
        raise OvfFormatError(f"unusable header: {ex!r}")
    count = nodes[0] * nodes[1] * nodes[2] * valuedim
    out = dict(version=version, header=header, repr=rep, nodes=nodes, valuedim=valuedim, geom=geom, check=None,
               offsets={}, problems=problems)
    end_line = ("# end: data " + " ".join(mode[1:])).lower()
    if rep == "txt":
        rest = raw[pos:].decode("utf-8", errors="replace").split("\n")
        vals, tail = [], []
        for j, line in enumerate(rest):
            if line.lstrip().startswith("#"):
                tail = [t.strip() for t in rest[j:] if t.strip()]
                break
            vals += [float(w) for w in line.split()]
        out["values"] = vals
    else:
        fmt = ("<" if version == 2 else ">") + ("d" if nbytes == 8 else "f")
        out["offsets"] = dict(check=pos, data=pos + nbytes, data_end=pos + nbytes + nbytes * count)
        if len(raw) < pos + nbytes:
            raise OvfFormatError("check value missing")
        out["check"] = struct.unpack(fmt, raw[pos:pos + nbytes])[0]
        if out["check"] != CHECK[nbytes]:
            problems.append(f"check value {out['check']!r}")
        body = raw[pos + nbytes:pos + nbytes + nbytes * count]
        k = len(body) // nbytes
        out["values"] = list(struct.unpack(fmt[0] + str(k) + fmt[1], body[:k * nbytes]))
        tail = [t.strip() for t in raw[pos + nbytes + nbytes * count:].decode("utf-8", errors="replace").split("\n")]
        if tail[:1] != [""]:
            problems.append("no newline after the binary data block")
        tail = [t for t in tail if t]
    if len(out["values"]) != count:
        problems.append(f"{len(out['values'])} data values, header announces {count}")
    if [re.sub(r"\s+", " ", t).lower() for t in tail] != [end_line, "# end: segment"]:
        problems.append(f"footer {tail!r}")
    out["labels"] = _words(header.get("valuelabels", "")) if version == 2 else None
    out["units"] = _words(header.get("valueunits", "")) if version == 2 else _words(header.get("valueunit", ""))
    if version == 2 and "valuelabels" in header and len(out["labels"]) != valuedim:
        problems.append("valuelabels does not have valuedim entries")
    if version == 2 and "valueunits" in header and len(out["units"]) not in (0, 1, valuedim):
        problems.append("valueunits does not have 0, 1 or valuedim entries")
    if header.get("meshtype", "rectangular").lower() != "rectangular":
        problems.append("meshtype is not rectangular")
    if strict and problems:
        raise OvfFormatError("; ".join(problems))
    return out


def _num(x):
    return "%.17g" % x


def write(path, *, version, rep, meshunit, base, step, nodes, pmin, pmax, valuedim, values, labels=None, units=None,
          title="verif", lower_data_line=False, minimal=False, txt_style="single"):
    """Write an OVF file.  `values` is the flat list of floats in file order (x fastest, components
    adjacent).  labels/units: lists of words (None: the line is left out; OVF 1.0: units[0] is valueunit)."""
    assert len(values) == nodes[0] * nodes[1] * nodes[2] * valuedim
    assert version == 2 or valuedim == 3
    L = ["# OOMMF OVF 2.0" if version == 2 else "# OOMMF: rectangular mesh v1.0", "# Segment count: 1", "# Begin: Segment",
         "# Begin: Header", f"# Title: {title}", "# Desc: written by: the verification harness", "# meshtype: rectangular",
         f"# meshunit: {meshunit}"]
    groups = [("min", pmin), ("max", pmax)] if minimal else [("base", base), ("stepsize", step), ("min", pmin), ("max", pmax)]
    if minimal:
        groups += [("stepsize", step)]
    for name, vec in groups:
        L += [f"# {k}{name}: {_num(v)}" for k, v in zip("xyz", vec)]
    L += [f"# {k}nodes: {v}" for k, v in zip("xyz", nodes)]
    word = lambda w: "{" + w + "}" if (" " in w or w == "") else w
    if version == 2:
        L.append(f"# valuedim: {valuedim}")
        if labels is not None and not minimal:
            L.append("# valuelabels: " + " ".join(word(w) for w in labels))
        if units is not None and not minimal:
            L.append(("# valueunits: " + " ".join(word(w) for w in units)).rstrip())
    else:
        mags = [sum(v * v for v in values[i:i + 3]) ** 0.5 for i in range(0, len(values), 3)] if all(
            abs(v) < 1e150 for v in values) else [0.0, 0.0]
        L += [f"# valueunit: {word(units[0]) if units else '1'}", "# valuemultiplier: 1",
              f"# ValueRangeMinMag: {_num(min(mags))}", f"# ValueRangeMaxMag: {_num(max(mags))}"]
    L.append("# End: Header")
    mode = {"txt": "Text", "bin4": "Binary 4", "bin8": "Binary 8"}[rep]
    L.append(("# Begin: data " + mode.lower()) if lower_data_line else ("# Begin: Data " + mode))
    head = ("\n".join(L) + "\n").encode("utf-8")
    offsets = {}
    if rep == "txt":
        rows = [values[i:i + valuedim] for i in range(0, len(values), valuedim)]
        if txt_style == "single":
            body = "".join(" ".join(repr(float(v)) for v in r) + "\n" for r in rows)
        elif txt_style == "aligned":
            body = "".join("  " + "  ".join("%25.17g" % v for v in r) + "\n" for r in rows)
        else:  # trailing blank as written by mumax3
            body = "".join("".join(repr(float(v)) + " " for v in r) + "\n" for r in rows)
        body = body.encode("utf-8")
    else:
        nb = int(rep[3])
        fmt = ("<" if version == 2 else ">") + ("d" if nb == 8 else "f")
        offsets = dict(check=len(head), data=len(head) + nb, data_end=len(head) + nb + nb * len(values))
        body = struct.pack(fmt, CHECK[nb]) + b"".join(_pack(fmt, v) for v in values) + b"\n"
    foot = (f"# End: {'data ' + mode.lower() if lower_data_line else 'Data ' + mode}\n# End: Segment\n").encode("utf-8")
    with open(path, "wb") as fh:
        fh.write(head + body + foot)
    return offsets


def _pack(fmt, v):
    try:
        return struct.pack(fmt, v)
    except OverflowError:  # float32 rounding of a value beyond the float32 range is +-inf
        return struct.pack(fmt, float("inf") if v > 0 else float("-inf"))
