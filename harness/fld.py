"""Adapters between the specification's flat arrays (spec/Cells.tla) and library fields."""
import numpy as np


def unflatten(flat, n, dtype=None):
    """flat sequence (one component tuple per cell, first dimension fastest) -> array (*n, nvdim)"""
    F = np.array(flat, dtype=dtype)
    if F.ndim == 1:
        F = F[:, None]
    n = tuple(int(v) for v in n)
    return np.stack([F[:, c].reshape(n, order="F") for c in range(F.shape[1])], axis=-1)


def unflatten_mask(flat, n):
    n = tuple(int(v) for v in n)
    return np.array(flat, dtype=bool).reshape(n, order="F")


def flatten(arr):
    """array (*n, nvdim) -> list of component lists in iteration order"""
    arr = np.asarray(arr)
    nv = arr.shape[-1]
    return arr.reshape((-1, nv), order="F")


def flatten_mask(valid):
    return np.asarray(valid).reshape(-1, order="F")


def to_ints(a, tol=0.0):
    """project a float array to integers; returns (int array, all_exact?)"""
    a = np.asarray(a)
    if np.iscomplexobj(a):
        re, ok1 = to_ints(a.real, tol)
        im, ok2 = to_ints(a.imag, tol)
        return re + 1j * im, ok1 and ok2
    r = np.rint(a)
    with np.errstate(invalid="ignore"):
        ok = bool(np.all(np.abs(a - r) <= tol)) and bool(np.all(np.isfinite(a)))
    return r.astype(np.int64) if ok else r, ok


def scramble(mapping, salt):
    """the same vdim_mapping with its keys written in the reverse order for every second `salt`: a mapping is a
    dictionary, the order of its keys must not matter (seeded changes C05-2, C12-1, C20-1 all relied on it)"""
    if mapping and len(mapping) > 1 and int(salt) % 2 == 0:
        return dict(reversed(list(mapping.items())))
    return mapping
