"""Adapters between the specification's flat arrays (spec/Cells.tla) and library fields."""
import numpy as np


def unflatten(flat, n, dtype=None):
    """flat sequence (one component tuple per cell, first dimension fastest) -> array (*n, nvdim)"""
    F = np.array(flat, dtype=dtype)
    if F.ndim == 1:
        F = F[:, None]
    n = tuple(int(v) for v in n)
    return np.stack([F[:, c].reshape(n, order="F") for c in range(F.shape[1])], axis=-1)


def unflatten_mask(flat, n):
    n = tuple(int(v) for v in n)
    return np.array(flat, dtype=bool).reshape(n, order="F")


def flatten(arr):
    """array (*n, nvdim) -> list of component lists in iteration order"""
    arr = np.asarray(arr)
    nv = arr.shape[-1]
    return arr.reshape((-1, nv), order="F")


def flatten_mask(valid):
    return np.asarray(valid).reshape(-1, order="F")


def to_ints(a, tol=0.0):
    """project a float array to integers; returns (int array, all_exact?)"""
    a = np.asarray(a)
    if np.iscomplexobj(a):
        re, ok1 = to_ints(a.real, tol)
        im, ok2 = to_ints(a.imag, tol)
        return re + 1j * im, ok1 and ok2
    r = np.rint(a)
    with np.errstate(invalid="ignore"):
        ok = bool(np.all(np.abs(a - r) <= tol)) and bool(np.all(np.isfinite(a)))
    return r.astype(np.int64) if ok else r, ok


def scramble(mapping, salt):
    """the same vdim_mapping with its keys written in the reverse order for every second `salt`: a mapping is a
    dictionary, the order of its keys must not matter (seeded changes C05-2, C12-1, C20-1 all relied on it)"""
    if mapping and len(mapping) > 1 and int(salt) % 2 == 0:
        return dict(reversed(list(mapping.items())))
    return mapping


def labelled_field(df, mesh, nvdim, value, vdims, vdim_mapping, salt, **kw):
    """Field(mesh, nvdim, value, vdims, vdim_mapping, **kw) - for every third `salt` built with provisional labels whose
    mapping is written in another key order, the final labels being assigned afterwards (`f.vdims = ...`): the mapping
    must follow the components by NAME.  (Seeded change C12-11 rebuilt the mapping by position in the vdims setter; every
    operation that pairs components with axes - rotate90, curl, plots, arbitrary rotations - is wrong afterwards.)"""
    if vdims and nvdim > 1 and vdim_mapping and len(vdim_mapping) == nvdim and int(salt) % 3 in (0, 1) \
            and all(v in vdim_mapping for v in vdims):
        # provisional labels: fresh names, or (salt % 3 == 1) the final labels rotated by one - then every label assigned
        # afterwards is already a key of the old mapping and must still take the axis of its POSITION (seeded change C05-31)
        tmp = [f"t{c}" for c in range(nvdim)] if int(salt) % 3 == 0 else [str(vdims[(c + 1) % nvdim]) for c in range(nvdim)]
        m0 = dict(reversed([(tmp[c], vdim_mapping[vdims[c]]) for c in range(nvdim)]))
        f = df.Field(mesh, nvdim=nvdim, value=value, vdims=tmp, vdim_mapping=m0, **kw)
        f.vdims = list(vdims)
        return f
    return df.Field(mesh, nvdim=nvdim, value=value, vdims=vdims, vdim_mapping=vdim_mapping, **kw)


def disown(regions):
    """The Region objects a caller hands to Mesh(subregions=...) / mesh.subregions = ... stay the caller's: here the
    caller moves them away afterwards (in place).  A mesh that kept the objects instead of its own copies now holds
    subregions outside its region (seeded change C13-12 made the setter reuse the objects it is given)."""
    for r in (regions or {}).values():
        try:
            r.translate(tuple(3.0 * float(e) + 1.0 for e in r.edges), inplace=True)
        except Exception:  # the harness's own throw-away object: nothing to learn from a refusal here
            pass
    return regions


def rewrite_in_place(f):
    """The values of a field ARRIVE through in-place writes into `field.array`, with every derived quantity read while the
    array holds other values: write zeros in place, read norm / orientation / mean / validity-as-norm candidates, write the
    values back in place.  The field is exactly what it was; anything the library memoised in between is stale (seeded
    changes C15-2, C08-11, C03-11 cached the norm and dropped the cache only in the `array` setter)."""
    import numpy as np
    try:
        arr = f.array
        keep = arr.copy()
        arr[...] = 0
        try:
            f.norm, f.orientation, f.mean()
        except Exception:  # noqa: BLE001  (reads only; nothing is judged here)
            pass
        arr[...] = keep
    except Exception:  # noqa: BLE001  a read-only array: leave the field alone
        pass
    return f


def afterlife(f, salt=0):
    """Fields DERIVED from f are used the way a user uses them - new labels, values written into their arrays, another
    validity - before f itself is examined.  None of it may reach f: a result is a field of its own.  (Seeded changes C03-12
    / C05-11: the vdims setter renamed the mapping dictionary in place, and every derived field holds the operand's
    dictionary; C03-13: .real returned the operand itself.)  `+f` is not used (documented to return f itself)."""
    if int(salt) % 3:
        return f
    derived = []
    for make in (lambda: -f, lambda: f.norm, lambda: getattr(f, f.vdims[0]) if (f.vdims and f.nvdim > 1) else abs(f) if f.nvdim == 1 else -f,
                 lambda: f.conjugate, lambda: f * 2):
        try:
            derived.append(make())
        except Exception:  # noqa: BLE001  (whether an operation exists for this field is not this helper's business)
            pass
    for g in derived:
        if g is f:
            continue
        try:
            if g.nvdim > 1 and g.vdims:
                g.vdims = [f"d{c}" for c in range(g.nvdim)]
            g.array[...] = 0
            g.valid = False
        except Exception:  # noqa: BLE001
            pass
    return f


def lived(f, salt=0):
    """a field as the checks should meet it: not fresh from the constructor but with a past - derived fields were made from it
    and used (afterlife), its values were written in place with reads in between (rewrite_in_place).  Which of the two
    happens is a deterministic function of `salt`; the field is exactly what it was."""
    k = int(salt) % 5
    if k == 1:
        afterlife(f, 0)
    elif k == 2:
        rewrite_in_place(f)
    elif k == 3:
        afterlife(f, 0)
        rewrite_in_place(f)
    elif k == 4:
        away_and_back(f)
    return f


def away_and_back(f):
    """The mesh of the field is translated in place, everything that can be derived from the field is READ there (exports,
    norm, cell centres, integrals), and the mesh is translated back.  Done only when the floats return bit for bit (predicted
    with the same additions), so the field is exactly what it was; whatever the library memoised at the far position is
    stale now.  (Seeded change C17-12 memoised the exported DataArray and dropped it only in the `array` / `vdims` setters.)"""
    import numpy as np
    m = f.mesh
    regs = [m.region] + list(m.subregions.values())
    if any(r.pmin.dtype.kind != "f" for r in regs):
        return f
    v = tuple(4.0 * float(e) for e in m.region.edges)
    for r in regs:
        for p in (r.pmin, r.pmax):
            if not np.array_equal(np.add(np.add(p, v), tuple(-x for x in v)), p):
                return f
    try:
        m.translate(v, inplace=True)
    except Exception:  # noqa: BLE001  (a refusal is C13's business)
        return f
    for read in (lambda: f.to_xarray(), lambda: f.norm, lambda: f.mean(), lambda: f.integrate(), lambda: m.cells, lambda: m.vertices,
                 lambda: m.dV, lambda: list(m)[:1], lambda: f.to_vtk() if m.region.ndim == 3 else None, lambda: f.orientation):
        try:
            read()
        except Exception:  # noqa: BLE001  (reads only; nothing is judged here)
            pass
    m.translate(tuple(-x for x in v), inplace=True)
    return f
