---------------------------- MODULE C14CoreProof ----------------------------
(* The inductive invariant of spec/C14Core.tla as a machine-checked PROOF (TLAPS, SMT back end). *)
(* Same method as C13CoreProof: |s| and the new cell d = |s| c are named, a handful of facts      *)
(* about products are proved once, every product that occurs is then an atom of linear            *)
(* arithmetic.  TLAPS has no types: the invariant is strengthened by "every variable is an        *)
(* integer".                                                                                      *)
(*   tlapm C14CoreProof.tla                                                                       *)
EXTENDS C14Core, TLAPS

TypeInv == lo \in Int /\ n \in Int /\ c \in Int /\ slo \in Int /\ shi \in Int /\ ka \in Int /\ kb \in Int
Inv == TypeInv /\ IndInv

THEOREM InitOK == Init => Inv
  BY DEF Init, Inv, TypeInv, IndInv, Inside, Aligned, Whole, Hi

LEMMA MulPos == \A x, y \in Int : (x >= 1 /\ y >= 1) => x * y >= 1
  BY SMTT(30)
LEMMA MulInt == \A x, y \in Int : x * y \in Int
  BY SMTT(30)
LEMMA MulAssoc == \A x, y, z \in Int : x * (y * z) = y * (x * z)
  BY SMTT(30)
LEMMA MulDist3 == \A x, a, b, e \in Int : x * (a + b - e) = x * a + x * b - x * e
  BY SMTT(30)
LEMMA MulDistR == \A x, y, z \in Int : (x - y) * z = x * z - y * z
  BY SMTT(30)
LEMMA MulSucc == \A x, z \in Int : (x + 1) * z = x * z + z
  BY SMTT(30)
LEMMA MulMono == \A x, y, z \in Int : (x <= y /\ z >= 0) => x * z <= y * z
  BY SMTT(30)
LEMMA MulNeg == \A x, y \in Int : (0 - x) * y = 0 - x * y
  BY SMTT(30)

LEMMA TranslateOK == Inv /\ Translate => Inv'
<1> SUFFICES ASSUME Inv, NEW v \in Int, lo' = lo + v, slo' = slo + v, shi' = shi + v, n' = n, c' = c, ka' = ka, kb' = kb
             PROVE Inv'
  BY DEF Translate
<1>1. n * c \in Int /\ ka * c \in Int /\ kb * c \in Int
  BY MulInt DEF Inv, TypeInv
<1> QED BY <1>1 DEF Inv, TypeInv, IndInv, Inside, Aligned, Whole, Hi

LEMMA HalfTurnOK == Inv /\ HalfTurn => Inv'
<1> SUFFICES ASSUME Inv, NEW r \in Int, lo' = 2 * r - Hi, slo' = 2 * r - shi, shi' = 2 * r - slo, n' = n, c' = c, ka' = n - kb, kb' = n - ka
             PROVE Inv'
  BY DEF HalfTurn
<1>0. lo \in Int /\ n \in Int /\ c \in Int /\ slo \in Int /\ shi \in Int /\ ka \in Int /\ kb \in Int
      /\ n >= 1 /\ c >= 1 /\ 0 <= ka /\ ka < kb /\ kb <= n /\ slo = lo + ka * c /\ shi = lo + kb * c /\ Hi = lo + n * c
  BY DEF Inv, TypeInv, IndInv, Inside, Aligned, Whole, Hi
<1>1. n * c \in Int /\ ka * c \in Int /\ kb * c \in Int /\ (n - kb) * c = n * c - kb * c /\ (n - ka) * c = n * c - ka * c
  BY <1>0, MulInt, MulDistR
<1>2. ka * c >= 0 /\ kb * c <= n * c /\ ka * c + c <= kb * c
  <2>1. 0 * c <= ka * c /\ kb * c <= n * c /\ (ka + 1) * c <= kb * c
    BY <1>0, MulMono
  <2>2. (ka + 1) * c = ka * c + c /\ 0 * c = 0
    BY <1>0, MulSucc
  <2> QED BY <2>1, <2>2
<1>3. n' * c' = n * c /\ ka' * c' = (n - kb) * c /\ kb' * c' = (n - ka) * c
  BY <1>0
<1> QED BY <1>0, <1>1, <1>2, <1>3 DEF Inv, TypeInv, IndInv, Inside, Aligned, Whole, Hi

LEMMA ScaleOK == Inv /\ Scale => Inv'
<1> SUFFICES ASSUME Inv, NEW s \in Int, NEW r \in Int, s # 0,
                    lo'  = Min2(r + s * (lo - r), r + s * (Hi - r)),
                    slo' = Min2(r + s * (slo - r), r + s * (shi - r)),
                    shi' = Max2(r + s * (slo - r), r + s * (shi - r)),
                    n' = n, c' = Abs(s) * c,
                    ka' = (IF s > 0 THEN ka ELSE n - kb),
                    kb' = (IF s > 0 THEN kb ELSE n - ka)
             PROVE Inv'
  BY DEF Scale
<1>0. lo \in Int /\ n \in Int /\ c \in Int /\ slo \in Int /\ shi \in Int /\ ka \in Int /\ kb \in Int
      /\ n >= 1 /\ c >= 1 /\ 0 <= ka /\ ka < kb /\ kb <= n /\ slo = lo + ka * c /\ shi = lo + kb * c /\ Hi = lo + n * c
  BY DEF Inv, TypeInv, IndInv, Inside, Aligned, Whole, Hi
<1> DEFINE t == Abs(s)
<1>1. t \in Int /\ t >= 1 /\ ((s = t /\ s > 0) \/ (s = 0 - t /\ ~(s > 0)))
  BY DEF Abs
<1> DEFINE d == t * c
<1>2. d \in Int /\ d >= 1 /\ c' = d
  BY <1>0, <1>1, MulPos, MulInt
<1>3. n * c \in Int /\ ka * c \in Int /\ kb * c \in Int /\ t * lo \in Int /\ t * r \in Int
      /\ n * d \in Int /\ ka * d \in Int /\ kb * d \in Int
  BY <1>0, <1>1, <1>2, MulInt
<1>4. t * (n * c) = n * d /\ t * (ka * c) = ka * d /\ t * (kb * c) = kb * d
  BY <1>0, <1>1, MulAssoc
<1>5. /\ t * (lo + 0 - r) = t * lo + t * 0 - t * r
      /\ t * (lo + n * c - r) = t * lo + t * (n * c) - t * r
      /\ t * (lo + ka * c - r) = t * lo + t * (ka * c) - t * r
      /\ t * (lo + kb * c - r) = t * lo + t * (kb * c) - t * r
  BY <1>0, <1>1, <1>3, MulDist3
<1>6. /\ t * (lo - r) = t * lo - t * r
      /\ t * (Hi - r) = t * lo + n * d - t * r
      /\ t * (slo - r) = t * lo + ka * d - t * r
      /\ t * (shi - r) = t * lo + kb * d - t * r
  BY <1>0, <1>1, <1>3, <1>4, <1>5
<1>7. ka * d >= 0 /\ kb * d <= n * d /\ ka * d + d <= kb * d
  <2>1. 0 * d <= ka * d /\ kb * d <= n * d /\ (ka + 1) * d <= kb * d
    BY <1>0, <1>2, MulMono
  <2>2. (ka + 1) * d = ka * d + d /\ 0 * d = 0
    BY <1>0, <1>2, MulSucc
  <2> QED BY <2>1, <2>2
<1>8. (n - kb) * d = n * d - kb * d /\ (n - ka) * d = n * d - ka * d
  BY <1>0, <1>2, MulDistR
<1>9. CASE s = t /\ s > 0
  <2> DEFINE base == r + t * lo - t * r
  <2>1. r + s * (lo - r) = base /\ r + s * (Hi - r) = base + n * d /\ r + s * (slo - r) = base + ka * d /\ r + s * (shi - r) = base + kb * d
    BY <1>9, <1>6, <1>3, <1>0
  <2>2. ka' = ka /\ kb' = kb
    BY <1>9
  <2> HIDE DEF t, d
  <2>3. lo' = base /\ slo' = base + ka * d /\ shi' = base + kb * d
    BY <2>1, <1>7, <1>3, <1>2, <1>0 DEF Min2, Max2
  <2>4. n' * c' = n * d /\ ka' * c' = ka * d /\ kb' * c' = kb * d
    BY <2>2, <1>2
  <2>5. base \in Int
    BY <1>0, <1>3
  <2> HIDE DEF base
  <2> QED BY <2>2, <2>3, <2>4, <2>5, <1>0, <1>2, <1>3, <1>7 DEF Inv, TypeInv, IndInv, Inside, Aligned, Whole, Hi
<1>10. CASE s = 0 - t /\ ~(s > 0)
  <2> DEFINE base == r + t * r - t * lo - n * d
  <2>0. /\ s * (lo - r) = 0 - t * (lo - r) /\ s * (Hi - r) = 0 - t * (Hi - r)
        /\ s * (slo - r) = 0 - t * (slo - r) /\ s * (shi - r) = 0 - t * (shi - r)
    BY <1>10, <1>0, <1>1, MulNeg
  <2>1. r + s * (lo - r) = base + n * d /\ r + s * (Hi - r) = base /\ r + s * (slo - r) = base + n * d - ka * d /\ r + s * (shi - r) = base + n * d - kb * d
    BY <2>0, <1>6, <1>3, <1>0
  <2>2. ka' = n - kb /\ kb' = n - ka
    BY <1>10
  <2> HIDE DEF t, d
  <2>3. lo' = base /\ slo' = base + n * d - kb * d /\ shi' = base + n * d - ka * d
    BY <2>1, <1>7, <1>3, <1>2, <1>0 DEF Min2, Max2
  <2>4. n' * c' = n * d /\ ka' * c' = n * d - kb * d /\ kb' * c' = n * d - ka * d
    BY <2>2, <1>2, <1>8
  <2>5. base \in Int
    BY <1>0, <1>3
  <2> HIDE DEF base
  <2> QED BY <2>2, <2>3, <2>4, <2>5, <1>0, <1>2, <1>3, <1>7 DEF Inv, TypeInv, IndInv, Inside, Aligned, Whole, Hi
<1> QED BY <1>1, <1>9, <1>10

THEOREM Inductive == Inv /\ Next => Inv'
  BY TranslateOK, HalfTurnOK, ScaleOK DEF Next
=============================================================================
