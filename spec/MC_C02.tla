------------------------------ MODULE MC_C02 ------------------------------
EXTENDS C02
Prefix(s, k) == [d \in 1 .. k |-> s[d]]
ProfA == [c |-> <<4, 4, 4, 4>>,  lo |-> <<0, 0, 0, 0>>]
ProfB == [c |-> <<12, 4, 8, 8>>, lo |-> <<-8, 4, -12, 20>>]
ProfC == [c |-> <<8, 12, 4, 4>>, lo |-> <<40, -36, 8, -4>>]
MeshesOf(NL, Profs) == {[lo |-> Prefix(p.lo, Len(nn)), c |-> Prefix(p.c, Len(nn)), n |-> nn] : nn \in NL, p \in Profs}

NL_quick == {<<1>>, <<2>>, <<3>>, <<4>>,
             <<1, 1>>, <<2, 1>>, <<1, 3>>, <<2, 2>>, <<3, 2>>, <<3, 3>>,
             <<1, 1, 1>>, <<2, 2, 2>>, <<3, 2, 1>>, <<1, 2, 3>>,
             <<2, 1, 2, 1>>}
NL_thorough == NL_quick \cup {<<5>>, <<6>>, <<1, 2>>, <<2, 3>>, <<4, 3>>, <<4, 4>>, <<3, 1>>,
                              <<2, 1, 2>>, <<3, 3, 2>>, <<3, 3, 3>>, <<4, 2, 2>>, <<2, 2, 3>>,
                              <<1, 1, 1, 1>>, <<1, 2, 1, 2>>, <<2, 2, 2, 2>>}
MeshSet_quick    == MeshesOf(NL_quick, {ProfA, ProfB})
MeshSet_thorough == MeshesOf(NL_thorough, {ProfA, ProfB, ProfC})
NV_quick    == {1, 2, 3}
NV_thorough == {1, 2, 3, 4}
Layouts_quick == {<<>>, <<"slab1lo">>, <<"slab1lo", "slab1hi">>, <<"slab1hi", "slab1lo">>,
                  <<"lowhalf", "highhalf">>, <<"first", "all", "last">>, <<"all", "first">>,
                  <<"lowhalf", "slabLlo", "highhalf">>}
Layouts_thorough == Layouts_quick \cup {<<"inner">>, <<"inner", "all">>, <<"last", "highhalf", "slab1lo">>,
                                        <<"highhalf", "lowhalf">>, <<"first", "last">>}
FieldKinds_all == {"same", "coarser", "finer", "finer3", "shifted", "shiftq", "larger", "one", "mixed"}
DictPats_quick == {"allconst", "allfunc", "skip1", "mix"}
DictPats_thorough == {"allconst", "allfunc", "skip1", "mix", "onlylast"}
LineKs_quick == {2, 3, 4, 5}
LineKs_thorough == {2, 3, 4, 5, 7, 9}
=============================================================================
