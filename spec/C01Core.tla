------------------------------ MODULE C01Core ------------------------------
(* The one-dimensional integer core of C01 for UNBOUNDED coordinates, cell sizes and cell      *)
(* counts.  TLC checks the index <-> point maps of the full model on meshes of a few cells     *)
(* (C01.tla over exact rationals); here Apalache proves the same clauses for a region          *)
(* [lo, lo + n c] on the integer lattice with ANY lo, any n >= 1 and any c >= 1, for any       *)
(* index i, any other index j and any point p -- in doubled coordinates, so that the cell      *)
(* centres lo + (i + 1/2) c are integers as well (X2 = 2 x).                                   *)
(*                                                                                             *)
(* The state is one arbitrary choice (lo, n, c, i, j, p2): every clause is an invariant of the *)
(* initial states, Next stutters.                                                              *)
(*   apalache-mc check --init=Init --inv=<clause> --length=0 C01Core.tla                       *)
EXTENDS Integers

VARIABLES
  \* @type: Int;
  lo,
  \* @type: Int;
  n,
  \* @type: Int;
  c,
  \* @type: Int;
  i,
  \* @type: Int;
  j,
  \* @type: Int;
  p2

(* doubled coordinates *)
Lo2 == 2 * lo
Hi2 == 2 * (lo + n * c)
Centre2(k) == Lo2 + (2 * k + 1) * c              \* "centres are pmin + (i + 1/2) cell"
(* point2index: floor((p - pmin) / cell), the upper face of the region belongs to the last cell *)
Index(q2) == IF q2 = Hi2 THEN n - 1 ELSE (q2 - Lo2) \div (2 * c)
InRegion(q2) == Lo2 <= q2 /\ q2 <= Hi2
(* the cell k: lower face inclusive, the last cell also upper-inclusive *)
InCell(k, q2) == /\ Lo2 + 2 * k * c <= q2
                 /\ (q2 < Lo2 + 2 * (k + 1) * c \/ (k = n - 1 /\ q2 = Hi2))

Init == /\ lo \in Int /\ n \in Int /\ c \in Int /\ i \in Int /\ j \in Int /\ p2 \in Int
        /\ n >= 1 /\ c >= 1
        /\ 0 <= i /\ i < n /\ 0 <= j /\ j < n
Next == UNCHANGED <<lo, n, c, i, j, p2>>

(* converting any cell index to its centre and back returns the same index *)
C01_IndexPointInverse == InRegion(Centre2(i)) /\ Index(Centre2(i)) = i
(* any point of the region maps to an in-range index whose cell contains the point *)
C01_PointInOwnCell == InRegion(p2) => (0 <= Index(p2) /\ Index(p2) < n /\ InCell(Index(p2), p2))
(* the cells cover the region exactly once: no other cell contains the point *)
C01_CellsTileOnce == (InRegion(p2) /\ j # Index(p2)) => ~InCell(j, p2)
(* the centres of different cells differ by whole cells: the per-axis list of centres is strictly increasing *)
C01_CentresIncrease == i < j => Centre2(j) - Centre2(i) = 2 * (j - i) * c /\ Centre2(i) < Centre2(j)
(* points outside the region are in no cell *)
C01_OutsideInNoCell == ~InRegion(p2) => ~InCell(j, p2)
=============================================================================
