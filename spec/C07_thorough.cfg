SPECIFICATION Spec
CONSTANTS
  MaxN <- MaxN_thorough
  Prof <- Prof_thorough
  Layouts <- Layouts_all
  FullProbes = TRUE
  PadW <- PadW_thorough
  PadModes <- PadModes_all
  ResN <- ResN_thorough
  OtherKinds <- Other_thorough
CHECK_DEADLOCK FALSE
INVARIANT TypeOK
INVARIANT C07_TabFaithful
INVARIANT C07_NonVacuous
INVARIANT C07_CellAligned
INVARIANT C07_PointwiseAgreement
INVARIANT C07_PlaneRemovesAxisAtContainingCell
INVARIANT C07_CentralCell
INVARIANT C07_RangeKeepsFromTo
INVARIANT C07_SmallestCoveringBlock
INVARIANT C07_NamedAndSlicesExact
INVARIANT C07_OutsideRejected
INVARIANT C07_PadAddsCells
INVARIANT C07_PadSeparable
INVARIANT C07_ResampleSeparable
INVARIANT C07_ResampleKeepsRegion
