-------------------------------- MODULE Geom --------------------------------
(* Exact geometry of regions, meshes and fields under the public transformations       *)
(* (translate, scale, rotate90) with rational coordinates, and the object heap with    *)
(* references through which the in-place forms act (DESIGN 2.3, C12, C13).             *)
(*                                                                                     *)
(* Objects                                                                             *)
(*   region : [k |-> "region", lo, hi : Seq(Rat), units : Seq(STRING)]                 *)
(*   mesh   : [k |-> "mesh", region : Oid, n : Seq(Nat), sub : Seq(Oid)]               *)
(*   field  : [k |-> "field", mesh : Oid, nv, arr, valid, map, shape]                  *)
(*            arr/valid are flat arrays (Cells.tla); map[c] = spatial axis of          *)
(*            component c or 0 when the component is not mapped; shape = the cell      *)
(*            counts the arrays were laid out for (the array's own shape)              *)
(* A heap is a function from object ids (naturals) to objects.                         *)
EXTENDS Cells

(* ---- rational vectors -------------------------------------------------------------- *)
RVScale(v, s)   == [d \in DOMAIN v |-> RMul(v[d], s[d])]
RVHalf(v)       == [d \in DOMAIN v |-> RMul(v[d], <<1, 2>>)]
RVMin(u, v)     == [d \in DOMAIN u |-> RMin(u[d], v[d])]
RVMax(u, v)     == [d \in DOMAIN u |-> RMax(u[d], v[d])]

(* ---- regions ----------------------------------------------------------------------- *)
Reg(lo, hi, units) == [k |-> "region", lo |-> lo, hi |-> hi, units |-> units]
RegND(r)        == Len(r.lo)
RegEdges(r)     == RVSub(r.hi, r.lo)
RegCentre(r)    == RVHalf(RVAdd(r.lo, r.hi))
RegNormal(r)    == /\ Len(r.lo) = Len(r.hi) /\ Len(r.units) = Len(r.lo)
                   /\ \A d \in DOMAIN r.lo : RLess(r.lo[d], r.hi[d])
RegDegenerate(lo, hi) == \E d \in DOMAIN lo : REq(lo[d], hi[d])
RegFrom(p1, p2, units) == Reg(RVMin(p1, p2), RVMax(p1, p2), units)

RegTranslate(r, v) == Reg(RVAdd(r.lo, v), RVAdd(r.hi, v), r.units)
(* x |-> ref + s (x - ref), per-axis factors s; corners re-ordered *)
ScalePoint(p, s, ref) == RVAdd(ref, RVScale(RVSub(p, ref), s))
RegScale(r, s, ref) == RegFrom(ScalePoint(r.lo, s, ref), ScalePoint(r.hi, s, ref), r.units)
ScaleOK(s)      == \A d \in DOMAIN s : s[d][1] # 0

(* quarter turns: Q = [[0,-1],[1,0]] acting on the (a, b) coordinates, k times *)
KMod(k)         == k % 4
Rot2(k, x, y)   == CASE KMod(k) = 0 -> <<x, y>>
                     [] KMod(k) = 1 -> <<RNeg(y), x>>
                     [] KMod(k) = 2 -> <<RNeg(x), RNeg(y)>>
                     [] KMod(k) = 3 -> <<y, RNeg(x)>>
RotPoint(p, a, b, k, ref) ==
   LET q == Rot2(k, RSub(p[a], ref[a]), RSub(p[b], ref[b]))
   IN [p EXCEPT ![a] = RAdd(ref[a], q[1]), ![b] = RAdd(ref[b], q[2])]
OddK(k)         == k % 2 = 1
RegRotate(r, a, b, k, ref) ==
   RegFrom(RotPoint(r.lo, a, b, k, ref), RotPoint(r.hi, a, b, k, ref),
           IF OddK(k) THEN SwapAt(r.units, a, b) ELSE r.units)

(* ---- cell counts, indices, arrays under a quarter turn ------------------------------ *)
RotN(n, a, b, k) == IF OddK(k) THEN SwapAt(n, a, b) ELSE n
(* where the cell with index i (counts n) ends up *)
RotIdx(n, a, b, k, i) ==
   CASE KMod(k) = 0 -> i
     [] KMod(k) = 1 -> [i EXCEPT ![a] = n[b] - 1 - i[b], ![b] = i[a]]
     [] KMod(k) = 2 -> [i EXCEPT ![a] = n[a] - 1 - i[a], ![b] = n[b] - 1 - i[b]]
     [] KMod(k) = 3 -> [i EXCEPT ![a] = i[b], ![b] = n[a] - 1 - i[a]]
(* array of the rotated field: the value found at j came from the cell that rotates to j *)
RotFlat(n, arr, a, b, k) ==
   LET n2 == RotN(n, a, b, k)
   IN [kk \in 1 .. ProdSeq(n2) |-> At(n, arr, RotIdx(n2, a, b, 0 - k, Unflat(n2, kk - 1)))]
(* the two components ca, cb (mapped to a, b) transformed by Q^k; integer values *)
IRot2(k, x, y)  == CASE KMod(k) = 0 -> <<x, y>>
                     [] KMod(k) = 1 -> <<0 - y, x>>
                     [] KMod(k) = 2 -> <<0 - x, 0 - y>>
                     [] KMod(k) = 3 -> <<y, 0 - x>>
RotVec(v, ca, cb, k) == LET q == IRot2(k, v[ca], v[cb]) IN [v EXCEPT ![ca] = q[1], ![cb] = q[2]]
CompOf(map, axis) == IF \E c \in DOMAIN map : map[c] = axis
                     THEN CHOOSE c \in DOMAIN map : map[c] = axis ELSE 0

(* ---- meshes on rational regions ------------------------------------------------------ *)
CellR(r, n, d)    == RDiv(RSub(r.hi[d], r.lo[d]), R(n[d]))
CentreR(r, n, i)  == [d \in DOMAIN n |-> RAdd(r.lo[d], RMul(CellR(r, n, d), <<2 * i[d] + 1, 2>>))]
P2IR(r, n, p)     == [d \in DOMAIN n |-> Clip(RFloor(RDiv(RSub(p[d], r.lo[d]), CellR(r, n, d))), 0, n[d] - 1)]
InRegR(r, p)      == \A d \in DOMAIN p : RLeq(r.lo[d], p[d]) /\ RLeq(p[d], r.hi[d])
RegInReg(s, r)    == InRegR(r, s.lo) /\ InRegR(r, s.hi)
(* s consists of whole cells of (r, n) and sits on its lattice *)
RegOnLattice(s, r, n) == \A d \in DOMAIN n :
     /\ RIsInt(RDiv(RSub(s.lo[d], r.lo[d]), CellR(r, n, d)))
     /\ RIsInt(RDiv(RSub(s.hi[d], r.lo[d]), CellR(r, n, d)))

(* ---- heap ---------------------------------------------------------------------------- *)
Msh(region, n, sub) == [k |-> "mesh", region |-> region, n |-> n, sub |-> sub]
Fld(mesh, nv, arr, valid, map, shape) == [k |-> "field", mesh |-> mesh, nv |-> nv, arr |-> arr, valid |-> valid, map |-> map, shape |-> shape]
SeqRange(s)      == {s[j] : j \in DOMAIN s}
MaxSet(S)        == CHOOSE x \in S : \A y \in S : y <= x
NewId(h, j)      == MaxSet(DOMAIN h) + j
Ext(h, o, v)     == [x \in DOMAIN h \cup {o} |-> IF x = o THEN v ELSE h[x]]
MeshReg(h, m)    == h[h[m].region]
FieldMesh(h, f)  == h[h[f].mesh]
(* objects of a mesh that move with it: its region and its subregions *)
MeshRegs(h, m)   == {h[m].region} \cup SeqRange(h[m].sub)
ApplyRegs(h, S, F(_)) == [o \in DOMAIN h |-> IF o \in S THEN F(h[o]) ELSE h[o]]

(* reachability (for garbage collection after a copying step) *)
Refs(h, o)       == CASE h[o].k = "region" -> {}
                      [] h[o].k = "mesh"   -> {h[o].region} \cup SeqRange(h[o].sub)
                      [] h[o].k = "field"  -> {h[o].mesh}
RECURSIVE Reach(_, _)
Reach(h, S)      == LET T == S \cup UNION {Refs(h, o) : o \in S} IN IF T = S THEN S ELSE Reach(h, T)
Restrict(h, S)   == [o \in S |-> h[o]]

(* value of an object with its references followed (identity forgotten) *)
DeepMesh(h, m)   == [n |-> h[m].n, region |-> h[h[m].region], sub |-> [j \in DOMAIN h[m].sub |-> h[h[m].sub[j]]]]
Deep(h, o)       == CASE h[o].k = "region" -> h[o]
                      [] h[o].k = "mesh"   -> DeepMesh(h, o)
                      [] h[o].k = "field"  -> [mesh |-> DeepMesh(h, h[o].mesh), nv |-> h[o].nv, arr |-> h[o].arr,
                                               valid |-> h[o].valid, map |-> h[o].map, shape |-> h[o].shape]

(* ---- well-formedness of every object (C13) ------------------------------------------- *)
MeshNormal(h, m)  == /\ Len(h[m].n) = RegND(MeshReg(h, m))
                     /\ \A d \in DOMAIN h[m].n : h[m].n[d] >= 1
                     /\ RegNormal(MeshReg(h, m))
SubsWellFormed(h, m) == \A s \in SeqRange(h[m].sub) :
                     /\ RegNormal(h[s]) /\ RegInReg(h[s], MeshReg(h, m))
                     /\ RegOnLattice(h[s], MeshReg(h, m), h[m].n)
                     /\ h[s].units = MeshReg(h, m).units
FieldShapeOK(h, f) == /\ Len(h[f].arr) = ProdSeq(FieldMesh(h, f).n)
                      /\ Len(h[f].valid) = ProdSeq(FieldMesh(h, f).n)
                      /\ \A j \in DOMAIN h[f].arr : Len(h[f].arr[j]) = h[f].nv
                      /\ h[f].shape = FieldMesh(h, f).n

(* ---- the transformations on heap objects -------------------------------------------- *)
(* each returns the new heap; `o` is the object the call is made on.  In-place forms act *)
(* through the references; copying forms allocate fresh objects and return their id.     *)
RegOp(kind, r, args) ==
   CASE kind = "translate" -> RegTranslate(r, args.v)
     [] kind = "scale"     -> RegScale(r, args.s, args.ref)
     [] kind = "rotate90"  -> RegRotate(r, args.a, args.b, args.k, args.ref)

(* default reference point: the centre of the region of the object the call is made on *)
OwnRegion(h, o) == CASE h[o].k = "region" -> h[o]
                     [] h[o].k = "mesh"   -> MeshReg(h, o)
                     [] h[o].k = "field"  -> h[h[h[o].mesh].region]
WithRef(h, o, args) == IF "ref" \in DOMAIN args /\ args.ref = <<>>
                       THEN [args EXCEPT !.ref = RegCentre(OwnRegion(h, o))] ELSE args

FieldRotated(fo, n, args) ==
   LET ca == CompOf(fo.map, args.a)
       cb == CompOf(fo.map, args.b)
       moved == RotFlat(n, fo.arr, args.a, args.b, args.k)
   IN [fo EXCEPT !.arr = IF fo.nv = 1 THEN moved
                         ELSE [j \in DOMAIN moved |-> RotVec(moved[j], ca, cb, args.k)],
                 !.valid = RotFlat(n, fo.valid, args.a, args.b, args.k),
                 !.shape = RotN(n, args.a, args.b, args.k)]
FieldRotatable(fo, args) == fo.nv = 1 \/ (CompOf(fo.map, args.a) # 0 /\ CompOf(fo.map, args.b) # 0)

(* in place: mutate through references *)
InPlace(h, o, kind, args0) ==
   LET args == WithRef(h, o, args0) IN
   CASE h[o].k = "region" -> [h EXCEPT ![o] = RegOp(kind, @, args)]
     [] h[o].k = "mesh"   ->
          LET h1 == ApplyRegs(h, MeshRegs(h, o), LAMBDA r : RegOp(kind, r, args))
          IN IF kind = "rotate90" THEN [h1 EXCEPT ![o].n = RotN(@, args.a, args.b, args.k)] ELSE h1
     [] h[o].k = "field"  ->
          LET m  == h[o].mesh
              h1 == ApplyRegs(h, MeshRegs(h, m), LAMBDA r : RegOp(kind, r, args))
              h2 == [h1 EXCEPT ![m].n = RotN(@, args.a, args.b, args.k)]
          IN [h2 EXCEPT ![o] = FieldRotated(@, h[m].n, args)]

(* copying: result objects are fresh; returns <<heap, id of the result>> *)
CopyRegion(h, o, kind, args, j) == Ext(h, NewId(h, j), RegOp(kind, h[o], args))
CopyMesh(h, m, kind, args, j0) ==
   (* new region at j0+1, subregions at j0+2.., the mesh last; returns <<heap, mesh id>> *)
   LET nsub == Len(h[m].sub)
       base == NewId(h, j0)
       h1 == Ext(h, base + 1, RegOp(kind, MeshReg(h, m), args))
       RECURSIVE AddSubs(_, _)
       AddSubs(hh, j) == IF j > nsub THEN hh
                         ELSE AddSubs(Ext(hh, base + 1 + j, RegOp(kind, h[h[m].sub[j]], args)), j + 1)
       h2 == AddSubs(h1, 1)
       mid == base + 2 + nsub
       nn == IF kind = "rotate90" THEN RotN(h[m].n, args.a, args.b, args.k) ELSE h[m].n
   IN <<Ext(h2, mid, Msh(base + 1, nn, [j \in 1 .. nsub |-> base + 1 + j])), mid>>
Copying(h, o, kind, args0) ==
   LET args == WithRef(h, o, args0) IN
   CASE h[o].k = "region" -> <<CopyRegion(h, o, kind, args, 1), NewId(h, 1)>>
     [] h[o].k = "mesh"   -> CopyMesh(h, o, kind, args, 0)
     [] h[o].k = "field"  ->
          LET cm == CopyMesh(h, h[o].mesh, kind, args, 0)
              fid == cm[2] + 1
          IN <<Ext(cm[1], fid, [FieldRotated(h[o], FieldMesh(h, o).n, args) EXCEPT !.mesh = cm[2]]), fid>>

(* does the library accept the call?  (well-formed arguments only; malformed arguments   *)
(* are modelled as separate reject actions)                                               *)
Accepts(h, o, kind, args) ==
   CASE kind = "translate" -> h[o].k # "field"
     [] kind = "scale"     -> h[o].k # "field" /\ ScaleOK(args.s)
     [] kind = "rotate90"  -> IF h[o].k = "field" THEN FieldRotatable(h[o], args) ELSE TRUE
=============================================================================
