SPECIFICATION Spec
CONSTANTS
  Scenarios <- Scen_all
  TransVs <- TransVs_def
  ScaleFs <- ScaleFs_all
  RefPts <- RefPts_def
  RotKs <- RotKs_all
  BadKinds <- Bad_all
  MaxDepth = 8
  AllowAlias = "noP1P2"
CHECK_DEADLOCK FALSE
INVARIANT C13_RegionNormal
INVARIANT C13_MeshNormal
INVARIANT C13_FieldShapes
PROPERTY C13_AffineExact
PROPERTY C13_CountsAndUnits
PROPERTY C13_InplaceEqualsCopy
PROPERTY C13_InplaceReturnsSelf
PROPERTY C13_CopyLeavesOriginal
PROPERTY C13_RejectUnchanged
