SPECIFICATION Spec
CONSTANTS
  Pool <- PoolDef
  InitSet <- Init_thorough
  Ops <- OpsC08
  DeepOps <- DeepOpsC08
  MaskPats <- MaskPats_thorough
  PadModes <- PadModes_all
  RotKs <- RotKs_thorough
CHECK_DEADLOCK FALSE
INVARIANT TypeOK
INVARIANT C08_Propagation
INVARIANT C08_OwnMask
INVARIANT C08_SetValidKeepsValues
INVARIANT C08_BoolOfMeshShape
INVARIANT C08_NormMarksNonzero
INVARIANT C08_SetValidMask
PROPERTY C08_OwnMaskStep
