SPECIFICATION Spec12
CONSTANTS
  Scenarios <- Scen12_all
  TransVs <- None
  ScaleFs <- None
  RefPts <- RefPts12
  RotKs <- RotKs12
  BadKinds <- Bad12
  MaxDepth = 0
  AllowAlias = "noP1P2"
CHECK_DEADLOCK FALSE
INVARIANT C13_RegionNormal
INVARIANT C13_MeshNormal
INVARIANT C13_FieldShapes
INVARIANT C12_FourIsIdentity
PROPERTY C12_Law
PROPERTY C12_ModFour
PROPERTY C12_ReverseUndoes
PROPERTY C12_Consistent
PROPERTY C12_Refusal
PROPERTY C12_CountsAndUnits
PROPERTY C12_InplaceEqualsCopy
PROPERTY C12_AffineExact
PROPERTY C13_InplaceReturnsSelf
PROPERTY C13_CopyLeavesOriginal
PROPERTY C13_RejectUnchanged
