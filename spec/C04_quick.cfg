SPECIFICATION Spec
CONSTANTS
  MaxL = 7
  Variants <- Variants_all
CHECK_DEADLOCK FALSE
INVARIANT TypeOK
INVARIANT C04_PolyExact
INVARIANT C04_ShortRunsZero
INVARIANT C04_InvalidZero
INVARIANT C04_Local
INVARIANT C04_UnrestrictedIsOneRun
INVARIANT C04_RingIsCentredWrap
INVARIANT C04_ShiftCommutes
INVARIANT C04_Linear
INVARIANT C04_ExactOnRunPolynomials
INVARIANT C04_KeepsValidity
