------------------------------ MODULE C15Trace ------------------------------
(* Channel T for C15: random histories executed on one real Field object.  After every *)
(* call the observed array is projected to exact rationals (cells [v, <<1, den>>]) and  *)
(* logged; `val` is bound to the OBSERVED cells, the clauses of C15 are evaluated on    *)
(* (previous observed, observed) and the observation is compared with the spec's own    *)
(* operator Normed.  Verdicts are total.                                                *)
EXTENDS C15, Json, IOUtils

VARIABLES tid, l
tvars == <<mesh, nv, p0, v0, val, mag, valid, hist, act, obs, tid, l>>

Traces == JsonDeserialize(IOEnv.TRACE_FILE)
T  == Traces[tid]
Ev == Traces[tid].ev[l + 1]
Verd(c, name) == IF c THEN TRUE ELSE PrintT(<<"VERDICT", Traces[tid].id, l + 1, name>>)

Raw(vecs) == [q \in DOMAIN vecs |-> Cell(vecs[q], One)]
SameCells(a, b) == /\ Len(a) = Len(b)
                   /\ \A q \in DOMAIN a : \A c \in 1 .. nv : Comp(a[q], c) = Comp(b[q], c)

TInit == /\ tid \in 1 .. Len(Traces)
         /\ l = 0
         /\ mesh = Traces[tid].mesh
         /\ nv = Traces[tid].nv
         /\ p0 = 0
         /\ v0 = Traces[tid].v0
         /\ val = Raw(Traces[tid].v0)
         /\ mag = "V"
         /\ valid = Traces[tid].valid
         /\ hist = <<>>
         /\ act = <<"new">>
         /\ obs = [pre |-> val, t |-> <<>>]

(* the clauses of the property on (pre, post, targets), all observed *)
NormClauses(pre, post, t) ==
   /\ Verd(\A q \in DOMAIN pre : IsNZ(pre[q]) => Len2(post[q]) = R(t[q] * t[q]), "C15_NonzeroGetLength")
   /\ Verd(\A q \in DOMAIN pre : (IsNZ(pre[q]) /\ t[q] > 0) =>
              /\ \A i, j \in 1 .. nv : RMul(Comp(post[q], i), Comp(pre[q], j)) = RMul(Comp(post[q], j), Comp(pre[q], i))
              /\ RSgn(RMul(R(Dot(post[q].v, pre[q].v)), RMul(post[q].s, pre[q].s))) = 1, "C15_DirectionKept")
   /\ Verd(\A q \in DOMAIN pre : ~IsNZ(pre[q]) => \A c \in 1 .. nv : Comp(post[q], c) = RZero, "C15_ZeroStaysZero")
   /\ Verd(SameCells(Normed(pre, t), post), "spec-operator")

StepNorm(kind) ==
   /\ Ev.k = kind
   /\ Verd(Ev.ns.k \in {"const", "func"} => Ev.t = Targets(mesh, Ev.ns), "driver-targets")
   /\ Verd(Ev.exact /\ ~Ev.offlat, "values-on-lattice")
   /\ (IF Ev.exact THEN NormClauses(val, Ev.post, Ev.t) ELSE TRUE)
   /\ act' = <<kind, Ev.ns>>
   /\ obs' = [pre |-> val, t |-> Ev.t]
   /\ val' = IF Ev.exact THEN Ev.post ELSE val
   /\ mag' = "N"
   /\ hist' = Append(hist, <<kind, Ev.ns, Ev.t>>)
StepCtor == /\ l = 0 /\ StepNorm("ctor")
            /\ Verd(Ev.exact => Ev.valid = [q \in DOMAIN val |-> IsNZ(Ev.post[q])], "C15_CtorOrder")
            /\ Verd(Ev.valid = [q \in DOMAIN val |-> IsNZ(val[q]) /\ Ev.t[q] # 0], "C15_CtorOrder")
            /\ valid' = Ev.valid
StepSetNorm == StepNorm("setnorm") /\ UNCHANGED valid
StepSetNone == /\ Ev.k = "setnone"
               /\ Verd(Ev.exact /\ SameCells(val, Ev.post), "C15_NoneIsNoop")
               /\ act' = <<"setnone">>
               /\ obs' = [pre |-> val, t |-> <<>>]
               /\ hist' = Append(hist, <<"setnone">>)
               /\ UNCHANGED <<val, mag, valid>>
StepUpdate == /\ Ev.k = "update"
              /\ Verd(Ev.exact /\ SameCells(Raw(Ev.vecs), Ev.post), "C15_NoReapply")
              /\ act' = <<"update", 0>>
              /\ obs' = [pre |-> val, t |-> <<>>]
              /\ val' = Raw(Ev.vecs)
              /\ mag' = "V"
              /\ hist' = Append(hist, <<"update", 0, Ev.vecs>>)
              /\ UNCHANGED valid
StepGetNorm == /\ Ev.k = "norm"
               /\ Verd(Ev.meta, "C15_NormIsEuclidean-metadata")
               /\ Verd(Ev.meta => (Ev.exact /\ \A q \in DOMAIN val : /\ RMul(Ev.norm[q], Ev.norm[q]) = Len2(val[q])
                                                                    /\ RSgn(Ev.norm[q]) >= 0), "C15_NormIsEuclidean")
               /\ Verd(Ev.meta => Ev.valid = Ev.fvalid, "C15_NormIsEuclidean-validity")
               /\ act' = <<"norm">>
               /\ obs' = [norm |-> Ev.norm, valid |-> Ev.valid]
               /\ UNCHANGED <<val, mag, valid, hist>>
StepOrient == /\ Ev.k = "orient"
              /\ Verd(Ev.ok /\ Ev.exact, "orientation-on-lattice")
              /\ Verd((Ev.ok /\ Ev.exact) => \A q \in DOMAIN val :
                         IF IsNZ(val[q]) THEN Norm2(Ev.o[q].num) = Ev.o[q].den * Ev.o[q].den
                         ELSE \A c \in 1 .. nv : Ev.o[q].num[c] = 0, "C15_OrientationUnitOrZero")
              /\ Verd((Ev.ok /\ Ev.exact) => \A q \in DOMAIN val : \A c \in 1 .. nv :
                         RMul(RNorm(Ev.o[q].num[c], Ev.o[q].den), LenOf(val[q])) = Comp(val[q], c), "C15_OrientationTimesNorm")
              /\ Verd(Ev.ok => Ev.prod, "C15_OrientationTimesNorm-product")
              /\ act' = <<"orientation">>
              /\ obs' = Ev.o
              /\ UNCHANGED <<val, mag, valid, hist>>

(* a call of the history raised an exception inside the library *)
StepRaise == /\ Ev.k = "raise"
             /\ Verd(FALSE, "call-raises")
             /\ act' = <<"raise">>
             /\ UNCHANGED <<val, mag, valid, hist, obs>>

TNext == /\ l < Len(Traces[tid].ev)
         /\ (StepCtor \/ StepSetNorm \/ StepSetNone \/ StepUpdate \/ StepGetNorm \/ StepOrient \/ StepRaise)
         /\ l' = l + 1
         /\ UNCHANGED <<mesh, nv, p0, v0, tid>>
TSpec == TInit /\ [][TNext]_tvars
=============================================================================
