SPECIFICATION TSpec
CONSTANTS
  Scenarios = {}
  TransVs = {}
  ScaleFs = {}
  RefPts = {}
  RotKs = {}
  BadKinds = {}
  MaxDepth = 0
  AllowAlias = "all"
CHECK_DEADLOCK FALSE
