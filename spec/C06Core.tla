------------------------------ MODULE C06Core ------------------------------
(* The one-dimensional integer core of C06 for lines of ANY length with values of ANY size:     *)
(* a walk along one line of cells that keeps the running sum, the cumulative integral at the     *)
(* current cell and a linear combination of two fields.  TLC checks the sums of the full model    *)
(* on meshes of a few cells (C06.tla); here Apalache proves that the clauses of C06 about the      *)
(* cumulative integral, the directional integral, the mean and linearity are INDUCTIVE            *)
(* invariants of "take the next cell", i.e. they hold for lines of every length.                  *)
(* Doubled values (cum2 = 2 * cumulative integral) keep "half the cell's own value" an integer.    *)
(*   apalache-mc check --init=Init    --inv=IndInv --length=0 C06Core.tla                          *)
(*   apalache-mc check --init=IndInit --inv=IndInv --length=1 C06Core.tla                          *)
EXTENDS Integers

VARIABLES
  \* @type: Int;
  c,      \* cell length
  \* @type: Int;
  k,      \* cells taken so far (>= 1)
  \* @type: Int;
  s,      \* sum of the values of the cells taken
  \* @type: Int;
  v,      \* value of the current (last taken) cell
  \* @type: Int;
  cum2,   \* twice the cumulative integral at the current cell
  \* @type: Int;
  a,      \* coefficients of the linear combination h = a f + b g
  \* @type: Int;
  b,
  \* @type: Int;
  sg,     \* sum of the second field g
  \* @type: Int;
  sh,     \* sum of h
  \* @type: Int;
  cumh2,  \* twice the cumulative integral of h at the current cell
  \* @type: Int;
  cumg2   \* twice the cumulative integral of g

(* the directional integral of the cells taken so far: the sum along the axis times the cell length *)
Integral(sum) == c * sum
(* "the cumulative integral at a cell is the cell length times (the sum of the preceding cells plus half the cell's own value)" *)
(* => "its last entry plus half the last cell equals the directional integral"                                              *)
CumulativeMeetsIntegral == cum2 + c * v = 2 * Integral(s)
(* "the mean ... is the integral divided by the integrated extent": mean * (k c) = integral, with mean = s / k *)
MeanTimesExtent == s * (k * c) = k * Integral(s)
(* "linear in the field": sums, integrals and cumulative integrals of h = a f + b g *)
Linear == sh = a * s + b * sg /\ cumh2 = a * cum2 + b * cumg2
IndInv == c >= 1 /\ k >= 1 /\ CumulativeMeetsIntegral /\ MeanTimesExtent /\ Linear

(* the first cell: values f = 5, g = -2, h = 3 f + 2 g *)
Init == /\ c = 4 /\ k = 1 /\ a = 3 /\ b = 2
        /\ v = 5 /\ s = 5 /\ cum2 = 4 * 5
        /\ sg = -2 /\ cumg2 = 4 * (-2)
        /\ sh = 11 /\ cumh2 = 4 * 11
IndInit == /\ c \in Int /\ k \in Int /\ s \in Int /\ v \in Int /\ cum2 \in Int /\ a \in Int /\ b \in Int
           /\ sg \in Int /\ sh \in Int /\ cumh2 \in Int /\ cumg2 \in Int
           /\ IndInv

(* take the next cell with values f = w, g = u (any integers): the library's cumsum of the preceding cells plus half the own value *)
Take == \E w \in Int, u \in Int :
   /\ k' = k + 1 /\ c' = c /\ a' = a /\ b' = b
   /\ v' = w /\ s' = s + w
   /\ cum2' = c * (2 * s + w)
   /\ sg' = sg + u
   /\ cumg2' = c * (2 * sg + u)
   /\ sh' = sh + (a * w + b * u)
   /\ cumh2' = c * (2 * sh + (a * w + b * u))
Next == Take
=============================================================================
