SPECIFICATION Spec
CONSTANTS
  MaxN <- MaxN_quick
  MaxCells <- MaxCells_quick
  CProf <- CProf_quick
  LoProf <- LoProf_quick
  NVs <- NVs_quick
  Pats <- Pats_all
  Coefs <- Coefs_all
CHECK_DEADLOCK FALSE
INVARIANT TypeOK
INVARIANT C11_KCentres
INVARIANT C11_PhaseTable
INVARIANT C11_ZeroFreqIsSum
INVARIANT C11_RealIsHalfOfFull
INVARIANT C11_Linear
INVARIANT C11_LabelsRenamed
INVARIANT C11_InverseUndoes
