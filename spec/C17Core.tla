------------------------------ MODULE C17Core ------------------------------
(* The one-dimensional integer core of C17 for UNBOUNDED coordinates, cell sizes and counts:   *)
(* "xarray export ... uses cell centres as coordinates" and the import recovers the geometry    *)
(* from them.  TLC checks the round trip of the full model on small meshes (C17.tla); here       *)
(* Apalache proves that, for a mesh [lo, lo + n c] with ANY lo, n >= 2, c >= 1, the coordinates  *)
(* x_i = lo + (i + 1/2) c are evenly spaced and that the importer's reconstruction               *)
(*   cell = mean spacing (= x_1 - x_0),  pmin = x_0 - cell / 2,  pmax = x_(n-1) + cell / 2,  n = number of coordinates *)
(* gives back exactly the exported region and cell - in doubled coordinates, so that centres are *)
(* integers.  (A single cell has no spacing: there the exported `cell` attribute is needed,      *)
(* which is what C17.tla models.)                                                                *)
(*   apalache-mc check --init=Init --inv=<clause> --length=0 C17Core.tla                         *)
EXTENDS Integers

VARIABLES
  \* @type: Int;
  lo,
  \* @type: Int;
  n,
  \* @type: Int;
  c,
  \* @type: Int;
  i

X2(k) == 2 * lo + (2 * k + 1) * c        \* twice the k-th exported coordinate

Init == lo \in Int /\ n \in Int /\ c \in Int /\ i \in Int /\ n >= 2 /\ c >= 1 /\ 0 <= i /\ i < n - 1
Next == UNCHANGED <<lo, n, c, i>>

(* the exported coordinates are evenly spaced by the cell size and increase *)
C17_CoordinatesEvenlySpaced == X2(i + 1) - X2(i) = 2 * c /\ X2(i) < X2(i + 1)
(* the importer's geometry: doubled cell, doubled corners *)
Cell2 == X2(1) - X2(0)                   \* = 2 * cell
PMin2 == X2(0) - Cell2 \div 2
PMax2 == X2(n - 1) + Cell2 \div 2
C17_ImportRecoversCell   == Cell2 = 2 * c /\ Cell2 % 2 = 0
(* the library takes the MEAN of the differences: their sum is the distance of the outer coordinates, n - 1 times the spacing *)
C17_MeanSpacingIsCell    == X2(n - 1) - X2(0) = (n - 1) * Cell2
C17_ImportRecoversRegion == PMin2 = 2 * lo /\ PMax2 = 2 * (lo + n * c)
(* and with them every coordinate is again the centre of its cell *)
C17_CoordinatesAreCentres == X2(i) = PMin2 + (2 * i + 1) * (Cell2 \div 2)
=============================================================================
