------------------------------ MODULE C05Core ------------------------------
(* The algebraic core of C05 for UNBOUNDED values, stencil coefficients, polynomial coefficients, *)
(* positions and cell sizes: why "curl(grad f) = 0 and div(curl v) = 0 on every fully valid mesh" *)
(* and "exact for polynomial fields of degree <= 2" follow from the operators being the textbook  *)
(* combinations of the directional differences.  TLC evaluates the operators of C05.tla on tables *)
(* and meshes of a few cells with a few small values; here Apalache proves the facts those runs   *)
(* sample, for integers of any size:                                                              *)
(*  - a directional difference is a three-point stencil along ONE axis whose coefficients depend  *)
(*    on the position along that axis only (interior (-1, 0, 1), ends (-3, 4, -1) / (1, -4, 3),    *)
(*    two-cell lines (-1, 1, 0): operators._1d_diff); differences along two different axes        *)
(*    commute for ANY such coefficients p, q and ANY nine values v;                               *)
(*  - a difference is linear in the field;                                                        *)
(*  - given those two facts, every component of curl(grad f) and the whole of div(curl v) are     *)
(*    sums that cancel term by term - exactly when each component is paired with ITS axis: with   *)
(*    two components of the curl exchanged (the slip the property names: pairing by position or   *)
(*    spelling instead of by the mapping) the divergence of the curl is the non-zero sum below;   *)
(*  - the Laplacian of a quadratic polynomial in three variables is 2 (axx + ayy + azz) at every  *)
(*    position, for every cell size: the mixed terms x y contribute nothing to a second           *)
(*    difference along one axis.                                                                  *)
(* The state is one arbitrary choice: every clause is an invariant of the initial states.          *)
(*   apalache-mc check --init=Init --inv=<clause> --length=0 C05Core.tla                           *)
EXTENDS Integers

VARIABLES
  \* @type: Int -> Int;
  p,          \* stencil along the first axis: coefficients at the offsets 0, 1, 2
  \* @type: Int -> Int;
  q,          \* stencil along the second axis
  \* @type: <<Int, Int>> -> Int;
  v,          \* the nine values of a field under the two stencils
  \* @type: <<Int, Int>> -> Int;
  w,          \* a second field, for linearity
  \* @type: Int;
  al,
  \* @type: Int;
  be,
  \* @type: <<Int, Int, Int>> -> Int;
  m,          \* m[<<a, b, k>>]: the mixed second difference along the axes a, b (a < b, the common value of both orders) of component k
  \* @type: Int -> Int;
  s,          \* coefficients of a quadratic polynomial in x, y, z: xx, yy, zz, xy, xz, yz, x, y, z, 1 at 0 .. 9
  \* @type: Int;
  x,
  \* @type: Int;
  y,
  \* @type: Int;
  z,
  \* @type: Int;
  cx,
  \* @type: Int;
  cy,
  \* @type: Int;
  cz

O3 == 0 .. 2
MixedDom == {t \in O3 \X O3 \X O3 : t[1] < t[2]}

Init == /\ p \in [O3 -> Int] /\ q \in [O3 -> Int]
        /\ v \in [O3 \X O3 -> Int] /\ w \in [O3 \X O3 -> Int]
        /\ al \in Int /\ be \in Int
        /\ m \in [MixedDom -> Int]
        /\ s \in [0 .. 9 -> Int]
        /\ x \in Int /\ y \in Int /\ z \in Int
        /\ cx \in Int /\ cy \in Int /\ cz \in Int /\ cx >= 1 /\ cy >= 1 /\ cz >= 1
Next == UNCHANGED <<p, q, v, w, al, be, m, s, x, y, z, cx, cy, cz>>

(* the difference along the first axis of the row b, along the second axis of the column a *)
\* @type: (<<Int, Int>> -> Int, Int) => Int;
D1(f, b) == p[0] * f[<<0, b>>] + p[1] * f[<<1, b>>] + p[2] * f[<<2, b>>]
\* @type: (<<Int, Int>> -> Int, Int) => Int;
D2(f, a) == q[0] * f[<<a, 0>>] + q[1] * f[<<a, 1>>] + q[2] * f[<<a, 2>>]

(* first along the second axis, then along the first - and the other way round *)
\* @type: (<<Int, Int>> -> Int) => Int;
D1D2(f) == p[0] * D2(f, 0) + p[1] * D2(f, 1) + p[2] * D2(f, 2)
\* @type: (<<Int, Int>> -> Int) => Int;
D2D1(f) == q[0] * D1(f, 0) + q[1] * D1(f, 1) + q[2] * D1(f, 2)

C05_MixedDifferencesCommute == D1D2(v) = D2D1(v)

Comb == [ab \in O3 \X O3 |-> al * v[ab] + be * w[ab]]
C05_DifferenceLinear == D1(Comb, 0) = al * D1(v, 0) + be * D1(w, 0)

(* the mixed difference along the axes a and b of component k, in either order (C05_MixedDifferencesCommute) *)
M(a, b, k) == IF a < b THEN m[<<a, b, k>>] ELSE m[<<b, a, k>>]
(* curl v = (d1 v2 - d2 v1, d2 v0 - d0 v2, d0 v1 - d1 v0); div of it, every component differenced along ITS axis *)
C05_DivCurlVanishes == (M(0, 1, 2) - M(0, 2, 1)) + (M(1, 2, 0) - M(1, 0, 2)) + (M(2, 0, 1) - M(2, 1, 0)) = 0
(* curl(grad f): component k of the gradient is the difference along axis k; m[<<a, b, 0>>] stands for d_a d_b f *)
C05_CurlGradVanishes == /\ M(1, 2, 0) - M(2, 1, 0) = 0
                        /\ M(2, 0, 0) - M(0, 2, 0) = 0
                        /\ M(0, 1, 0) - M(1, 0, 0) = 0

(* a quadratic polynomial in three variables and the second central difference along each axis, times the squared cell size *)
P(a, b, c) == s[0] * a * a + s[1] * b * b + s[2] * c * c + s[3] * a * b + s[4] * a * c + s[5] * b * c + s[6] * a + s[7] * b + s[8] * c + s[9]
C05_LaplaceExactOnQuadratics ==
  /\ P(x - cx, y, z) - 2 * P(x, y, z) + P(x + cx, y, z) = cx * cx * 2 * s[0]
  /\ P(x, y - cy, z) - 2 * P(x, y, z) + P(x, y + cy, z) = cy * cy * 2 * s[1]
  /\ P(x, y, z - cz) - 2 * P(x, y, z) + P(x, y, z + cz) = cz * cz * 2 * s[2]
(* gradient / divergence / curl of the quadratic: the central first difference along x, times 2 cx, is the partial derivative *)
C05_GradExactOnQuadratics ==
  /\ P(x + cx, y, z) - P(x - cx, y, z) = 2 * cx * (2 * s[0] * x + s[3] * y + s[4] * z + s[6])
  /\ P(x, y + cy, z) - P(x, y - cy, z) = 2 * cy * (2 * s[1] * y + s[3] * x + s[5] * z + s[7])
  /\ P(x, y, z + cz) - P(x, y, z - cz) = 2 * cz * (2 * s[2] * z + s[4] * x + s[5] * y + s[8])
=============================================================================
